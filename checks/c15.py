"""C15 - both reader generations and both file formats agree on structure content.

Sibling agreement (O1): PDB slices of parser.parse_pdb and parser_v2.parse_pdb_atoms, mmCIF item preference of the
two residue models, null markers, connectivity atoms/threshold/strictness in tertiary.py and tertiary_v2.py, chi
atom quadruples, coordinate items, residue ordering key.
"""
from __future__ import annotations

import ast
from typing import Any, Dict, List, Optional, Tuple

from checks import c08
from checks.c03 import K, spec
from checks.c08 import flat, line_slices
from sa import astq
from sa.consteval import Folder
from sa.model import AnalysisError, norm

P1, P2, T1, T2 = "parser", "parser_v2", "tertiary", "tertiary_v2"


def check_reader_agreement(chk) -> None:
    repo = chk.repo
    sp = spec("pdb_columns.json")
    a = repo.func(P1, "parse_pdb")
    b = repo.func(P2, "parse_pdb_atoms")
    chk.note_function(a)
    chk.note_function(b)
    sa_, how_a = c08.reader_slices(chk, "v1")
    sb, how_b = c08.reader_slices(chk, "v2")
    if "none" in (how_a, how_b):
        chk.error("pdb-slices-agree", (a if how_a == "none" else b).where, "the columns a PDB reader takes its fields from could not be established (not evaluable on probe lines, no `line[a:b]` subscripts found)")
    for var, field in sp["parser_names"].items():
        if "none" in (how_a, how_b):
            break
        ga, gb = sa_.get(field), sb.get(field)
        chk.expect(
            ga is not None and ga == gb,
            "pdb-slices-agree",
            b.where,
            f"both readers take {field} from line[{gb[0]}:{gb[1]}]" if gb else f"{field}",
            f"the two PDB readers take {field} from different columns: parser {ga}, parser_v2 {gb}",
            f"readers:{field}",
            expected=list(ga) if ga else None,
            found=list(gb) if gb else None,
        )
    for field, want in sp["atom"].items():
        if how_b == "none":
            break
        gb = sb.get(field)
        chk.expect(gb == tuple(want), "pdb-slices-v2", b.where, f"parser_v2: {field} = columns {want[0] + 1}-{want[1]}", f"parser_v2 reads {field} from {gb}, the format says line[{want[0]}:{want[1]}]", K(b, f"column:{field}"), expected=want, found=list(gb) if gb else None)
    if how_b == "probe":
        ok = sb.get("model") == tuple(sp["model_serial"])
    else:
        m2 = [n for n in ast.walk(b.node) if isinstance(n, ast.Assign) and norm(n.targets[0]) == "current_model" and isinstance(n.value, ast.Call)]
        ok = any("line[10:14]" in norm(n.value) for n in m2)
    chk.expect(ok, "pdb-slices-v2", b.where, "parser_v2: MODEL serial from columns 11-14", "parser_v2 does not read the MODEL serial from line[10:14]", K(b, "column:model"))
    # record filter of parser_v2: which records of a document become rows - parse_pdb_atoms interpreted as a whole; when that is not
    # possible the loop body is evaluated line by line on one representative per class
    from checks import c08e

    whole = False
    try:
        whole = c08e.check_v2_reader_eval(chk)
    except AnalysisError:
        raise
    except Exception as ex:
        chk.ok("pdb-reader-v2-eval", b.where, f"evaluation of parse_pdb_atoms failed internally ({type(ex).__name__}: {str(ex)[:60]}): the line loop is evaluated line by line")
    if not whole:
        _record_filter(chk, b, sp)
    # null markers in the table reader
    c = repo.func(P2, "parse_cif_atoms")
    chk.note_function(c)
    try:
        if c08e.check_cif_atoms_eval(chk):
            return
    except AnalysisError:
        raise
    except Exception as ex:
        chk.ok("cif-atoms-eval", c.where, f"evaluation of parse_cif_atoms failed internally ({type(ex).__name__}: {str(ex)[:60]}): the pinned-form rule decides")
    nm = [n for n in ast.walk(c.node) if isinstance(n, ast.Compare) and any(isinstance(x, ast.Constant) and x.value in ("?", ".") for x in ast.walk(n))]
    ok = len(nm) == 1 and {x.value for x in ast.walk(nm[0]) if isinstance(x, ast.Constant)} == {"?", "."}
    chk.expect(ok, "null-markers-v2", c.where, "parser_v2 maps both mmCIF null markers to None", "parser_v2 does not treat both '?' and '.' as missing", K(c, "nulls"))


def pdb_line(sp: Dict[str, Any], record: str, fields: Dict[str, str]) -> str:
    """An 80-column line with each given field right-justified in its columns (wwPDB table)."""
    buf = [" "] * 80
    for k, v in dict(fields, record_type=record).items():
        lo, hi = sp["atom"][k]
        txt = v.ljust(hi - lo) if k in ("record_type",) else v.rjust(hi - lo)
        buf[lo:hi] = list(txt[: hi - lo])
    return "".join(buf)


def _record_filter(chk, b, sp) -> None:
    from sa.blockeval import BlockEval, Unknown

    repo = chk.repo
    loops = [l for l in b.node.body if isinstance(l, ast.For) and norm(l.iter) == "lines" and isinstance(l.target, ast.Name)]
    if len(loops) != 1:
        chk.error("pdb-record-filter", b.where, "line loop of parse_pdb_atoms not found")
        return
    loop = loops[0]
    var = loop.target.id
    atom_fields = {"serial": "  417", "name": " CA ", "resName": "  G", "chainID": "B", "resSeq": " -12", "iCode": "C", "x": "  11.250", "y": " -22.500", "z": "  33.125", "occupancy": "  0.50", "tempFactor": " 42.17", "element": " C", "charge": "1-", "altLoc": "A"}
    big = dict(atom_fields, serial="12345")
    classes = [
        ("ATOM line", pdb_line(sp, "ATOM", atom_fields), True),
        ("HETATM line", pdb_line(sp, "HETATM", atom_fields), True),
        ("HETATM line whose 5-digit serial touches the record name", pdb_line(sp, "HETATM", big), True),
        ("ATOM line with a 5-digit serial", pdb_line(sp, "ATOM", big), True),
        ("ANISOU line", pdb_line(sp, "ANISOU", atom_fields), False),
        ("TER line", "TER     418        G B -12C".ljust(80), False),
        ("REMARK line", "REMARK 465 ATOM  MISSING".ljust(80), False),
        ("MODEL line", "MODEL        2".ljust(80), False),
        ("ENDMDL line", "ENDMDL".ljust(80), False),
        ("CONECT line", "CONECT  417  418".ljust(80), False),
        ("blank line", "", False),
    ]
    wrong = {}
    decoded = None
    model_after = None
    try:
        for tag, line, want in classes:
            ev = BlockEval(repo, P2, {var: line, "records": [], "current_model": 1})
            # names of the accumulator(s): every local list the body appends to starts empty
            for c in astq.calls(loop, "append"):
                if isinstance(c.func.value, ast.Name):
                    ev.env.setdefault(c.func.value.id, [])
            ev.run(loop.body)
            got = [v for k, v in ev.env.items() if isinstance(v, list) and v and isinstance(v[0], dict)]
            appended = bool(got)
            if appended != want:
                wrong[tag] = appended
            if tag == "ATOM line" and got:
                decoded = got[0][0]
            if tag == "MODEL line":
                model_after = ev.env.get("current_model")
    except Unknown as ex:
        chk.error("pdb-record-filter", b.site(loop), f"line loop not evaluable on the representative lines: {ex}")
        return
    except Exception as ex:
        chk.violation("pdb-record-filter", b.site(loop), f"the line loop raises {type(ex).__name__} ({ex}) on a representative line", K(b, "record-filter-raises"))
        return
    chk.expect(
        not wrong,
        "pdb-record-filter",
        b.site(loop),
        f"parser_v2 keeps exactly the lines whose record name (columns 1-6) is ATOM or HETATM ({len(classes)} classes of line evaluated)",
        "parser_v2 " + "; ".join(f"{'keeps' if v else 'drops'} a {k}" for k, v in wrong.items()) + ": atom lines are lost or foreign lines decoded",
        K(b, "record-filter"),
        found=wrong,
    )
    chk.expect(model_after == 2, "pdb-record-filter", b.site(loop), "a MODEL line sets the current model from columns 11-14", f"after `MODEL        2` the current model is {model_after!r}", K(b, "model-line"))
    if decoded is not None:
        want = {k: v.strip() for k, v in atom_fields.items()}
        want["record_type"] = "ATOM"
        bad = {k: (decoded.get(k), v) for k, v in want.items() if str(decoded.get(k)) != v}
        chk.expect(not bad, "pdb-decode-v2", b.site(loop), "an ATOM line with a distinct value in every field is decoded field for field (serial, name, altLoc, resName, chain, number incl. sign, iCode, x, y, z, occupancy, B, element, charge)", f"fields decoded wrongly from a fully populated ATOM line: { {k: g for k, (g, w) in bad.items()} } (expected { {k: w for k, (g, w) in bad.items()} })", K(b, "decode"), expected={k: w for k, (g, w) in bad.items()}, found={k: g for k, (g, w) in bad.items()})


def check_item_preference(chk) -> None:
    repo = chk.repo
    from checks import c15e

    acc = False
    try:
        acc = c15e.check_accessors_eval(chk)  # both residue models on interpreted instances; the pinned forms below are the fallback
    except AnalysisError:
        raise
    except Exception as ex:
        chk.ok("accessors-eval", "-", f"evaluation of the residue accessors failed internally ({type(ex).__name__}: {str(ex)[:60]}): the pinned-form rules decide")
    if acc:
        chk = _Decided(chk, drop={"prefer-auth", "pdb-field", "icode-field", "atom-by-name", "coordinates-items"})
    # residue-level model: Residue.chain/number prefer auth
    for prop, fld in (("chain", "chain"), ("number", "number"), ("name", "name")):
        fi = repo.func("common", f"Residue.{prop}")
        chk.note_function(fi)
        first = fi.node.body[0]
        ok = isinstance(first, ast.If) and norm(first.test) == "self.auth is not None" and norm(first.body[0]) == f"return self.auth.{fld}"
        chk.expect(ok, "prefer-auth", fi.where, f"Residue.{prop} prefers the author identity", f"Residue.{prop} does not prefer auth over label", K(fi, "prefer-auth"))
    # table-level model
    for prop, col_auth, col_label in (("chain_id", "auth_asym_id", "label_asym_id"), ("residue_number", "auth_seq_id", "label_seq_id"), ("residue_name", "auth_comp_id", "label_comp_id")):
        fi = repo.func(T2, f"Residue.{prop}")
        chk.note_function(fi)
        br = [s for s in ast.walk(fi.node) if isinstance(s, ast.If) and norm(s.test) == "self.format == 'mmCIF'"]
        ok = False
        if br:
            inner = br[0].body[0] if br[0].body and isinstance(br[0].body[0], ast.If) else None
            ok = inner is not None and norm(inner.test) == f"'{col_auth}' in self.atoms.columns" and col_auth in norm(inner.body[0]) and col_label in norm(inner.orelse[0])
        chk.expect(ok, "prefer-auth", fi.where, f"tertiary_v2 Residue.{prop} prefers {col_auth}, falls back to {col_label}", f"tertiary_v2 Residue.{prop} does not prefer {col_auth} over {col_label}", K(fi, "prefer-auth"))
        pdb = [s for s in ast.walk(fi.node) if isinstance(s, ast.If) and norm(s.test) == "self.format == 'PDB'"]
        want = {"chain_id": "chainID", "residue_number": "resSeq", "residue_name": "resName"}[prop]
        chk.expect(bool(pdb) and want in norm(pdb[0].body[0]), "pdb-field", fi.where, f"PDB: {prop} from {want}", f"PDB branch of {prop} does not read {want}", K(fi, "pdb-field"))
    ic = repo.func(T2, "Residue.insertion_code")
    chk.note_function(ic)
    t = norm(ic.node)
    chk.expect("self.atoms['iCode'].iloc[0]" in t and "self.atoms['pdbx_PDB_ins_code'].iloc[0]" in t and t.count("pd.notna(icode) else None") == 2, "icode-field", ic.where, "insertion code from iCode / pdbx_PDB_ins_code, None when missing", "insertion code is not read from iCode / pdbx_PDB_ins_code with NA -> None", K(ic, "icode"))
    # grouping of the table-level model
    rs = repo.func(T2, "Structure.residues")
    chk.note_function(rs)
    from checks import c15e

    decided = False
    try:
        decided = c15e.check_group_columns_eval(chk, rs)
    except AnalysisError:
        raise
    except Exception as ex:
        chk.ok("group-columns-eval", rs.where, f"evaluation of Structure.residues failed internally ({type(ex).__name__}): the path rule decides")
    if not decided:
        _group_columns(chk, rs)
    # atom name / coordinates
    at = repo.func(T2, "Atom.coordinates")
    chk.note_function(at)
    t = norm(at.node)
    chk.expect("self.data['x'], self.data['y'], self.data['z']" in t and "self.data['Cartn_x'], self.data['Cartn_y'], self.data['Cartn_z']" in t, "coordinates-items", at.where, "coordinates from x/y/z resp. Cartn_x/y/z in axis order", "tertiary_v2 Atom.coordinates does not read (x, y, z) / (Cartn_x, Cartn_y, Cartn_z) in axis order", K(at, "coords"))
    fa = repo.func(T2, "Residue.find_atom")
    chk.note_function(fa)
    t = norm(fa.node)
    chk.expect("self.atoms['name'] == atom_name" in t and "self.atoms['auth_atom_id'] == atom_name" in t and "self.atoms['label_atom_id'] == atom_name" in t, "atom-by-name", fa.where, "atoms are found by exact name", "tertiary_v2 find_atom does not compare the atom name column with the requested name", K(fa, "by-name"))


def _group_columns(chk, rs) -> None:
    """Grouping key of Structure.residues along every path: (chain, number, insertion code), author items first, missing values kept."""
    from sa import paths as PT

    problems = []
    seen_cases = set()
    n = 0
    for events, exit_ in PT.paths(rs.node.body):
        dec = {ev[1]: ev[2] for ev in events if ev[0] == "test"}
        cols = None
        filtered = False
        grouped = None
        for ev in events:
            if ev[0] != "stmt":
                continue
            st = ev[1]
            if isinstance(st, ast.Assign) and norm(st.targets[0]) == "groupby_cols":
                if isinstance(st.value, ast.List) and all(isinstance(e, ast.Constant) for e in st.value.elts):
                    cols = [e.value for e in st.value.elts]
                elif flat(st.value) == flat("[col for col in groupby_cols if col in self.atoms.columns]"):
                    filtered = True
                else:
                    problems.append(("error", st, f"`{norm(st)[:70]}` not understood"))
            for c in ast.walk(st):
                if isinstance(c, ast.Call) and isinstance(c.func, ast.Attribute):
                    if c.func.attr in ("append", "extend") and norm(c.func.value) == "groupby_cols" and c.args and cols is not None:
                        if isinstance(c.args[0], ast.Constant):
                            cols = cols + [c.args[0].value]
                        else:
                            problems.append(("error", st, f"`{norm(c)[:60]}` not understood"))
                    if c.func.attr == "groupby" and norm(c.func.value) == "self.atoms":
                        grouped = c
        if grouped is None:
            continue
        n += 1
        fmt = "PDB" if dec.get("self.format == 'PDB'") else ("mmCIF" if dec.get("self.format == 'mmCIF'") else None)
        if fmt is None or cols is None or not grouped.args or norm(grouped.args[0]) != "groupby_cols":
            problems.append(("error", grouped, "path to the groupby call not understood"))
            continue
        kw = {k.arg: norm(k.value) for k in grouped.keywords}
        if kw.get("dropna") != "False":
            problems.append(("group-columns", grouped, "groupby drops rows whose key has a missing value (dropna is not False): residues without an insertion code vanish", "dropna"))
        if fmt == "PDB":
            want = ["chainID", "resSeq", "iCode"]
            seen_cases.add("PDB")
        else:
            auth = dec.get("'auth_asym_id' in self.atoms.columns") is True and dec.get("'auth_seq_id' in self.atoms.columns") is True
            ins = dec.get("'pdbx_PDB_ins_code' in self.atoms.columns")
            want = (["auth_asym_id", "auth_seq_id"] if auth else ["label_asym_id", "label_seq_id"]) + (["pdbx_PDB_ins_code"] if ins else [])
            seen_cases.add(("mmCIF", auth, bool(ins)))
            if ins is None:
                problems.append(("group-columns", grouped, f"on the mmCIF path with {'author' if auth else 'label'} items the insertion code column is never consulted: residues that differ only by insertion code are merged", f"icode:{auth}"))
                continue
        if cols != want:
            problems.append(("group-columns", grouped, f"{fmt} ({dict((k, v) for k, v in dec.items() if 'columns' in k)}): residues are grouped by {cols}, expected {want}", f"cols:{fmt}:{want}"))
    seen = set()
    hit = False
    for p in problems:
        if p[0] == "error":
            chk.error("group-columns", rs.site(p[1]), p[2])
            hit = True
        elif p[3] not in seen:
            seen.add(p[3])
            chk.violation("group-columns", rs.site(p[1]), p[2], K(rs, f"group:{p[3]}"))
            hit = True
    if not hit:
        chk.expect(n >= 5 and "PDB" in seen_cases and len(seen_cases) >= 5, "group-columns", rs.where, f"{n} paths: residues are grouped by (chain, number, insertion code), author items first, insertion code whenever the column exists, missing values kept (dropna=False)", "not all format/column cases of the grouping key were found", K(rs, "group-cols"), found=sorted(map(str, seen_cases)))
        chk.ok("group-columns", rs.where, "the insertion code joins the grouping key when present")
        chk.ok("group-columns", rs.where, "groups with a missing insertion code are kept (dropna=False)")


class _Decided:
    """The check while a pinned form is read after the same behaviour was decided by evaluation: the rules in `drop` are not recorded,
    'idiom not found' of the rules in `quiet` is dropped (their folded facts are still compared)."""

    def __init__(self, chk, drop=(), quiet=()):
        self._chk, self._drop, self._quiet = chk, set(drop), set(quiet)
        self.repo, self.robust = chk.repo, chk.robust

    def __getattr__(self, name):
        return getattr(self._chk, name)

    def ok(self, rule, *a, **k):
        if rule not in self._drop:
            self._chk.ok(rule, *a, **k)

    def error(self, rule, *a, **k):
        if rule not in self._drop and rule not in self._quiet:
            self._chk.error(rule, *a, **k)

    def violation(self, rule, *a, **k):
        if rule not in self._drop:
            self._chk.violation(rule, *a, **k)

    def expect(self, cond, rule, *a, **k):
        if rule not in self._drop:
            return self._chk.expect(cond, rule, *a, **k)
        return bool(cond)


def check_connectivity(chk) -> None:
    repo = chk.repo
    c = spec("constants.json")["C15"]
    sites = []
    from checks import c15e

    def _ev(f, *a):
        try:
            return bool(f(chk, *a))
        except AnalysisError:
            raise
        except Exception as ex:
            chk.ok("connect-eval", "-", f"{f.__name__} failed internally ({type(ex).__name__}: {str(ex)[:60]}): the pinned-form rules decide")
            return False

    evaluated = {}
    for m, q in ((T1, "Residue3D.is_connected"), (T2, "Residue.is_connected")):
        fi = repo.func(m, q)
        chk.note_function(fi)
        # the link test evaluated on residue pairs (atoms present / absent, distances around the threshold, direction); the reading of
        # the pinned form that follows still folds the threshold (a robust fact) and is otherwise the fallback
        evaluated[(m, q)] = _ev(c15e.check_link_eval, m, q)
        ck = _Decided(chk, drop={"connect-atoms", "connect-distance", "connect-distance-form"}, quiet={"connect-threshold"}) if evaluated[(m, q)] else chk
        o3 = astq.first_assign(fi.node, "o3p")
        p = astq.first_assign(fi.node, "p")
        ok = o3 is not None and norm(o3) == "self.find_atom(\"O3'\")" and p is not None and norm(p) == "next_residue_candidate.find_atom('P')"
        ck.expect(ok, "connect-atoms", fi.where, "link = O3' of this residue to P of the next", "connectivity is not measured from self O3' to the candidate's P", K(fi, "atoms"))
        from sa.defuse import Inliner

        inl = Inliner(fi.node)
        rets = [r for r in ast.walk(fi.node) if isinstance(r, ast.Return) and r.value is not None and isinstance(inl.inline(r.value, r, stop=("o3p", "p")), ast.Compare)]
        if len(rets) != 1:
            ck.error("connect-threshold", fi.where, "distance comparison not found")
            continue
        cmp_ = inl.inline(rets[0].value, rets[0], stop=("o3p", "p"))
        if len(cmp_.ops) != 1:
            ck.error("connect-threshold", fi.site(rets[0]), "chained comparison")
            continue
        left, right, op = cmp_.left, cmp_.comparators[0], type(cmp_.ops[0]).__name__
        thr = Folder(repo, m).try_fold(right)
        if thr is None and Folder(repo, m).try_fold(left) is not None:
            left, right = right, left
            thr = Folder(repo, m).try_fold(right)
            op = {"Lt": "Gt", "Gt": "Lt", "LtE": "GtE", "GtE": "LtE"}.get(op, op)
        if thr is None:
            ck.error("connect-threshold", fi.site(rets[0]), f"threshold `{norm(right)}` does not fold")
            continue
        sites.append((fi, op, thr, norm(left)))
        ck.expect(abs(thr - c["connect_threshold"]) < 1e-9, "connect-threshold", fi.site(rets[0]), f"threshold folds to {thr}", f"connectivity threshold folds to {thr}, the statement says {c['connect_threshold']} A", K(fi, "threshold"), expected=c["connect_threshold"], found=thr)
        np_ = "numpy" if m == T1 else "np"
        dist_ok = norm(left) in (f"{np_}.linalg.norm(o3p.coordinates - p.coordinates).item()", f"{np_}.linalg.norm(p.coordinates - o3p.coordinates).item()", f"{np_}.linalg.norm(o3p.coordinates - p.coordinates)", f"{np_}.linalg.norm(p.coordinates - o3p.coordinates)")
        if dist_ok:
            ck.ok("connect-distance", fi.site(rets[0]), "distance = |O3' - P|")
        else:
            ck.violation("connect-distance-form", fi.site(rets[0]), f"the compared quantity `{norm(left)[:80]}` is not the O3'-P distance", K(fi, "distance"))
        # the comparison is reached only with both atoms present
        from sa.flow import FlowMap, facts

        fmx = FlowMap(fi.node)
        fs = facts(fmx.of(rets[0]).guards)
        have = {nm: any((norm(g.test) == f"{nm} is not None" and g.polarity) or (norm(g.test) == f"{nm} is None" and not g.polarity) for g in fs) for nm in ("o3p", "p")}
        ck.expect(all(have.values()), "connect-atoms", fi.site(rets[0]), "the distance is taken only when both atoms exist; otherwise not connected", f"the distance is computed without establishing that {[k for k, v in have.items() if not v]} exist", K(fi, "atoms-present"))
    if len(sites) == 2:
        chk.expect(sites[0][1] == sites[1][1] == "Lt" and sites[0][2] == sites[1][2], "connect-agree", sites[1][0].where, "both models use the same threshold and strictness", "the two connectivity tests disagree in threshold or strictness", "connect:agree", found=[(s[1], s[2]) for s in sites])
    # ordering of residues before connectivity in the table-level model
    cr = repo.func(T2, "Structure.connected_residues")
    chk.note_function(cr)
    if _ev(c15e.check_segments_eval):
        return  # order, runs, minimal length and chain separation decided on the result; the pinned sort key below is the fallback
    srt = [c2 for c2 in astq.calls(cr.node, "sort")] + [c2 for c2 in ast.walk(cr.node) if isinstance(c2, ast.Call) and isinstance(c2.func, ast.Name) and c2.func.id == "sorted"]
    keys = [k.value for c2 in srt for k in c2.keywords if k.arg == "key"]
    if len(srt) != 1 or len(keys) != 1 or not isinstance(keys[0], ast.Lambda):
        if not srt:
            chk.violation("connect-order", cr.where, "the residues of a chain are not sorted before linking: file order decides which residues are neighbours", K(cr, "sort-key"))
        else:
            chk.error("connect-order", cr.where, "per-chain sort with a lambda key not found")
    else:
        lam = keys[0]
        r = lam.args.args[0].arg
        body = lam.body
        elts = body.elts if isinstance(body, ast.Tuple) else [body]
        fields = [x.attr for e in elts for x in ast.walk(e) if isinstance(x, ast.Attribute) and isinstance(x.value, ast.Name) and x.value.id == r]
        if fields[:1] == ["residue_number"] and "insertion_code" in fields[1:2]:
            none_safe = len(elts) == 2 and norm(elts[1]) in (f"{r}.insertion_code or ''", f"{r}.insertion_code or ' '", f"'' if {r}.insertion_code is None else {r}.insertion_code")
            chk.expect(none_safe, "connect-order", cr.site(lam), "residues of a chain are ordered by (number, insertion code or '') before linking", f"the sort key `{norm(body)}` compares None insertion codes with strings: TypeError for chains mixing residues with and without insertion codes", K(cr, "sort-key"))
        elif "residue_number" in fields and "insertion_code" not in fields:
            chk.violation("connect-order", cr.site(lam), f"the per-chain sort key `{norm(body)}` ignores the insertion code: residues 10, 10A, 10B keep whatever order the grouping produced, so the wrong residues are linked as neighbours", K(cr, "sort-key"), expected="(residue_number, insertion_code or '')", found=norm(body))
        elif "residue_number" not in fields:
            chk.violation("connect-order", cr.site(lam), f"the per-chain sort key `{norm(body)}` does not order by residue number", K(cr, "sort-key"), found=norm(body))
        else:
            chk.error("connect-order", cr.site(lam), f"sort key `{norm(body)}` not understood")
    seg = [s for s in ast.walk(cr.node) if isinstance(s, ast.If) and norm(s.test) == "prev_residue.is_connected(residue)"]
    if len(seg) == 1:
        chk.ok("connect-order", cr.where, "consecutive residues are linked iff prev.is_connected(next)")
    else:
        # neither evaluable nor in the pinned form: this reading cannot tell how the segments are built
        chk.error("connect-order", cr.where, "how the segments are cut (`prev_residue.is_connected(residue)` in the pinned form) could not be read, and connected_residues was not evaluable")


def check_chi(chk) -> None:
    """chi atoms / dispatch / agreement of the two implementations: decided at fact level by checks/c18e.py (Residue3D.chi evaluated on
    one-letter names x atom sets through the helpers it calls, tertiary_v2.Structure.torsion_angles on stub segments); the pinned forms
    that used to live here are its fallback there.  Shared with C18 and C03."""
    from checks import c18e

    c18e.check_chi(chk)


def run(chk) -> None:
    chk.explanation = (
        "Sibling-agreement rules between parser.py/tertiary.py and parser_v2.py/tertiary_v2.py on the current source: PDB column slices agree field by field (and with the pinned format table), "
        "both readers handle both null markers, chain and number prefer the author items in both residue models, grouping keys include the insertion code and keep missing values, connectivity uses O3'->P "
        "with the same folded threshold 2.4 and strictness, per-chain order by (number, insertion code), chi atom quadruples equal in both implementations and equal to IUPAC, coordinates from x/y/z resp. Cartn_x/y/z."
    )
    chk.trusted = ["CPython ast", "pandas groupby/sort semantics", "wwPDB column table and IUPAC torsion table in spec/"]
    chk.assumptions = ["structures without alternate locations", "label and auth atom/residue names are equal in the quantified tables", "sign of the torsion is C18's business (magnitudes here)"]
    chk.robust |= {"pdb-slices-agree", "pdb-slices-v2", "pdb-record-filter", "pdb-decode-v2", "int-parsing", "connect-threshold", "connect-agree", "connect-atoms", "chi-atoms", "chi-agree", "chi-dispatch", "chi-bases", "backbone-atoms", "pdb-columns", "group-columns", "connect-order", "null-markers-v2", "format-detection", "cif-table"}
    check_reader_agreement(chk)
    check_item_preference(chk)
    check_connectivity(chk)
    check_chi(chk)
    c08.check_pdb_columns(chk)
    c08.check_parse_pdb(chk)
    c08.check_format_detection(chk)  # "whether the atoms were supplied as PDB or as mmCIF": the file reaches the reader of its format
    for rule, n in (("pdb-slices-agree", 9), ("pdb-slices-v2", 15), ("connect-threshold", 2), ("chi-atoms", 2), ("prefer-auth", 6)):
        chk.floor(rule, n)
    from checks import w3cross

    w3cross.check(chk, "C15", untouched=())  # state that survives a call: shared memo results, module-level containers, arguments


MANIFEST_ENTRY = {
    "text": "Static sibling-agreement analysis on the current source: the two reader generations and the two residue models encode the same facts (PDB columns, null markers, author-item preference, grouping key, "
    "connectivity atoms/threshold/strictness, residue order, chi and backbone atom quadruples, coordinate items); any one-sided edit is reported. Agreement of the encoded facts is a necessary condition for the readers "
    "to agree on every table, which tests on one or two files cannot establish. Since round 4 both readers, Structure.residues and connected_residues are also interpreted on one table / file per input class (sa/frame.py, sa/fragment.py) and compared clause by clause.",
    "note": "Trusted: pandas grouping/sorting semantics; equality of parsed values end to end is not decided; torsion sign is C18.",
    "technique": "static analysis: sibling-table agreement (writer/reader and reader/reader tables extracted from the ast and compared), constant folding + whole-function evaluation of the ast of both reader generations on one input per class",
}
