"""C16 - the all-dot-brackets list is exactly the set of greedy-stable assignments.

Decided on BpSeq.all_dot_brackets: conflict graph (shared with C01/C02), connected components by a
complete graph walk, every permutation of every component, first-fit per permutation (shared shape with
FCFS), cartesian product over all components, default level 0 elsewhere, de-duplication, verified fill,
early exit = [FCFS].
"""
from __future__ import annotations

import ast
from typing import Any, List, Optional

from checks import c01
from sa import astq
from sa.flow import FlowMap, always_exits, facts
from sa.model import AnalysisError, FuncInfo, norm
from sa.sym import Aff, SymEnv, atom_of

MOD = "common"
K = c01.K


def check_components(chk, fi: FuncInfo) -> None:
    fm = FlowMap(fi.node)
    # vertices: all graph keys
    v = astq.single_def(fi.node, "vertices")
    chk.expect(
        v is not None and (astq.match(v, "list(graph.keys())") is not None or astq.match(v, "list(graph)") is not None or astq.match(v, "sorted(graph)") is not None or astq.match(v, "sorted(graph.keys())") is not None),
        "components-vertices",
        fi.where,
        "the walk starts from the complete vertex list of the conflict graph",
        "vertices is not the complete key list of the conflict graph",
        K(fi, "vertices"),
        found=norm(v) if v is not None else None,
    )
    vis = astq.single_def(fi.node, "visited")
    ok_vis = vis is not None and (astq.match(vis, "{X_: False for X_ in vertices}") is not None or astq.match(vis, "set()") is not None)
    chk.expect(ok_vis, "components-visited", fi.where, "no vertex is visited initially", "visited is not initialised to 'nothing visited'", K(fi, "visited-init"), found=norm(vis) if vis is not None else None)
    outer = [l for l in fi.node.body if isinstance(l, ast.For) and astq.match(l.iter, "vertices") is not None]
    if len(outer) != 1 or not isinstance(outer[0].target, ast.Name):
        chk.error("components-walk", fi.where, "outer loop `for v in vertices` not found")
        return
    outer = outer[0]
    v0 = outer.target.id
    whiles = [w for w in ast.walk(outer) if isinstance(w, ast.While)]
    if len(whiles) != 1:
        chk.error("components-walk", fi.site(outer), "expected one worklist loop")
        return
    w = whiles[0]
    # the worklist
    m = astq.match(w.test, "W_") if isinstance(w.test, ast.Name) else astq.match(w.test, "len(W_) > 0")
    if not m:
        chk.error("components-walk", fi.site(w), f"worklist loop test `{norm(w.test)}` not understood")
        return
    wl = norm(m["W_"])
    wst_guards = facts(fm.of(w).guards)
    started_unvisited = any((astq.match(g.test, f"visited[{v0}]") is not None and g.polarity is False) or (astq.match(g.test, f"{v0} in visited") is not None and g.polarity is False) for g in wst_guards)
    chk.expect(
        started_unvisited,
        "components-start",
        fi.site(w),
        "a walk is started from every vertex not yet visited",
        "walks are not started exactly from the vertices that are still unvisited",
        K(fi, "start"),
    )
    # start bookkeeping: mark start visited, worklist = [start], new component [start]
    pre = [s for s in ast.walk(outer) if isinstance(s, ast.stmt) and s is not w and not any(s is n for n in ast.walk(w))]
    pre_txt = [norm(s) for s in pre]
    chk.expect(
        any(t in (f"visited[{v0}] = True", f"visited.add({v0})") for t in pre_txt) and f"{wl} = [{v0}]" in pre_txt and f"components.append([{v0}])" in pre_txt,
        "components-start",
        fi.site(outer),
        "the start vertex is marked, pushed and opens a new component",
        "the start vertex is not marked visited / pushed / recorded as a new component",
        K(fi, "start-bookkeeping"),
        found=pre_txt,
    )
    # idioms
    pops = [c for c in astq.calls(w, "pop") if astq.dotted(c.func.value) == wl]
    nb_loops = [l for l in ast.walk(w) if isinstance(l, ast.For)]
    if len(pops) != 1 or len(nb_loops) != 1:
        chk.error("components-walk", fi.site(w), f"expected one pop and one neighbour loop in the worklist loop, found {len(pops)} / {len(nb_loops)}")
        return
    pop, nb = pops[0], nb_loops[0]
    pop_st = fm.stmt_of(pop)
    pop_guards = fm.guards_within(pop_st, w)
    cur_def = None
    # current vertex
    cur_name = None
    mm = astq.match(nb.iter, "graph[C_]")
    if not mm or not isinstance(mm["C_"], ast.Name) or not isinstance(nb.target, ast.Name):
        chk.error("components-walk", fi.site(nb), f"neighbour loop `{norm(nb.iter)}` is not over graph[current]")
        return
    cur_name = mm["C_"].id
    nbr = nb.target.id
    cur_defs = [val for s, val in astq.assignments(w, cur_name) if val is not None]
    breaks = [n for n in ast.walk(nb) if isinstance(n, ast.Break)]
    marks = [s for s in ast.walk(w) if isinstance(s, ast.stmt) and norm(s) in ("visited[%s] = True" % x for x in (nbr, "next_vertex"))]
    if not pop_guards and len(cur_defs) == 1 and cur_defs[0] is pop:
        # idiom B: current = worklist.pop(); every unvisited neighbour is marked, pushed, recorded; no break
        body_txt = [norm(s) for s in ast.walk(nb) if isinstance(s, ast.stmt)]
        guarded = [s for s in nb.body if isinstance(s, ast.If) and (astq.match(s.test, f"not visited[{nbr}]") is not None or astq.match(s.test, f"{nbr} not in visited") is not None)]
        ok = (
            not breaks
            and len(guarded) == 1
            and any(norm(s) in (f"visited[{nbr}] = True", f"visited.add({nbr})") for s in guarded[0].body)
            and any(norm(s) == f"{wl}.append({nbr})" for s in guarded[0].body)
            and any(norm(s) == f"components[-1].append({nbr})" for s in guarded[0].body)
        )
        chk.expect(
            ok,
            "components-walk",
            fi.site(w),
            "pop-first walk: every unvisited neighbour of the popped vertex is marked, pushed and recorded (no early break)",
            "pop-first walk that does not mark, push and record *every* unvisited neighbour of the popped vertex (break or missing step): a branching component is split",
            K(fi, "walk"),
            found=body_txt,
        )
        return
    if len(cur_defs) == 1 and astq.match(cur_defs[0], f"{wl}[-1]") is not None:
        # idiom A: peek; first unvisited neighbour -> mark/push/record; pop only when none is left
        nv_assign = [s for s in ast.walk(nb) if isinstance(s, ast.Assign) and isinstance(s.targets[0], ast.Name) and astq.match(s.value, nbr) is not None]
        if len(nv_assign) != 1:
            chk.error("components-walk", fi.site(nb), "peek walk: the chosen neighbour is not stored in a variable")
            return
        nv = nv_assign[0].targets[0].id
        g = facts(fm.guards_within(nv_assign[0], nb))
        sel_ok = any((astq.match(x.test, f"visited[{nbr}]") is not None and x.polarity is False) or (astq.match(x.test, f"{nbr} in visited") is not None and x.polarity is False) for x in g) and len(g) == 1
        reset = [s for s in w.body if norm(s) == f"{nv} = None"]
        reset_ok = len(reset) == 1 and w.body.index(reset[0]) < w.body.index(nb)
        pg = facts(pop_guards)
        pop_ok = len(pg) == 1 and ((astq.match(pg[0].test, f"{nv} is not None") is not None and pg[0].polarity is False) or (astq.match(pg[0].test, f"{nv} is None") is not None and pg[0].polarity is True)) and len(pop.args) == 0
        push_if = pg[0].stmt if pg else None
        push_body = (push_if.body if pg and astq.match(pg[0].test, f"{nv} is not None") is not None else (push_if.orelse if push_if is not None else [])) if push_if is not None else []
        pt = [norm(s) for s in push_body]
        push_ok = any(t in (f"visited[{nv}] = True", f"visited.add({nv})") for t in pt) and f"{wl}.append({nv})" in pt and f"components[-1].append({nv})" in pt
        chk.expect(
            sel_ok and reset_ok and pop_ok and push_ok,
            "components-walk",
            fi.site(w),
            "peek walk: an unvisited neighbour of the top vertex is marked, pushed and recorded; the top is popped only when it has none left",
            "peek walk in which the top vertex can be popped while it still has unvisited neighbours, or a found neighbour is not marked/pushed/recorded: a component is split or a vertex lost",
            K(fi, "walk"),
            found={"select": sel_ok, "reset": reset_ok, "pop": pop_ok, "push": push_ok},
        )
        return
    chk.error("components-walk", fi.site(w), "graph walk idiom not recognised (neither pop-first nor peek)")


def check_permutation_greedy(chk, fi: FuncInfo) -> None:
    fm = FlowMap(fi.node)
    comp_loops = [l for l in fi.node.body if isinstance(l, ast.For) and astq.match(l.iter, "components") is not None]
    if len(comp_loops) != 1 or not isinstance(comp_loops[0].target, ast.Name):
        chk.error("greedy-perms", fi.where, "loop over components not found")
        return
    cl = comp_loops[0]
    comp = cl.target.id
    pls = [l for l in cl.body if isinstance(l, ast.For)]
    if len(pls) != 1 or not isinstance(pls[0].target, ast.Name):
        chk.error("greedy-perms", fi.site(cl), "loop over permutations not found")
        return
    pl = pls[0]
    perm = pl.target.id
    if isinstance(pl.iter, ast.Call) and astq.dotted(pl.iter.func) == "itertools.permutations":
        chk.expect(
            len(pl.iter.args) == 1 and not pl.iter.keywords and norm(pl.iter.args[0]) == comp,
            "greedy-perms",
            fi.site(pl),
            "every ordering of the component's stems is tried: itertools.permutations(component)",
            f"`{norm(pl.iter)}` does not enumerate all orderings of the whole component",
            K(fi, "permutations"),
            expected=f"itertools.permutations({comp})",
            found=norm(pl.iter),
        )
    elif isinstance(pl.iter, (ast.List, ast.Tuple)):
        chk.violation("greedy-perms", fi.site(pl), f"only the orderings `{norm(pl.iter)}` are tried, not all permutations of the component", K(fi, "permutations"), found=norm(pl.iter))
    else:
        chk.error("greedy-perms", fi.site(pl), f"enumeration of orderings `{norm(pl.iter)}` not recognised")
    skip = [n for s in cl.body for n in ast.walk(s) if isinstance(n, (ast.Break, ast.Continue))]
    chk.expect(not skip, "greedy-perms", fi.site(cl), "no component or permutation is skipped", "break/continue in the component/permutation loops skips cases", K(fi, "perm-skip"))
    # orders init per permutation
    oi = [s for s in pl.body if isinstance(s, ast.Assign) and norm(s.targets[0]) == "orders"]
    ok = len(oi) == 1 and (astq.match(oi[0].value, f"{{X_: 0 for X_ in {comp}}}") is not None or astq.match(oi[0].value, f"dict.fromkeys({comp}, 0)") is not None)
    chk.expect(ok, "greedy-init", fi.site(pl), "every permutation starts with all stems of the component on level 0", "per-permutation level map is not initialised to 0 for every stem of the component", K(fi, "greedy-init"), found=norm(oi[0].value) if oi else None)
    gl = [l for l in pl.body if isinstance(l, ast.For)]
    if len(gl) != 1 or not isinstance(gl[0].target, ast.Name):
        chk.error("greedy-loop", fi.site(pl), "greedy loop over positions not found")
        return
    g = gl[0]
    i = g.target.id
    chk.expect(
        any(astq.match(g.iter, p) is not None for p in (f"range(1, len({perm}))", f"range(len({perm}))", f"range(1, len({comp}))", f"range(len({comp}))")),
        "greedy-outer",
        fi.site(g),
        "every position after the first is assigned in permutation order",
        f"`{norm(g.iter)}` does not visit every position of the permutation",
        K(fi, "greedy-outer"),
        found=norm(g.iter),
    )
    av = [s for s in g.body if isinstance(s, ast.Assign) and norm(s.targets[0]) == "available"]
    inner = [l for l in g.body if isinstance(l, ast.For)]
    if len(av) != 1 or len(inner) != 1 or not isinstance(inner[0].target, ast.Name):
        chk.violation("greedy-available", fi.site(g), "the availability table is not rebuilt once per position before one scan of the earlier positions", K(fi, "greedy-available"))
        return
    sz_ok = False
    v = av[0].value
    if isinstance(v, ast.ListComp) and isinstance(v.elt, ast.Constant) and v.elt.value is True:
        it = v.generators[0].iter
        sz_ok = any(astq.match(it, p) is not None for p in (f"range(len({comp}))", f"range(len({perm}))", f"range(len({comp}) + C_)", "range(len(regions))"))
    else:
        sz_ok = any(astq.match(v, p) is not None for p in (f"[True] * len({comp})", f"[True] * len({perm})"))
    chk.expect(
        sz_ok and g.body.index(av[0]) < g.body.index(inner[0]),
        "greedy-available",
        fi.site(av[0]),
        "one availability flag per possible level (|component| levels), all True before each scan",
        f"availability table `{norm(v)}` is smaller than the component or not rebuilt before the scan",
        K(fi, "greedy-available"),
        found=norm(v),
    )
    inn = inner[0]
    j = inn.target.id
    chk.expect(
        c01.covers_all_earlier(inn.iter, i),
        "greedy-earlier",
        fi.site(inn),
        "the scan covers all earlier positions 0..i-1 of the permutation",
        f"`{norm(inn.iter)}` does not cover all earlier positions of the permutation",
        K(fi, "greedy-earlier"),
        expected=f"range({i})",
        found=norm(inn.iter),
    )
    exits = [n for s in inn.body for n in ast.walk(s) if isinstance(n, (ast.Break, ast.Continue))]
    chk.expect(not exits, "greedy-earlier-exit", fi.site(inn), "the scan has no early exit", "break/continue in the scan over earlier positions", K(fi, "greedy-exit"))
    marks = [s for s in ast.walk(inn) if isinstance(s, ast.Assign) and astq.match(s, f"available[orders[{perm}[{j}]]] = False") is not None]
    ok = False
    if len(marks) == 1:
        gs = fm.guards_within(marks[0], inn)
        ok = len(gs) == 1 and gs[0].polarity and (
            astq.match(gs[0].test, f"{perm}[{j}] in graph[{perm}[{i}]]") is not None or astq.match(gs[0].test, f"{perm}[{i}] in graph[{perm}[{j}]]") is not None
        )
    chk.expect(
        ok,
        "greedy-mark",
        fi.site(inn),
        "the level of every earlier stem adjacent in the conflict graph is marked unavailable",
        "the scan does not mark exactly the levels of earlier stems that are adjacent (crossing) to the stem being placed",
        K(fi, "greedy-mark"),
        found=[norm(s) for s in inn.body],
    )
    st = [s for s in g.body if astq.match(s, f"orders[{perm}[{i}]] = V_") is not None]
    ok = False
    if len(st) == 1:
        val = astq.match(st[0], f"orders[{perm}[{i}]] = V_")["V_"]
        if isinstance(val, ast.Name):
            d = [x for s, x in astq.assignments(g, val.id) if x is not None]
            val = d[0] if len(d) == 1 else val
        ok = c01.least_available_ok(val, "available") and g.body.index(st[0]) > g.body.index(inn)
    chk.expect(ok, "greedy-choice", fi.site(g), "the stem gets the least level still available", "the stem is not given the least available level after the scan", K(fi, "greedy-choice"))
    # result of a permutation recorded
    rec = [c for c in astq.calls(pl, "add") if astq.match(c, "unique[-1].add(frozenset(orders.items()))") is not None]
    new_set = [s for s in cl.body if norm(s) == "unique.append(set())"]
    chk.expect(
        len(rec) == 1 and fm.stmt_of(rec[0]) in pl.body and len(new_set) == 1 and cl.body.index(new_set[0]) < cl.body.index(pl),
        "greedy-record",
        fi.site(pl),
        "the assignment of every permutation is recorded in the component's own set",
        "the level map of each permutation is not recorded (once, after the greedy loop) in a set owned by the component",
        K(fi, "greedy-record"),
    )


def check_product(chk, fi: FuncInfo) -> None:
    fm = FlowMap(fi.node)
    env, R = c01.regions_term(chk, fi)
    pls = [l for l in fi.node.body if isinstance(l, ast.For) and "unique" in astq.names(l.iter)]
    if len(pls) != 1 or not isinstance(pls[0].target, ast.Name):
        chk.error("product", fi.where, "loop combining the per-component assignments (over `unique`) not found")
        return
    pl = pls[0]
    a = pl.target.id
    if isinstance(pl.iter, ast.Call) and astq.dotted(pl.iter.func) == "itertools.product":
        chk.expect(norm(pl.iter) == "itertools.product(*unique)", "product", fi.site(pl), "component assignments are combined freely: itertools.product(*unique)", f"`{norm(pl.iter)}` is not the cartesian product over all components", K(fi, "product"), found=norm(pl.iter))
    elif isinstance(pl.iter, ast.Call) and astq.dotted(pl.iter.func) in ("zip", "itertools.zip_longest", "itertools.chain"):
        chk.violation("product", fi.site(pl), f"`{norm(pl.iter)}` pairs the assignments of the components position by position instead of combining them freely", K(fi, "product"), found=norm(pl.iter))
    else:
        chk.error("product", fi.site(pl), f"combination of per-component assignments `{norm(pl.iter)}` not recognised")
    skip = [n for s in pl.body for n in ast.walk(s) if isinstance(n, (ast.Break, ast.Continue))]
    chk.expect(not skip, "product-skip", fi.site(pl), "no combination is skipped", "break/continue in the product loop", K(fi, "product-skip"))
    oi = [s for s in pl.body if isinstance(s, ast.Assign) and norm(s.targets[0]) == "orders"]
    ok = len(oi) == 1 and (astq.match(oi[0].value, "{X_: 0 for X_ in range(len(regions))}") is not None or astq.match(oi[0].value, "[0] * len(regions)") is not None or astq.match(oi[0].value, "[0 for X_ in range(len(regions))]") is not None)
    chk.expect(ok, "product-default", fi.site(pl), "regions outside every conflict component default to level 0", "levels of regions are not defaulted to 0 for every region index", K(fi, "default"), found=norm(oi[0].value) if oi else None)
    ul = [l for l in pl.body if isinstance(l, ast.For) and astq.match(l.iter, a) is not None and isinstance(l.target, ast.Name)]
    ok = len(ul) == 1 and len(ul[0].body) == 1 and astq.match(ul[0].body[0], f"orders.update({ul[0].target.id})") is not None
    chk.expect(ok, "product-merge", fi.site(pl), "the chosen map of every component is merged into the level map", "per-component assignments are not all merged (orders.update for every member of the combination)", K(fi, "merge"))
    # de-dup container receives the fill of (regions, orders)
    made = [c for c in ast.walk(pl) if isinstance(c, ast.Call) and astq.match(c, "self.__make_dot_bracket(regions, orders)") is not None]
    chk.expect(len(made) == 1, "product-fill", fi.site(pl), "each combination is rendered by the verified fill", "combinations are not rendered by self.__make_dot_bracket(regions, orders)", K(fi, "fill"))
    rets = [r for r in fi.node.body if isinstance(r, ast.Return)]
    sol = astq.first_assign(fi.node, "solutions")
    dedup = sol is not None and norm(sol) in ("{}", "set()", "dict()")
    chk.expect(
        len(rets) == 1 and astq.match(rets[0].value, "list(solutions)") is not None and dedup,
        "product-dedup",
        fi.where,
        "notations are de-duplicated (set/dict keyed by DotBracket) and returned as a list",
        "the result is not the de-duplicated collection of rendered notations",
        K(fi, "dedup"),
    )
    # early exit: pseudoknot-free -> [FCFS]
    ee = [s for s in fi.node.body if isinstance(s, ast.If) and (astq.match(s.test, "not vertices") is not None or astq.match(s.test, "not graph") is not None)]
    from checks import c13

    ok = len(ee) == 1 and isinstance(ee[0].body[-1], ast.Return) and isinstance(ee[0].body[-1].value, ast.List) and len(ee[0].body[-1].value.elts) == 1 and c13.is_fcfs_value(chk, fi, ee[0].body[-1].value.elts[0])
    chk.expect(ok, "early-exit", fi.where, "a pseudoknot-free structure yields the single FCFS (round-bracket) notation", "early exit for an empty conflict graph does not return [FCFS notation]", K(fi, "early-exit"))


def check_enumeration(chk) -> None:
    fi = chk.repo.func(MOD, "BpSeq.all_dot_brackets")
    chk.note_function(fi)
    c01.check_conflict_graph(chk, fi)
    check_components(chk, fi)
    check_permutation_greedy(chk, fi)
    check_product(chk, fi)


def run(chk) -> None:
    chk.explanation = (
        "Shape and role analysis of BpSeq.all_dot_brackets: conflict graph = arc crossing over all region pairs; connected components by a "
        "walk that removes a vertex from the worklist only when all its neighbours are visited; all permutations of every component; "
        "first-fit per permutation over all earlier positions with one flag per possible level; cartesian product over all components; "
        "level 0 elsewhere; de-duplication; verified fill. The set of first-fit outcomes over all orders equals the set of greedy-stable "
        "(Grundy) assignments (paper lemma)."
    )
    chk.trusted = ["CPython ast", "lemma: first-fit outcomes over all vertex orders = Grundy colourings", "itertools.permutations/product semantics"]
    chk.assumptions = ["groups of mutually crossing stems have at most 8 stems (cost only)"]
    check_enumeration(chk)
    c01.check_regions(chk)
    c01.check_stems(chk)
    c01.check_fill(chk)
    for rule in ("components-walk", "greedy-perms", "greedy-earlier", "greedy-mark", "greedy-choice", "product", "conflict-predicate"):
        chk.floor(rule, 1)


MANIFEST_ENTRY = {
    "text": "Static shape/role analysis of the current source of BpSeq.all_dot_brackets: conflict graph (exhaustive truth table of the crossing test), complete "
    "component walk (a vertex leaves the worklist only when all its neighbours are visited), every permutation, first-fit over all earlier positions with enough "
    "levels, full cartesian product, default level 0, de-duplication, verified fill, early exit = [FCFS]. Each is a necessary condition for the list to be exactly "
    "the greedy-stable assignments; membership of the optimal and FCFS notations follows from C02/C01 by the Grundy lemma.",
    "note": "Trusted: the first-fit/Grundy lemma, itertools semantics. Not decided: cost for groups larger than 8; order of the list is C14's business.",
    "technique": "static analysis: idiom-family shape rules with def-use roles over the ast, order-type truth table of the conflict test",
}
