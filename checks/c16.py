"""C16 - the all-dot-brackets list is exactly the set of greedy-stable assignments.

Decided on BpSeq.all_dot_brackets: conflict graph (shared with C01/C02), connected components by a
complete graph walk, every permutation of every component, first-fit per permutation (shared shape with
FCFS), cartesian product over all components, default level 0 elsewhere, de-duplication, verified fill,
early exit = [FCFS].
"""
from __future__ import annotations

import ast
import copy
import re
from typing import Any, List, Optional

from checks import c01
from sa import astq
from sa.consteval import Folder
from sa.defuse import Inliner
from sa.flow import FlowMap, always_exits, facts
from sa.model import AnalysisError, FuncInfo, norm
from sa.sym import Aff, SymEnv, atom_of

MOD = "common"
K = c01.K


def check_components(chk, fi: FuncInfo) -> None:
    fm = FlowMap(fi.node)
    # vertices: all graph keys
    v = astq.single_def(fi.node, "vertices")
    chk.expect(
        v is not None and (astq.match(v, "list(graph.keys())") is not None or astq.match(v, "list(graph)") is not None or astq.match(v, "sorted(graph)") is not None or astq.match(v, "sorted(graph.keys())") is not None),
        "components-vertices",
        fi.where,
        "the walk starts from the complete vertex list of the conflict graph",
        "vertices is not the complete key list of the conflict graph",
        K(fi, "vertices"),
        found=norm(v) if v is not None else None,
    )
    vis = astq.single_def(fi.node, "visited")
    ok_vis = vis is not None and (astq.match(vis, "{X_: False for X_ in vertices}") is not None or astq.match(vis, "set()") is not None)
    chk.expect(ok_vis, "components-visited", fi.where, "no vertex is visited initially", "visited is not initialised to 'nothing visited'", K(fi, "visited-init"), found=norm(vis) if vis is not None else None)
    outer = [l for l in fi.node.body if isinstance(l, ast.For) and astq.match(l.iter, "vertices") is not None]
    if len(outer) != 1 or not isinstance(outer[0].target, ast.Name):
        chk.error("components-walk", fi.where, "outer loop `for v in vertices` not found")
        return
    outer = outer[0]
    v0 = outer.target.id
    whiles = [w for w in ast.walk(outer) if isinstance(w, ast.While)]
    if len(whiles) != 1:
        chk.error("components-walk", fi.site(outer), "expected one worklist loop")
        return
    w = whiles[0]
    # the worklist
    m = astq.match(w.test, "W_") if isinstance(w.test, ast.Name) else astq.match(w.test, "len(W_) > 0")
    if not m:
        chk.error("components-walk", fi.site(w), f"worklist loop test `{norm(w.test)}` not understood")
        return
    wl = norm(m["W_"])
    wst_guards = facts(fm.of(w).guards)
    started_unvisited = any((astq.match(g.test, f"visited[{v0}]") is not None and g.polarity is False) or (astq.match(g.test, f"{v0} in visited") is not None and g.polarity is False) for g in wst_guards)
    chk.expect(
        started_unvisited,
        "components-start",
        fi.site(w),
        "a walk is started from every vertex not yet visited",
        "walks are not started exactly from the vertices that are still unvisited",
        K(fi, "start"),
    )
    # start bookkeeping: mark start visited, worklist = [start], new component [start]
    pre = [s for s in ast.walk(outer) if isinstance(s, ast.stmt) and s is not w and not any(s is n for n in ast.walk(w))]
    pre_txt = [norm(s) for s in pre]
    chk.expect(
        any(t in (f"visited[{v0}] = True", f"visited.add({v0})") for t in pre_txt)
        and f"{wl} = [{v0}]" in pre_txt
        and (f"components.append([{v0}])" in pre_txt or any((mm := re.fullmatch(r"components\.append\((\w+)\)", t)) and f"{mm.group(1)} = [{v0}]" in pre_txt and mm.group(1) != wl for t in pre_txt)),
        "components-start",
        fi.site(outer),
        "the start vertex is marked, pushed and opens a new component",
        "the start vertex is not marked visited / pushed / recorded as a new component",
        K(fi, "start-bookkeeping"),
        found=pre_txt,
    )
    # ---- the walk itself: facts about when the worklist shrinks and when a neighbour is taken ------------------
    comp_alias = {"components[-1]"}
    for t in pre_txt:
        mm = re.fullmatch(r"components\.append\((\w+)\)", t)
        if mm and f"{mm.group(1)} = [{v0}]" in pre_txt:
            comp_alias.add(mm.group(1))
    pops = [c for c in astq.calls(w, "pop") if astq.dotted(c.func.value) == wl]
    if len(pops) != 1:
        chk.error("components-walk", fi.site(w), f"expected one pop of the worklist in the worklist loop, found {len(pops)}")
        return
    pop = pops[0]
    pop_st = fm.stmt_of(pop)
    pop_facts = facts(fm.guards_within(pop_st, w))
    top_names = {f"{wl}[-1]"}
    for s2 in ast.walk(w):
        if isinstance(s2, ast.Assign) and isinstance(s2.targets[0], ast.Name) and norm(s2.value) == f"{wl}[-1]" and len(astq.assignments(w, s2.targets[0].id)) == 1:
            top_names.add(s2.targets[0].id)
    popped_names = set()
    if isinstance(pop_st, ast.Assign) and isinstance(pop_st.targets[0], ast.Name) and pop_st.value is pop and len(astq.assignments(w, pop_st.targets[0].id)) == 1:
        popped_names.add(pop_st.targets[0].id)

    def unvisited(test: ast.AST, x: str) -> Optional[bool]:
        """True if `test` says x is unvisited, False if it says visited."""
        t = norm(test)
        if t in (f"not visited[{x}]", f"{x} not in visited", f"visited[{x}] is False", f"visited[{x}] == False"):
            return True
        if t in (f"visited[{x}]", f"{x} in visited"):
            return False
        return None

    def steps(x: str, scope: ast.AST):
        """statements that mark / push / record x inside scope"""
        mark = [s2 for s2 in ast.walk(scope) if isinstance(s2, ast.stmt) and norm(s2) in (f"visited[{x}] = True", f"visited.add({x})")]
        push = [s2 for s2 in ast.walk(scope) if isinstance(s2, ast.stmt) and norm(s2) == f"{wl}.append({x})"]
        rec = [s2 for s2 in ast.walk(scope) if isinstance(s2, ast.stmt) and norm(s2) in {f"{a}.append({x})" for a in comp_alias}]
        return mark, push, rec

    nb_loops = [l for l in ast.walk(w) if isinstance(l, ast.For)]
    if popped_names and not pop_facts and w.body and w.body[0] is pop_st:
        # idiom B: current = worklist.pop() first; then every unvisited neighbour must be marked, pushed, recorded
        cur = next(iter(popped_names))
        if not nb_loops:
            # the neighbours of the popped vertex are consulted through next(<generator over graph[popped]>, default): one at most
            for c in ast.walk(w):
                if isinstance(c, ast.Call) and astq.callee_name(c) == "next" and c.args:
                    gen = c.args[0]
                    if isinstance(gen, ast.Name):
                        d = [x for _, x in astq.assignments(w, gen.id) if x is not None]
                        gen = d[0] if len(d) == 1 else gen
                    if isinstance(gen, (ast.GeneratorExp, ast.ListComp)) and len(gen.generators) == 1 and norm(gen.generators[0].iter) == f"graph[{cur}]":
                        chk.violation("components-walk", fi.site(c), f"pop-first walk: `{norm(c)[:80]}` hands out at most ONE unvisited neighbour of the vertex that was just popped; the vertex is gone from the worklist, so its other unvisited neighbours are reached only by luck and a branching group of crossing stems is split into several components", K(fi, "walk"))
                        return
        if len(nb_loops) != 1 or norm(nb_loops[0].iter) != f"graph[{cur}]" or not isinstance(nb_loops[0].target, ast.Name):
            chk.error("components-walk", fi.site(w), "pop-first walk: loop over the neighbours of the popped vertex not found")
            return
        nb = nb_loops[0]
        nbr = nb.target.id
        early = [n for n in ast.walk(nb) if isinstance(n, (ast.Break, ast.Return))]
        if early:
            chk.violation("components-walk", fi.site(early[0]), "pop-first walk leaves the neighbour loop early: the popped vertex is gone from the worklist, so its remaining unvisited neighbours are reached only by luck and a branching component is split", K(fi, "walk"))
            return
        mark, push, rec = steps(nbr, nb)
        if len(mark) == 1 and len(push) == 1 and len(rec) == 1:
            ok = True
            for s2 in (mark[0], push[0], rec[0]):
                fs = facts(fm.guards_within(s2, nb))
                ok = ok and len(fs) == 1 and unvisited(fs[0].test, nbr) is (True if fs[0].polarity else False) and unvisited(fs[0].test, nbr) is not None
            if ok:
                chk.ok("components-walk", fi.site(w), "pop-first walk: every unvisited neighbour of the popped vertex is marked, pushed and recorded (no early exit)")
            else:
                chk.error("components-walk", fi.site(nb), "pop-first walk: mark/push/record are not all under exactly the 'neighbour unvisited' test")
        else:
            missing = [n for n, l in (("mark visited", mark), ("push", push), ("record in component", rec)) if not l]
            if missing and not any(len(l) > 1 for l in (mark, push, rec)):
                chk.violation("components-walk", fi.site(nb), f"pop-first walk: an unvisited neighbour is not {' / '.join(missing)}: vertices are lost or visited twice", K(fi, "walk"), found=[norm(s2) for s2 in ast.walk(nb) if isinstance(s2, ast.stmt)][:12])
            else:
                chk.error("components-walk", fi.site(nb), "pop-first walk: mark/push/record steps not recognised")
        return
    # idiom A: peek walk.  chosen := some unvisited neighbour of the top vertex or None
    chosen = None
    sel_site = None
    for s2 in ast.walk(w):
        if not (isinstance(s2, ast.Assign) and isinstance(s2.targets[0], ast.Name)):
            continue
        nm = s2.targets[0].id
        val = s2.value
        # form 2: next((v for v in graph[top] if not visited[v]), None), possibly through a named generator
        if isinstance(val, ast.Call) and astq.callee_name(val) == "next" and len(val.args) == 2 and norm(val.args[1]) == "None":
            gen = val.args[0]
            if isinstance(gen, ast.Name):
                d = [x for _, x in astq.assignments(w, gen.id) if x is not None]
                gen = d[0] if len(d) == 1 else gen
            if isinstance(gen, (ast.GeneratorExp, ast.ListComp)) and len(gen.generators) == 1 and isinstance(gen.generators[0].target, ast.Name):
                g0 = gen.generators[0]
                x = g0.target.id
                src = norm(g0.iter)
                if norm(gen.elt) == x and any(src == f"graph[{t}]" for t in top_names) and len(g0.ifs) == 1 and unvisited(g0.ifs[0], x) is True:
                    chosen, sel_site = nm, s2
    if chosen is None and len(nb_loops) == 1 and isinstance(nb_loops[0].target, ast.Name) and any(norm(nb_loops[0].iter) == f"graph[{t}]" for t in top_names):
        nb = nb_loops[0]
        nbr = nb.target.id
        nv_assign = [s2 for s2 in ast.walk(nb) if isinstance(s2, ast.Assign) and isinstance(s2.targets[0], ast.Name) and norm(s2.value) == nbr]
        if len(nv_assign) == 1:
            nm = nv_assign[0].targets[0].id
            g = facts(fm.guards_within(nv_assign[0], nb))
            sel_ok = len(g) == 1 and unvisited(g[0].test, nbr) is not None and unvisited(g[0].test, nbr) is g[0].polarity
            reset = [s2 for s2 in w.body if norm(s2) == f"{nm} = None"]
            reset_ok = len(reset) == 1 and w.body.index(reset[0]) < w.body.index(nb) if nb in w.body else False
            if sel_ok and reset_ok and len(astq.assignments(w, nm)) == 2:
                chosen, sel_site = nm, nv_assign[0]
            elif not reset and sel_ok:
                chk.violation("components-walk", fi.site(nb), f"peek walk: `{nm}` is not reset to None before the neighbours of the top vertex are examined: a stale neighbour from the previous round is pushed again", K(fi, "walk"))
                return
    if chosen is None:
        chk.error("components-walk", fi.site(w), "graph walk idiom not recognised (neither pop-first nor peek with a chosen unvisited neighbour)")
        return

    def none_fact(g) -> Optional[bool]:
        """True: fact says chosen is None; False: says it is not None."""
        t = norm(g.test)
        if t in (f"{chosen} is None", f"{chosen} == None"):
            return g.polarity
        if t in (f"{chosen} is not None", f"{chosen} != None"):
            return not g.polarity
        return None

    # only statements after the selection count
    pf = [none_fact(g) for g in pop_facts]
    mark, push, rec = steps(chosen, w)
    problems = []
    if pf == [False]:
        chk.violation("components-walk", fi.site(pop_st), "peek walk pops the top vertex exactly when an unvisited neighbour was found", K(fi, "walk"))
        return
    if not pop_facts:
        chk.violation("components-walk", fi.site(pop_st), "peek walk pops the top vertex in every round, also when it still has unvisited neighbours: a branching component is split", K(fi, "walk"))
        return
    if pf != [True] or len(pop.args) != 0:
        chk.error("components-walk", fi.site(pop_st), f"peek walk: condition of the pop `{[norm(g.test) for g in pop_facts]}` not recognised")
        return
    for what, lst in (("marked visited", mark), ("pushed", push), ("recorded in the component", rec)):
        if not lst:
            problems.append(what)
    if problems:
        chk.violation("components-walk", fi.site(w), f"peek walk: the chosen neighbour is not {' / '.join(problems)}: a vertex is lost from its component or the walk does not terminate", K(fi, "walk"))
        return
    if any(len(l) != 1 for l in (mark, push, rec)):
        chk.error("components-walk", fi.site(w), "peek walk: several mark/push/record statements")
        return
    for s2 in (mark[0], push[0], rec[0]):
        fs = [none_fact(g) for g in facts(fm.guards_within(s2, w))]
        if fs != [False]:
            chk.error("components-walk", fi.site(s2), f"peek walk: `{norm(s2)}` is not under exactly 'a neighbour was chosen'")
            return
    chk.ok("components-walk", fi.site(w), "peek walk: an unvisited neighbour of the top vertex is marked, pushed and recorded; the top is popped only when it has none left")


def _replicated_mutable(v: ast.AST) -> bool:
    """[set()] * n, [[]] * n, [{}] * n ... : one mutable object referenced n times."""
    m = astq.match(v, "[E_] * N_") or astq.match(v, "N_ * [E_]")
    if not m:
        return False
    e = m["E_"]
    return isinstance(e, (ast.List, ast.Dict, ast.Set, ast.ListComp, ast.SetComp, ast.DictComp)) or (isinstance(e, ast.Call) and astq.callee_name(e) in ("set", "list", "dict", "defaultdict"))


def check_permutation_greedy(chk, fi: FuncInfo) -> None:
    fm = FlowMap(fi.node)
    inl = Inliner(fi.node)
    comp_loops = []
    for l in fi.node.body:
        if not isinstance(l, ast.For):
            continue
        if astq.match(l.iter, "components") is not None and isinstance(l.target, ast.Name):
            comp_loops.append((l, l.target.id, None))
        elif astq.match(l.iter, "enumerate(components)") is not None and isinstance(l.target, ast.Tuple) and len(l.target.elts) == 2 and all(isinstance(e, ast.Name) for e in l.target.elts):
            comp_loops.append((l, l.target.elts[1].id, l.target.elts[0].id))
    if len(comp_loops) != 1:
        chk.error("greedy-perms", fi.where, "loop over components not found")
        return
    cl, comp, cidx = comp_loops[0]
    pls = [l for l in cl.body if isinstance(l, ast.For)]
    if len(pls) != 1 or not isinstance(pls[0].target, ast.Name):
        chk.error("greedy-perms", fi.site(cl), "loop over permutations not found")
        return
    pl = pls[0]
    perm = pl.target.id
    # every value the iterated expression can have
    sources = [pl.iter]
    if isinstance(pl.iter, ast.Name):
        sources = [v for _, v in astq.assignments(cl, pl.iter.id) if v is not None]
        if not sources:
            chk.error("greedy-perms", fi.site(pl), f"`{pl.iter.id}` is not bound inside the component loop")
            return
    # a conditional expression offers either of its arms
    flat = []
    todo = list(sources)
    while todo:
        x = todo.pop(0)
        if isinstance(x, ast.IfExp):
            todo[:0] = [x.body, x.orelse]
        else:
            flat.append(x)
    sources = flat
    all_ok = True
    for src in sources:
        if isinstance(src, ast.Call) and astq.dotted(src.func) in ("itertools.permutations", "permutations"):
            full = len(src.args) == 1 and not src.keywords and norm(src.args[0]) in (comp, f"list({comp})", f"tuple({comp})")
            chk.expect(
                full,
                "greedy-perms",
                fi.site(src),
                "every ordering of the component's stems is tried: itertools.permutations(component)",
                f"`{norm(src)}` does not enumerate all orderings of the whole component",
                K(fi, "permutations"),
                expected=f"itertools.permutations({comp})",
                found=norm(src),
            )
        elif isinstance(src, (ast.List, ast.Tuple)) or (isinstance(src, ast.Call) and astq.dotted(src.func) in ("itertools.islice", "itertools.combinations", "sorted", "reversed", "iter")):
            chk.violation("greedy-perms", fi.site(src), f"only the orderings `{norm(src)}` are tried for some components, not all permutations: greedy-stable assignments reachable only through other orders are missing", K(fi, "permutations"), found=norm(src))
        else:
            all_ok = False
            chk.error("greedy-perms", fi.site(src), f"enumeration of orderings `{norm(src)}` not recognised")
    skip = [n for s in cl.body for n in ast.walk(s) if isinstance(n, (ast.Break, ast.Continue))]
    chk.expect(not skip, "greedy-perms-skip", fi.site(cl), "no component or permutation is skipped", "break/continue in the component/permutation loops skips cases", K(fi, "perm-skip"))
    # orders init per permutation
    oi = [s for s in pl.body if isinstance(s, ast.Assign) and norm(s.targets[0]) == "orders"]
    if len(oi) != 1:
        chk.error("greedy-init", fi.site(pl), "per-permutation level map `orders` is not initialised exactly once in the permutation loop")
    else:
        v = oi[0].value
        ok = any(astq.match(v, p) is not None for p in (f"{{X_: 0 for X_ in {comp}}}", f"dict.fromkeys({comp}, 0)", f"{{X_: 0 for X_ in {perm}}}", f"dict.fromkeys({perm}, 0)"))
        chk.expect(ok, "greedy-init", fi.site(oi[0]), "every permutation starts with all stems of the component on level 0", "per-permutation level map is not initialised to 0 for every stem of the component", K(fi, "greedy-init"), found=norm(v))
    gl = [l for l in pl.body if isinstance(l, ast.For)]
    if len(gl) != 1 or not isinstance(gl[0].target, ast.Name):
        chk.error("greedy-loop", fi.site(pl), "greedy loop over positions not found")
        return
    g = gl[0]
    i = g.target.id
    ranges = {f"range(1, len({perm}))": 1, f"range(len({perm}))": 0, f"range(1, len({comp}))": 1, f"range(len({comp}))": 0}
    if norm(g.iter) in ranges:
        chk.ok("greedy-outer", fi.site(g), "every position after the first is assigned in permutation order")
    else:
        m = astq.match(g.iter, f"range(A_, len({perm}))") or astq.match(g.iter, f"range(A_, len({comp}))")
        lo = Folder(chk.repo, MOD).try_fold(m["A_"]) if m else None
        if isinstance(lo, int) and lo > 1:
            chk.violation("greedy-outer", fi.site(g), f"`{norm(g.iter)}` starts at position {lo}: positions 1..{lo - 1} keep level 0 even next to a crossing earlier stem", K(fi, "greedy-outer"), found=norm(g.iter))
        else:
            mm = astq.match(g.iter, f"range(A_, len({perm}) - B_)") or astq.match(g.iter, f"range(len({perm}) - B_)")
            if mm and isinstance(Folder(chk.repo, MOD).try_fold(mm["B_"]), int) and Folder(chk.repo, MOD).try_fold(mm["B_"]) > 0:
                chk.violation("greedy-outer", fi.site(g), f"`{norm(g.iter)}` stops before the last position of the permutation", K(fi, "greedy-outer"), found=norm(g.iter))
            else:
                chk.error("greedy-outer", fi.site(g), f"positions `{norm(g.iter)}` not recognised")
    cur_names = {f"{perm}[{i}]"}
    for s in g.body:
        if isinstance(s, ast.Assign) and isinstance(s.targets[0], ast.Name) and norm(s.value) == f"{perm}[{i}]" and len(astq.assignments(g, s.targets[0].id)) == 1:
            cur_names.add(s.targets[0].id)

    def adjacent_to_current(test: ast.AST, other: set) -> bool:
        t = norm(test)
        return any(t in (f"{o} in graph[{c}]", f"{c} in graph[{o}]") for o in other for c in cur_names)

    stores = [s for s in g.body if isinstance(s, ast.Assign) and any(norm(s.targets[0]) == f"orders[{c}]" for c in cur_names)]
    if len(stores) != 1:
        chk.error("greedy-choice", fi.site(g), "the level of the current stem is not stored exactly once per position")
        return
    store = stores[0]
    choice = inl.inline(store.value, store, stop=("available", "taken", "orders", perm, comp, i, "graph"))
    # ---- family 1: availability table + scan --------------------------------------------------------------------
    av = [s for s in g.body if isinstance(s, ast.Assign) and norm(s.targets[0]) == "available"]
    inner = [l for l in g.body if isinstance(l, ast.For)]
    if len(av) == 1 and len(inner) == 1 and isinstance(inner[0].target, ast.Name):
        v = av[0].value
        size = None
        if isinstance(v, ast.ListComp) and isinstance(v.elt, ast.Constant) and v.elt.value is True and len(v.generators) == 1 and not v.generators[0].ifs:
            mm = astq.match(v.generators[0].iter, "range(N_)")
            size = mm["N_"] if mm else None
        else:
            mm = astq.match(v, "[True] * N_") or astq.match(v, "N_ * [True]")
            size = mm["N_"] if mm else None
        if size is None:
            chk.error("greedy-available", fi.site(av[0]), f"availability table `{norm(v)}` not recognised")
        else:
            try:
                worst = None
                for n in range(1, 9):
                    class _S(ast.NodeTransformer):
                        def visit_Call(s2, c):
                            if norm(c) in (f"len({comp})", f"len({perm})"):
                                return ast.Constant(value=n)
                            if norm(c) == "len(regions)":
                                return ast.Constant(value=n + 3)
                            return s2.generic_visit(c)
                    val = Folder(chk.repo, MOD, {i: n - 1}).fold(ast.fix_missing_locations(_S().visit(copy.deepcopy(size))))
                    if not isinstance(val, int) or isinstance(val, bool):
                        raise ValueError(f"size evaluates to {val!r}")
                    # position i can need level i at most (i earlier stems), i <= n-1; the lookup needs a free flag
                    if val < n and worst is None:
                        worst = (n, val)
                chk.expect(
                    worst is None and g.body.index(av[0]) < g.body.index(inner[0]),
                    "greedy-available",
                    fi.site(av[0]),
                    "one availability flag per possible level (>= |component| levels for components of 1..8 stems), all True before each scan",
                    f"availability table `{norm(v)}` has fewer flags than the component has stems" + (f" ({worst[1]} for {worst[0]} stems)" if worst else "") + " or is not rebuilt before the scan",
                    K(fi, "greedy-available"),
                    found=norm(v),
                )
            except Exception as ex:
                chk.error("greedy-available", fi.site(av[0]), f"size of the availability table `{norm(size)}` not evaluable: {ex}")
        inn = inner[0]
        j = inn.target.id
        chk.expect(
            c01.covers_all_earlier(inn.iter, i),
            "greedy-earlier",
            fi.site(inn),
            "the scan covers all earlier positions 0..i-1 of the permutation",
            f"`{norm(inn.iter)}` does not cover all earlier positions of the permutation",
            K(fi, "greedy-earlier"),
            expected=f"range({i})",
            found=norm(inn.iter),
        )
        exits = [n for s in inn.body for n in ast.walk(s) if isinstance(n, (ast.Break, ast.Continue))]
        chk.expect(not exits, "greedy-earlier-exit", fi.site(inn), "the scan has no early exit", "break/continue in the scan over earlier positions", K(fi, "greedy-exit"))
        marks = [s for s in ast.walk(inn) if isinstance(s, ast.Assign) and astq.match(s, f"available[orders[{perm}[{j}]]] = False") is not None]
        if len(marks) == 1:
            gs = facts(fm.guards_within(marks[0], inn))
            if len(gs) == 1 and gs[0].polarity and adjacent_to_current(gs[0].test, {f"{perm}[{j}]"}):
                chk.ok("greedy-mark", fi.site(inn), "the level of every earlier stem adjacent in the conflict graph is marked unavailable")
            elif len(gs) == 1 and not gs[0].polarity and adjacent_to_current(gs[0].test, {f"{perm}[{j}]"}):
                chk.violation("greedy-mark", fi.site(marks[0]), "the levels of the NON-adjacent earlier stems are marked unavailable", K(fi, "greedy-mark"))
            elif not gs:
                chk.violation("greedy-mark", fi.site(marks[0]), "the level of every earlier stem is marked unavailable, adjacent or not: non-crossing stems are pushed to needlessly high levels", K(fi, "greedy-mark"))
            else:
                chk.error("greedy-mark", fi.site(marks[0]), f"condition `{[norm(x.test) for x in gs]}` of the unavailability mark not recognised")
        else:
            chk.violation("greedy-mark-form", fi.site(inn), "the scan does not mark exactly the levels of earlier stems that are adjacent (crossing) to the stem being placed", K(fi, "greedy-mark-form"), found=[norm(s) for s in inn.body])
        if g.body.index(store) < g.body.index(inn):
            chk.violation("greedy-choice", fi.site(store), "the level is chosen before the scan over the earlier positions", K(fi, "greedy-choice-order"))
        else:
            c01.judge_choice(chk, fi, "greedy-choice", store, choice, "available", 6, "greedy-choice", {comp: list(range(6)), perm: tuple(range(6))})
    else:
        # ---- family 2: set of taken levels + mex -----------------------------------------------------------------
        tk = [s for s in g.body if isinstance(s, ast.Assign) and isinstance(s.targets[0], ast.Name) and isinstance(s.value, (ast.SetComp, ast.ListComp)) and "orders" in astq.names(s.value)]
        if len(tk) == 1 and len(tk[0].value.generators) == 1 and isinstance(tk[0].value.generators[0].target, ast.Name) and not inner:
            tname = tk[0].targets[0].id
            gen = tk[0].value.generators[0]
            e = gen.target.id
            src_ok = norm(gen.iter) in (f"{perm}[:{i}]", f"{perm}[0:{i}]")
            if norm(gen.iter).startswith(f"{perm}[") and not src_ok:
                chk.violation("greedy-earlier", fi.site(tk[0]), f"`{norm(gen.iter)}` does not cover all earlier positions of the permutation", K(fi, "greedy-earlier"), found=norm(gen.iter))
            elif not src_ok:
                chk.error("greedy-earlier", fi.site(tk[0]), f"source `{norm(gen.iter)}` of the taken levels not recognised")
            else:
                chk.ok("greedy-earlier", fi.site(tk[0]), "taken levels are collected over all earlier positions perm[:i]")
            if norm(tk[0].value.elt) == f"orders[{e}]" and len(gen.ifs) == 1 and adjacent_to_current(gen.ifs[0], {e}):
                chk.ok("greedy-mark", fi.site(tk[0]), "taken = levels of the earlier stems adjacent to the current one")
            elif norm(tk[0].value.elt) == f"orders[{e}]" and not gen.ifs:
                chk.violation("greedy-mark", fi.site(tk[0]), "the level of every earlier stem counts as taken, adjacent or not", K(fi, "greedy-mark"))
            else:
                chk.error("greedy-mark", fi.site(tk[0]), f"taken-level collection `{norm(tk[0].value)}` not recognised")
            mex = None
            for pat in (f"next((X_ for X_ in range(N_) if X_ not in {tname}))", f"min((X_ for X_ in range(N_) if X_ not in {tname}))", f"next((X_ for X_ in itertools.count() if X_ not in {tname}))", f"min([X_ for X_ in range(N_) if X_ not in {tname}])"):
                mex = mex or astq.match(choice, pat)
            if mex and g.body.index(store) > g.body.index(tk[0]):
                n_e = mex.get("N_") if hasattr(mex, "get") else None
                if n_e is None or norm(n_e) in (f"len({comp})", f"len({perm})", f"len({comp}) + 1", f"len({perm}) + 1", "len(regions)", f"{i} + 1"):
                    chk.ok("greedy-choice", fi.site(store), "the stem gets the least level not taken (mex over enough candidate levels)")
                else:
                    chk.error("greedy-choice", fi.site(store), f"candidate level range `range({norm(n_e)})` not recognised")
            else:
                chk.error("greedy-choice", fi.site(store), f"choice `{norm(choice)[:100]}` of the level not recognised")
        else:
            # anti-idiom: one pass with a counter bumped on equality (levels seen earlier in the pass are never re-examined)
            bumps = [a for l in inner for a in ast.walk(l) if isinstance(a, ast.AugAssign) and isinstance(a.op, ast.Add) and isinstance(a.target, ast.Name) and norm(choice) == a.target.id]
            eq_guarded = [a for a in bumps if any(isinstance(x.test, ast.Compare) and isinstance(x.test.ops[0], ast.Eq) and a.target.id in astq.names(x.test) and "orders" in astq.names(x.test) for x in facts(fm.guards_within(a, g)))]
            if eq_guarded and not any(isinstance(n, ast.While) for n in ast.walk(g)):
                chk.violation("greedy-choice", fi.site(eq_guarded[0]), "the level is a counter bumped in ONE pass over the earlier stems when an adjacent stem sits exactly on it: an adjacent stem scanned earlier on a higher level is never re-examined, so the stem can land on an occupied level", K(fi, "greedy-choice"), found=[norm(s) for s in g.body][:8])
            else:
                chk.error("greedy-available", fi.site(g), "first-fit idiom not recognised (neither availability table + scan nor taken-set + mex)")
    # result of a permutation recorded in the component's own set
    ui = [(s, v) for s, v in astq.assignments(fi.node, "unique") if v is not None]
    slot = "unique[-1]" if cidx is None else f"unique[{cidx}]"
    rec = [c for c in astq.calls(pl, "add") if norm(c) in (f"{slot}.add(frozenset(orders.items()))",)]
    new_set = [s for s in cl.body if norm(s) == "unique.append(set())"]
    shared = [v for _, v in ui if _replicated_mutable(v)]
    if shared:
        chk.violation("greedy-record", fi.site(shared[0]), f"`{norm(shared[0])}` is one set referenced once per component: every component records into the same set, so assignments of different components are mixed", K(fi, "greedy-record-shared"), found=norm(shared[0]))
    elif cidx is None:
        chk.expect(
            len(rec) == 1 and fm.stmt_of(rec[0]) in pl.body and len(new_set) == 1 and cl.body.index(new_set[0]) < cl.body.index(pl),
            "greedy-record",
            fi.site(pl),
            "the assignment of every permutation is recorded in the component's own set",
            "the level map of each permutation is not recorded (once, after the greedy loop) in a set owned by the component",
            K(fi, "greedy-record"),
        )
    else:
        own = len(ui) == 1 and any(astq.match(ui[0][1], p) is not None for p in ("[set() for X_ in components]", "[set() for X_ in range(len(components))]"))
        if own and len(rec) == 1 and fm.stmt_of(rec[0]) in pl.body:
            chk.ok("greedy-record", fi.site(pl), "the assignment of every permutation is recorded in the component's own set")
        else:
            chk.error("greedy-record", fi.site(pl), "recording of per-permutation assignments not recognised")


def check_product(chk, fi: FuncInfo) -> None:
    fm = FlowMap(fi.node)
    env, R = c01.regions_term(chk, fi)
    pls = [l for l in fi.node.body if isinstance(l, ast.For) and "unique" in astq.names(l.iter)]
    if len(pls) != 1 or not isinstance(pls[0].target, ast.Name):
        chk.error("product", fi.where, "loop combining the per-component assignments (over `unique`) not found")
        return
    pl = pls[0]
    a = pl.target.id
    if isinstance(pl.iter, ast.Call) and astq.dotted(pl.iter.func) == "itertools.product":
        chk.expect(norm(pl.iter) == "itertools.product(*unique)", "product", fi.site(pl), "component assignments are combined freely: itertools.product(*unique)", f"`{norm(pl.iter)}` is not the cartesian product over all components", K(fi, "product"), found=norm(pl.iter))
    elif isinstance(pl.iter, ast.Call) and astq.dotted(pl.iter.func) in ("zip", "itertools.zip_longest", "itertools.chain"):
        chk.violation("product", fi.site(pl), f"`{norm(pl.iter)}` pairs the assignments of the components position by position instead of combining them freely", K(fi, "product"), found=norm(pl.iter))
    else:
        chk.error("product", fi.site(pl), f"combination of per-component assignments `{norm(pl.iter)}` not recognised")
    skip = [n for s in pl.body for n in ast.walk(s) if isinstance(n, (ast.Break, ast.Continue))]
    chk.expect(not skip, "product-skip", fi.site(pl), "no combination is skipped", "break/continue in the product loop", K(fi, "product-skip"))
    oi = [s for s in pl.body if isinstance(s, ast.Assign) and norm(s.targets[0]) == "orders"]
    if len(oi) != 1:
        chk.error("product-default", fi.site(pl), "the level map `orders` is not initialised exactly once per combination")
    else:
        v = oi[0].value
        if any(astq.match(v, p) is not None for p in ("{X_: 0 for X_ in range(len(regions))}", "[0] * len(regions)", "[0 for X_ in range(len(regions))]", "dict.fromkeys(range(len(regions)), 0)")):
            chk.ok("product-default", fi.site(oi[0]), "regions outside every conflict component default to level 0")
        elif norm(v) in ("{}", "dict()", "[]", "list()"):
            chk.violation("product-default", fi.site(oi[0]), f"the level map starts as `{norm(v)}`: regions outside every conflict component get no level (the fill then fails or leaves them out)", K(fi, "default"), found=norm(v))
        else:
            mm = astq.match(v, "{X_: C_ for X_ in range(len(regions))}") or astq.match(v, "dict.fromkeys(range(len(regions)), C_)")
            if mm and isinstance(mm["C_"], ast.Constant) and mm["C_"].value != 0:
                chk.violation("product-default", fi.site(oi[0]), f"regions outside every conflict component default to level {mm['C_'].value!r}, not 0", K(fi, "default"), found=norm(v))
            else:
                chk.error("product-default", fi.site(oi[0]), f"default level map `{norm(v)}` not recognised")
    ul = [l for l in pl.body if isinstance(l, ast.For) and astq.match(l.iter, a) is not None and isinstance(l.target, ast.Name)]
    ok = len(ul) == 1 and len(ul[0].body) == 1 and astq.match(ul[0].body[0], f"orders.update({ul[0].target.id})") is not None
    chk.expect(ok, "product-merge", fi.site(pl), "the chosen map of every component is merged into the level map", "per-component assignments are not all merged (orders.update for every member of the combination)", K(fi, "merge"))
    # de-dup container receives the fill of (regions, orders)
    made = [c for c in ast.walk(pl) if isinstance(c, ast.Call) and astq.match(c, "self.__make_dot_bracket(regions, orders)") is not None]
    chk.expect(len(made) == 1, "product-fill", fi.site(pl), "each combination is rendered by the verified fill", "combinations are not rendered by self.__make_dot_bracket(regions, orders)", K(fi, "fill"))
    rets = [r for r in fi.node.body if isinstance(r, ast.Return)]
    sol = astq.first_assign(fi.node, "solutions")
    dedup = sol is not None and norm(sol) in ("{}", "set()", "dict()")
    chk.expect(
        len(rets) == 1 and astq.match(rets[0].value, "list(solutions)") is not None and dedup,
        "product-dedup",
        fi.where,
        "notations are de-duplicated (set/dict keyed by DotBracket) and returned as a list",
        "the result is not the de-duplicated collection of rendered notations",
        K(fi, "dedup"),
    )
    # early exit: pseudoknot-free -> [FCFS]
    ee = [s for s in fi.node.body if isinstance(s, ast.If) and (astq.match(s.test, "not vertices") is not None or astq.match(s.test, "not graph") is not None)]
    from checks import c13

    ok = len(ee) == 1 and isinstance(ee[0].body[-1], ast.Return) and isinstance(ee[0].body[-1].value, ast.List) and len(ee[0].body[-1].value.elts) == 1 and c13.is_fcfs_value(chk, fi, ee[0].body[-1].value.elts[0])
    chk.expect(ok, "early-exit", fi.where, "a pseudoknot-free structure yields the single FCFS (round-bracket) notation", "early exit for an empty conflict graph does not return [FCFS notation]", K(fi, "early-exit"))


# rules whose violations rest on positive evidence read off the current code (not on a mismatch with the pinned form)
ROBUST = {
    "components-walk", "greedy-perms", "greedy-perms-skip", "greedy-outer", "greedy-available", "greedy-earlier", "greedy-earlier-exit", "greedy-mark",
    "greedy-choice", "greedy-record", "product", "product-skip", "product-default", "list-handed-out", "mapping-list-fact",
}


def check_enumeration_stages(chk) -> bool:
    """Components, permutations, first-fit, product, de-duplication, early exit: fact level first (the whole list on every
    order type of <= 4 arcs, checks/c01e.py), the pinned-form stage rules as the fallback.  True when decided at fact level."""
    from checks import c01e

    fi = chk.repo.func(MOD, "BpSeq.all_dot_brackets")
    chk.note_function(fi)
    if c01.fact_first(chk, "enumeration", fi.where, c01e.enumeration_fact(chk)):
        return True
    check_components(chk, fi)
    check_permutation_greedy(chk, fi)
    check_product(chk, fi)
    return False


def check_enumeration(chk) -> None:
    fi = chk.repo.func(MOD, "BpSeq.all_dot_brackets")
    chk.note_function(fi)
    c01.check_conflict_graph(chk, fi)
    check_enumeration_stages(chk)


def run(chk) -> None:
    chk.explanation = (
        "Shape and role analysis of BpSeq.all_dot_brackets: conflict graph = arc crossing over all region pairs; connected components by a "
        "walk that removes a vertex from the worklist only when all its neighbours are visited; all permutations of every component; "
        "first-fit per permutation over all earlier positions with one flag per possible level; cartesian product over all components; "
        "level 0 elsewhere; de-duplication; verified fill. The set of first-fit outcomes over all orders equals the set of greedy-stable "
        "(Grundy) assignments (paper lemma)."
    )
    chk.trusted = ["CPython ast", "lemma: first-fit outcomes over all vertex orders = Grundy colourings", "itertools.permutations/product semantics"]
    chk.assumptions = ["groups of mutually crossing stems have at most 8 stems (cost only)"]
    chk.robust |= ROBUST | c01.ROBUST
    check_enumeration(chk)
    c01.check_regions(chk)
    c01.check_stems(chk)
    c01.check_fill(chk)
    # the list is a cached answer: a consumer that edits it in place changes what the object answers from then on
    from checks import c12

    from checks import c01e

    why = c01e.mapping_list_fact(chk)
    if why is not None and why.startswith("the input classes do not reach"):
        chk.error("mapping-list-fact", "-", f"part of Mapping2D3D.all_dot_brackets is reached by no input class, what it does to the list is not decided: {why[:200]}")
    elif why is not None:
        chk.ok("mapping-list-fact", "-", f"Mapping2D3D.all_dot_brackets not evaluable ({why[:120]}); its row layout is C06's strand-rows")
    if c12.foreign_mutations(chk, "list-handed-out", ("all_dot_brackets",)) == 0:
        chk.ok("list-handed-out", "package", "no consumer of BpSeq.all_dot_brackets changes the cached list in place")
    if not c01.decided(chk, "enumeration"):
        for rule in ("components-walk", "greedy-perms", "greedy-earlier", "greedy-mark", "greedy-choice", "product"):
            chk.floor(rule, 1)
    else:
        chk.floor("enumeration-fact", 1)
    if not c01.decided(chk, "conflict-graph:BpSeq.all_dot_brackets"):
        chk.floor("conflict-predicate", 1)


MANIFEST_ENTRY = {
    "text": "Static shape/role analysis of the current source of BpSeq.all_dot_brackets: conflict graph (exhaustive truth table of the crossing test), complete "
    "component walk (a vertex leaves the worklist only when all its neighbours are visited), every permutation, first-fit over all earlier positions with enough "
    "levels, full cartesian product, default level 0, de-duplication, verified fill, early exit = [FCFS]. Each is a necessary condition for the list to be exactly "
    "the greedy-stable assignments; membership of the optimal and FCFS notations follows from C02/C01 by the Grundy lemma.",
    "note": "Trusted: the first-fit/Grundy lemma, itertools semantics. Not decided: cost for groups larger than 8; order of the list is C14's business.",
    "technique": "static analysis: truth table over every order type of <= 4 stems - all_dot_brackets is interpreted from the ast (nothing of the library is imported or run) and its list compared with the set of Grundy colourings; every statement of the function must be reached by these classes, otherwise (size caps ...) the idiom-family shape rules with def-use roles decide",
}
