"""C02 - pseudoknot order assignment is a proper and optimal level assignment.

A14: the PuLP model built in BpSeq.convert_to_dot_bracket is read off the source and compared, piece by
piece, with the reference model of the statement:
   maximise  sum_i ( len_i * x[i,0]  -  sum_{k>=1} k * len_i * x[i,k] )
   s.t.      sum_k x[i,k] = 1 for every region i;   x[i,k] + x[j,k] <= 1 for every crossing pair, every level k
   x binary, levels 0..B-1 with B >= max degree + 1.
"""
from __future__ import annotations

import ast
from typing import Any, Dict, List, Optional, Tuple

from checks import c01
from sa import astq
from sa.consteval import Folder
from sa.flow import FlowMap, facts
from sa.model import AnalysisError, FuncInfo, norm
from sa.sym import Aff, SymEnv, atom_of, show_atom

MOD = "common"
K = c01.K


def product_form(env: SymEnv, e: ast.expr) -> Tuple[int, Tuple[Any, ...]]:
    """sign/coefficient and multiset of atoms of a product expression."""
    if isinstance(e, ast.BinOp) and isinstance(e.op, ast.Mult):
        c1, f1 = product_form(env, e.left)
        c2, f2 = product_form(env, e.right)
        return c1 * c2, tuple(sorted(f1 + f2, key=repr))
    if isinstance(e, ast.UnaryOp) and isinstance(e.op, ast.USub):
        c, f = product_form(env, e.operand)
        return -c, f
    if isinstance(e, ast.Constant) and isinstance(e.value, (int, float)) and not isinstance(e.value, bool):
        return e.value, ()
    v = env.ev(e)
    if isinstance(v, Aff) and v.is_const:
        return v.const, ()
    return 1, (atom_of(v),)


def run(chk) -> None:
    chk.explanation = (
        "Symbolic reading of the PuLP model in convert_to_dot_bracket (index sets of the variable loops, category and bounds, sense, "
        "each objective term as sign x factors per case of the level branch, each constraint family as (index set, linear form, "
        "relation, rhs), read-back name format) compared with the reference model of the property statement; conflict graph and "
        "fill are the verified ones of C01. Optimality of the returned assignment then rests only on the solver."
    )
    chk.trusted = ["CPython ast", "PuLP semantics of LpProblem/LpVariable/lpSum/+=", "the MILP solver returns a true optimum when status is Optimal", "Grundy argument: an optimal assignment never needs more than max degree + 1 levels"]
    chk.assumptions = ["valid BPSEQ", "solver integrality: varValue of a selected binary is exactly 1"]
    repo = chk.repo
    fi = repo.func(MOD, "BpSeq.convert_to_dot_bracket")
    chk.note_function(fi)
    env, R = c01.regions_term(chk, fi)
    fm = FlowMap(fi.node)
    c01.check_conflict_graph(chk, fi)

    # ---- early exit for an empty graph --------------------------------------------------
    exits = [s for s in fi.node.body if isinstance(s, ast.If) and astq.match(s.test, "not graph") is not None]
    ok = False
    if exits:
        r = exits[0].body[-1]
        if isinstance(r, ast.Return) and r.value is not None:
            m = astq.match(r.value, "self.__make_dot_bracket(regions, X_)")
            if m:
                x = m["X_"]
                ok = (
                    isinstance(x, ast.ListComp) and isinstance(x.elt, ast.Constant) and x.elt.value == 0 and atom_of(env.ev(x.generators[0].iter)) == ("call", "range", ("len", R))
                ) or astq.match(x, "[0] * len(regions)") is not None
    chk.expect(ok, "milp-empty-graph", fi.where, "without crossings every region gets level 0", "empty-graph exit does not assign level 0 to every region", K(fi, "empty-exit"))

    # ---- level bound ---------------------------------------------------------------------
    b = astq.single_def(fi.node, "max_order")
    if b is None:
        raise AnalysisError("max_order not bound once")
    why = norm(b)

    class _Sub(ast.NodeTransformer):
        def visit_Call(self, n):
            for pat in ("max(map(len, graph.values()))", "max((len(V_) for V_ in graph.values()))", "max([len(V_) for V_ in graph.values()])", "max((len(graph[V_]) for V_ in graph))", "max([len(graph[V_]) for V_ in graph])"):
                if astq.match(n, pat) is not None:
                    return ast.Name(id="DELTA__", ctx=ast.Load())
            for pat in ("len(regions)", "len(graph)", "len(graph.keys())"):
                if astq.match(n, pat) is not None:
                    return ast.Name(id="NVERT__", ctx=ast.Load())
            return self.generic_visit(n)

    import copy

    be = ast.fix_missing_locations(_Sub().visit(copy.deepcopy(b)))
    try:
        worst = None
        for delta in range(1, 13):
            for nv in (delta + 1, delta + 2, delta + 7):
                v = Folder(repo, MOD, {"DELTA__": delta, "NVERT__": nv}).fold(be)
                if not isinstance(v, int) or isinstance(v, bool):
                    raise ValueError(f"bound evaluates to {v!r}")
                if v < delta + 1 and worst is None:
                    worst = (delta, nv, v)
        chk.expect(
            worst is None,
            "milp-bound",
            fi.site(b),
            f"level bound `{why}` >= max degree + 1 (evaluated for max degree 1..12)",
            f"level bound `{why}` can be smaller than max degree + 1" + (f" (max degree {worst[0]} -> {worst[2]} levels)" if worst else "") + ": the model can be infeasible or exclude the optimum",
            K(fi, "bound"),
            expected="max(map(len, graph.values())) + 1",
            found=why,
        )
    except Exception as ex:
        chk.error("milp-bound", fi.site(b), f"level bound `{why}` not understood: {ex}")

    # ---- sense --------------------------------------------------------------------------
    prob = astq.first_assign(fi.node, "problem")
    m = astq.match(prob, "pulp.LpProblem(N_, S_)") if prob is not None else None
    sense = norm(m["S_"]) if m else None
    if m is None and prob is not None:
        for kw in getattr(prob, "keywords", []):
            if kw.arg == "sense":
                sense = norm(kw.value)
    chk.expect(
        sense in ("pulp.LpMaximize", "LpMaximize", "-1"),
        "milp-sense",
        fi.site(prob) if prob is not None else fi.where,
        "the problem is a maximisation",
        f"problem sense is `{sense}`, not LpMaximize",
        K(fi, "sense"),
        found=sense,
    )

    # ---- variables ------------------------------------------------------------------------
    vcalls = astq.calls(fi.node, "LpVariable")
    if len(vcalls) != 1:
        chk.error("milp-variables", fi.where, f"expected one LpVariable creation site, found {len(vcalls)}")
        return
    vc = vcalls[0]
    vst = fm.stmt_of(vc)
    loops = fm.of(vst).loops
    idx_ok = False
    i_name = j_name = None
    if len(loops) == 2 and all(isinstance(l, ast.For) and isinstance(l.target, ast.Name) for l in loops):
        i_name, j_name = loops[0].target.id, loops[1].target.id
        idx_ok = astq.match(loops[0].iter, "range(len(regions))") is not None and astq.match(loops[1].iter, "range(max_order)") is not None
        skip = [n for l in loops for s in l.body for n in ast.walk(s) if isinstance(n, (ast.Break, ast.Continue))]
        idx_ok = idx_ok and not skip
        idx_ok = idx_ok and not fm.guards_within(vst, loops[0])
    chk.expect(
        idx_ok,
        "milp-variables",
        fi.site(vc),
        "one variable per (region, level) over range(len(regions)) x range(max_order)",
        "variables are not created for the full product regions x levels",
        K(fi, "var-index"),
        found=[norm(l.iter) for l in loops],
    )
    args = list(vc.args)
    kw = {k.arg: k.value for k in vc.keywords}
    name_e = args[0] if args else kw.get("name")
    lo = args[1] if len(args) > 1 else kw.get("lowBound")
    hi = args[2] if len(args) > 2 else kw.get("upBound")
    cat = args[3] if len(args) > 3 else kw.get("cat")
    cat_s = norm(cat) if cat is not None else None
    f = Folder(repo, MOD)
    is_bin = cat_s in ("pulp.LpBinary", "LpBinary", "'Binary'")
    is_int01 = cat_s in ("pulp.LpInteger", "LpInteger", "'Integer'") and lo is not None and hi is not None and f.try_fold(lo) == 0 and f.try_fold(hi) == 1
    chk.expect(
        is_bin or is_int01,
        "milp-binary",
        fi.site(vc),
        "decision variables are integer in [0,1]",
        f"decision variables are not binary (cat={cat_s}, bounds {norm(lo) if lo else None}..{norm(hi) if hi else None}): fractional assignments become feasible",
        K(fi, "var-category"),
        found=norm(vc),
    )
    # bookkeeping containers
    var_name = None
    if isinstance(vst, ast.Assign) and isinstance(vst.targets[0], ast.Name):
        var_name = vst.targets[0].id
    books = {}
    for s in loops[1].body if len(loops) == 2 else []:
        m1 = astq.match(s, f"D_[K_].append({var_name})")
        m2 = astq.match(s, f"D_[K_] = {var_name}")
        m3 = astq.match(s, f"D_[{var_name}] = V_")
        if m1:
            books[norm(m1["D_"])] = ("list-by", norm(m1["K_"]))
        elif m2:
            books[norm(m2["D_"])] = ("by-key", norm(m2["K_"]))
        elif m3:
            books[norm(m3["D_"])] = ("of-var", norm(m3["V_"]))
    want_books = {
        "vars_by_region": ("list-by", i_name),
        "vars_by_order": ("list-by", j_name),
        "var_by_region_order": ("by-key", f"({i_name}, {j_name})"),
        "region_by_var": ("of-var", f"regions[{i_name}]"),
    }
    chk.expect(
        all(books.get(k) == v for k, v in want_books.items()),
        "milp-bookkeeping",
        fi.site(loops[1]) if len(loops) == 2 else fi.where,
        "each variable is filed under its region, its level, its (region, level) key and mapped to its region",
        "the variable bookkeeping (by region / by level / by (region, level) / region of variable) is inconsistent with the creation indices",
        K(fi, "bookkeeping"),
        expected={k: list(v) for k, v in want_books.items()},
        found={k: list(v) for k, v in books.items()},
    )
    # name format x_{i}_{j}
    fmt_ok = False
    if isinstance(name_e, ast.JoinedStr):
        parts = []
        for v in name_e.values:
            parts.append(("lit", v.value) if isinstance(v, ast.Constant) else ("fld", norm(v.value)))
        fmt_ok = parts == [("lit", "x_"), ("fld", i_name), ("lit", "_"), ("fld", j_name)]
    chk.expect(fmt_ok, "milp-name-format", fi.site(vc), "variable name is x_<region>_<level>", "variable name format is not x_<region>_<level>", K(fi, "name-format"), found=norm(name_e) if name_e is not None else None)

    # ---- problem += sites -----------------------------------------------------------------------
    adds = [s for s in astq.walk_no_nested(fi.node) if isinstance(s, ast.AugAssign) and isinstance(s.op, ast.Add) and astq.dotted(s.target) == "problem"]
    obj = [s for s in adds if not any(isinstance(n, ast.Compare) for n in ast.walk(s.value))]
    cons = [s for s in adds if s not in obj]
    chk.expect(
        len(obj) == 1 and len(cons) == 2,
        "milp-model-sites",
        fi.where,
        "the model has one objective and two constraint families, nothing else",
        f"the model has {len(obj)} objective(s) and {len(cons)} constraint site(s); expected 1 and 2 (exactly-one-level, adjacency)",
        K(fi, "model-sites"),
        found=[norm(s)[:80] for s in adds],
    )
    # ---- objective ------------------------------------------------------------------------------------
    if obj:
        chk.expect(astq.match(obj[0].value, "pulp.lpSum(terms)") is not None, "milp-objective", fi.site(obj[0]), "objective = lpSum(terms)", f"objective is `{norm(obj[0].value)}`, not lpSum(terms)", K(fi, "objective-sum"))
    t_appends = [c for c in astq.calls(fi.node, "append") if astq.dotted(c.func.value) == "terms"]
    if not t_appends:
        chk.violation("milp-objective", fi.where, "no objective terms are collected", K(fi, "objective-terms"))
    else:
        tst = fm.stmt_of(t_appends[0])
        tloops = fm.of(tst).loops
        loops_ok = False
        lvl = var = None
        if len(tloops) == 2:
            o_it = astq.match(tloops[0].iter, "vars_by_order.items()") is not None and isinstance(tloops[0].target, ast.Tuple)
            if o_it:
                lvl, vs = tloops[0].target.elts[0].id, tloops[0].target.elts[1].id
                loops_ok = astq.match(tloops[1].iter, vs) is not None and isinstance(tloops[1].target, ast.Name)
                var = tloops[1].target.id if loops_ok else None
        skip = [n for l in tloops for s in l.body for n in ast.walk(s) if isinstance(n, (ast.Break, ast.Continue))]
        chk.expect(
            loops_ok and not skip,
            "milp-objective",
            fi.site(tloops[0]) if tloops else fi.where,
            "objective terms range over every level and every variable of the level",
            "objective terms do not range over all (level, variable) combinations of vars_by_order",
            K(fi, "objective-index"),
        )
        if loops_ok:
            length_def = [v for s, v in astq.assignments(tloops[1], "length") if v is not None]
            len_ok = bool(length_def) and astq.match(length_def[0], f"region_by_var[{var}][2]") is not None
            chk.expect(len_ok, "milp-objective-length", fi.site(tloops[1]), "the weight of a variable is the length (third component) of its region", "the objective weight is not region_by_var[var][2] (the stem length)", K(fi, "objective-length"), found=[norm(x) for x in length_def])
            # coefficient of x[i,k] as a function of the level k: evaluate the collected term(s) on a small grid
            def coeff(k, v, ln):
                total, n = 0.0, 0
                for c in t_appends:
                    st = fm.stmt_of(c)
                    gs = fm.guards_within(st, tloops[1])
                    taken = True
                    for g in gs:
                        val = Folder(repo, MOD, {lvl: k}).try_fold(g.test, None)
                        if val is None:
                            raise AnalysisError(f"level test `{norm(g.test)}` does not fold on concrete levels")
                        taken = taken and (bool(val) == g.polarity)
                    if taken:
                        total += Folder(repo, MOD, {lvl: k, var: v, "length": ln}).fold(c.args[0])
                        n += 1
                return total, n
            rows = {}
            ok_all = True
            try:
                for k in range(0, 6):
                    c11, n = coeff(k, 1.0, 1.0)
                    c13, _ = coeff(k, 1.0, 3.0)
                    c21, _ = coeff(k, 2.0, 1.0)
                    want = 1.0 if k == 0 else -float(k)
                    rows[k] = c11
                    ok_all = ok_all and n == 1 and abs(c11 - want) < 1e-9 and abs(c13 - 3 * want) < 1e-9 and abs(c21 - 2 * want) < 1e-9
                chk.expect(
                    ok_all,
                    "milp-objective-coeff",
                    fi.site(tloops[1]),
                    "coefficient of x[i,k] is +len_i for k = 0 and -k*len_i for k >= 1 (levels 0..5, bilinear in x and len)",
                    "the objective coefficient of x[i,k] is not +len on level 0 and -k*len on level k",
                    K(fi, "objective-coeff"),
                    expected={k: (1 if k == 0 else -k) for k in range(6)},
                    found=rows,
                )
            except Exception as ex:
                chk.error("milp-objective-coeff", fi.site(tloops[1]), f"objective term not evaluable: {ex}")
    # ---- constraints -------------------------------------------------------------------------------------
    one = [s for s in cons if astq.match(s.value, "pulp.lpSum(X_) == 1") is not None]
    ok1 = False
    if len(one) == 1:
        ls = fm.of(one[0]).loops
        x = astq.match(one[0].value, "pulp.lpSum(X_) == 1")["X_"]
        ok1 = len(ls) == 1 and astq.match(ls[0].iter, "vars_by_region.values()") is not None and isinstance(ls[0].target, ast.Name) and astq.match(x, ls[0].target.id) is not None and not fm.guards_within(one[0], ls[0])
    chk.expect(
        ok1,
        "milp-one-level",
        fi.site(one[0]) if one else fi.where,
        "every region is on exactly one level: sum over its variables == 1",
        "the exactly-one-level constraint (lpSum(vars of a region) == 1 for every region) is missing or altered",
        K(fi, "one-level"),
        found=[norm(s.value) for s in cons],
    )
    adj = [s for s in cons if s not in one]
    ok2 = False
    if len(adj) == 1:
        m = astq.match(adj[0].value, "var_by_region_order[A_, L_] + var_by_region_order[B_, L_] <= 1") or astq.match(adj[0].value, "var_by_region_order[(A_, L_)] + var_by_region_order[(B_, L_)] <= 1")
        ls = fm.of(adj[0]).loops
        if m and len(ls) == 3 and not fm.guards_within(adj[0], ls[0]):
            a, b2, l = norm(m["A_"]), norm(m["B_"]), norm(m["L_"])
            l0 = (astq.match(ls[0].iter, "graph.keys()") is not None or astq.match(ls[0].iter, "graph") is not None) and norm(ls[0].target) == a
            l1 = astq.match(ls[1].iter, f"graph[{a}]") is not None and norm(ls[1].target) == b2
            l2 = astq.match(ls[2].iter, "range(max_order)") is not None and norm(ls[2].target) == l
            skip = [n for lp in ls for s in lp.body for n in ast.walk(s) if isinstance(n, (ast.Break, ast.Continue))]
            ok2 = l0 and l1 and l2 and not skip
    chk.expect(
        ok2,
        "milp-adjacency",
        fi.site(adj[0]) if adj else fi.where,
        "for every edge (i,j) and every level k: x[i,k] + x[j,k] <= 1",
        "the adjacency constraint family (x[i,k] + x[j,k] <= 1 for every edge and every level in range(max_order)) is missing or altered",
        K(fi, "adjacency"),
        found=[norm(s.value) for s in adj] + [norm(l.iter) for l in (fm.of(adj[0]).loops if adj else [])],
    )
    # ---- read-back ------------------------------------------------------------------------------------------
    rb_loops = [l for l in fi.node.body if isinstance(l, ast.For) and astq.match(l.iter, "problem.variables()") is not None]
    ok3 = False
    found = None
    if len(rb_loops) == 1 and isinstance(rb_loops[0].target, ast.Name):
        v = rb_loops[0].target.id
        sel = [s for s in rb_loops[0].body if isinstance(s, ast.If)]
        if len(sel) == 1 and (astq.match(sel[0].test, f"{v}.varValue == 1") is not None or astq.match(sel[0].test, f"{v}.varValue > 0.5") is not None or astq.match(sel[0].test, f"round({v}.varValue) == 1") is not None):
            body = sel[0].body
            found = [norm(s) for s in body]
            unp = [s for s in body if isinstance(s, ast.Assign) and isinstance(s.targets[0], ast.Tuple) and len(s.targets[0].elts) == 2]
            st = [s for s in body if astq.match(s, "orders[A_] = B_") is not None]
            if len(unp) == 1 and len(st) == 1:
                a_name, b_name = (e.id for e in unp[0].targets[0].elts)
                mm = astq.match(st[0], "orders[A_] = B_")
                parse = unp[0].value
                src_ok = False
                for pat in ('map(int, N_.split("_")[1:])', '[int(X_) for X_ in N_.split("_")[1:]]', '(int(X_) for X_ in N_.split("_")[1:])'):
                    pm = astq.match(parse, pat)
                    if pm:
                        n_e = pm["N_"]
                        if isinstance(n_e, ast.Name):
                            d = [x for s2, x in astq.assignments(rb_loops[0], n_e.id) if x is not None]
                            n_e = d[0] if len(d) == 1 else n_e
                        src_ok = astq.match(n_e, f"{v}.getName()") is not None or astq.match(n_e, f"{v}.name") is not None
                ok3 = src_ok and norm(mm["A_"]) == a_name and norm(mm["B_"]) == b_name and fmt_ok
    o_init = [v2 for s, v2 in astq.assignments(fi.node, "orders") if v2 is not None]
    init_ok = bool(o_init) and ((isinstance(o_init[0], ast.ListComp) and isinstance(o_init[0].elt, ast.Constant) and o_init[0].elt.value == 0 and atom_of(env.ev(o_init[0].generators[0].iter)) == ("call", "range", ("len", R))) or astq.match(o_init[0], "[0] * len(regions)") is not None)
    chk.expect(
        ok3 and init_ok,
        "milp-readback",
        fi.site(rb_loops[0]) if rb_loops else fi.where,
        "every selected variable x_<i>_<k> sets orders[i] = k (name parsed in the order it was formatted)",
        "read-back does not map a selected variable x_<region>_<level> to orders[region] = level",
        K(fi, "readback"),
        found=found,
    )
    rets = [r for r in fi.node.body if isinstance(r, ast.Return)]
    chk.expect(
        len(rets) == 1 and astq.match(rets[0].value, "self.__make_dot_bracket(regions, orders)") is not None,
        "milp-result",
        fi.where,
        "the result is the fill of (regions, orders)",
        "the optimal path does not return self.__make_dot_bracket(regions, orders)",
        K(fi, "result"),
    )
    # read-back guarded by optimal (shared with C13)
    from checks import c13

    for rb in [n for n in ast.walk(fi.node) if isinstance(n, ast.Attribute) and n.attr == "varValue"]:
        st = fm.stmt_of(rb)
        fs = facts(fm.expr_guards(st, rb) or fm.of(st).guards)
        chk.expect(any(c13.is_optimal_fact(g) for g in fs), "milp-readback-optimal", fi.site(rb), "values are read only from an optimal solution", "variable values are read without the Optimal status test", K(fi, "readback-unguarded"))
    # fill + regions + stems
    c01.check_stems(chk)
    c01.check_regions(chk)
    c01.check_fill(chk)
    for rule, n in (("conflict-predicate", 1), ("milp-objective-coeff", 1), ("milp-objective-length", 1), ("milp-adjacency", 1), ("milp-one-level", 1), ("milp-bound", 1)):
        chk.floor(rule, n)


MANIFEST_ENTRY = {
    "text": "The MILP built by convert_to_dot_bracket is extracted symbolically from the current source and shown equal to the reference model of the "
    "statement (all region pairs, edge iff arcs cross, binary x[i,k] over regions x levels, level bound >= max degree + 1, maximise +len on level 0 and "
    "-k*len above, exactly one level per region, adjacent regions never share a level, read-back under the Optimal test through the verified fill). "
    "Properness, 'never worse than FCFS', 'no stem movable lower' and 'nested => round brackets only' are corollaries of optimality of this model.",
    "note": "Trusted: the MILP solver returns a true optimum when it reports Optimal; PuLP API semantics; paper argument that Delta+1 levels suffice. Not decided: solver behaviour, floating-point integrality of varValue.",
    "technique": "static analysis: symbolic MILP model extraction (index sets, signed factor multisets, constraint families) from the ast + order-type truth table of the conflict test",
}
