"""C02 - pseudoknot order assignment is a proper and optimal level assignment.

A14: the PuLP model built in BpSeq.convert_to_dot_bracket is read off the source and compared, piece by
piece, with the reference model of the statement:
   maximise  sum_i ( len_i * x[i,0]  -  sum_{k>=1} k * len_i * x[i,k] )
   s.t.      sum_k x[i,k] = 1 for every region i;   x[i,k] + x[j,k] <= 1 for every crossing pair, every level k
   x binary, levels 0..B-1 with B >= max degree + 1.
Pieces are *evaluated* (coefficient as a function of the level, bound as a function of the maximum degree, roles of
the name fields) rather than matched as text, so equivalent ways of writing the model give the same facts.
"""
from __future__ import annotations

import ast
import copy
from typing import Any, Callable, Dict, List, Optional, Tuple

from checks import c01
from sa import astq
from sa.consteval import Folder
from sa.defuse import Inliner
from sa.flow import FlowMap, facts
from sa.model import AnalysisError, FuncInfo, norm
from sa.sym import SymEnv, atom_of

MOD = "common"
K = c01.K

ROBUST = {
    "milp-bound", "milp-sense", "milp-binary", "milp-objective-coeff", "milp-one-level", "milp-adjacency", "milp-readback",
    "milp-readback-optimal", "milp-name-format", "milp-empty-graph", "milp-readback-init", "milp-history", "milp-variables", "milp-model-sites",
}


def zeros_of_regions(env: SymEnv, x: ast.AST, R: Any) -> bool:
    if isinstance(x, ast.ListComp) and isinstance(x.elt, ast.Constant) and x.elt.value == 0 and len(x.generators) == 1 and not x.generators[0].ifs:
        return atom_of(env.ev(x.generators[0].iter)) == ("call", "range", ("len", R))
    m = astq.match(x, "[0] * N_") or astq.match(x, "N_ * [0]")
    return bool(m) and atom_of(env.ev(m["N_"])) == ("len", R)


def local_helpers(repo, fi: FuncInfo, outer: Optional[Dict[str, Any]] = None) -> Dict[str, Callable]:
    """Nested functions of `fi` as callables on folded values (their bodies are evaluated with sa.blockeval; free names come from `outer`)."""
    from sa.blockeval import BlockEval

    out: Dict[str, Callable] = {}
    for d in ast.walk(fi.node):
        if d is fi.node or not isinstance(d, ast.FunctionDef):
            continue
        if d.args.kwonlyargs or d.args.vararg or d.args.kwarg:
            continue
        params = [a.arg for a in d.args.args]
        body = [s for s in d.body if not (isinstance(s, ast.Expr) and isinstance(s.value, ast.Constant))]

        def call(*vals, _p=params, _b=body):
            if len(vals) != len(_p):
                raise AnalysisError("helper arity")
            env = dict(outer or {})
            env.update(zip(_p, vals))
            kind, val = BlockEval(repo, MOD, env).run(_b)
            if kind != "return":
                raise AnalysisError("helper does not return")
            return val

        out[d.name] = call
    return out


def check_bound(chk, fi: FuncInfo, inl: Inliner) -> None:
    repo = chk.repo
    binds = [(st, v) for st, v in astq.assignments(fi.node, "max_order") if v is not None]
    if len(binds) != 1:
        chk.error("milp-bound", fi.where, "`max_order` is not bound exactly once")
        return
    st, b = binds[0]
    b = inl.inline(b, st, stop=("graph", "regions"))
    why = norm(b)

    class _Sub(ast.NodeTransformer):
        def visit_Call(self, n):
            for pat in (
                "max(map(len, graph.values()))",
                "max((len(V_) for V_ in graph.values()))",
                "max([len(V_) for V_ in graph.values()])",
                "max((len(graph[V_]) for V_ in graph))",
                "max([len(graph[V_]) for V_ in graph])",
                "max((len(V_) for K_, V_ in graph.items()))",
                "len(max(graph.values(), key=len))",
            ):
                if astq.match(n, pat) is not None:
                    return ast.Name(id="DELTA__", ctx=ast.Load())
            for pat in ("len(regions)", "len(graph)", "len(graph.keys())"):
                if astq.match(n, pat) is not None:
                    return ast.Name(id="NVERT__", ctx=ast.Load())
            return self.generic_visit(n)

    be = ast.fix_missing_locations(_Sub().visit(copy.deepcopy(b)))
    try:
        worst = None
        for delta in range(1, 13):
            for nv in (delta + 1, delta + 2, delta + 7):
                v = Folder(repo, MOD, {"DELTA__": delta, "NVERT__": nv}).fold(be)
                if not isinstance(v, int) or isinstance(v, bool):
                    raise ValueError(f"bound evaluates to {v!r}")
                if v < delta + 1 and worst is None:
                    worst = (delta, nv, v)
        chk.expect(
            worst is None,
            "milp-bound",
            fi.site(st),
            f"level bound `{why}` >= max degree + 1 (evaluated for max degree 1..12)",
            f"level bound `{why}` can be smaller than max degree + 1" + (f" (max degree {worst[0]} -> {worst[2]} levels)" if worst else "") + ": the model can be infeasible or exclude the optimum",
            K(fi, "bound"),
            expected="max(map(len, graph.values())) + 1",
            found=why,
        )
    except Exception as ex:
        chk.error("milp-bound", fi.site(st), f"level bound `{why}` not understood: {ex}")


def loop_roles(loops) -> Optional[Dict[str, str]]:
    """Two nested iterations: (level, vars) over vars_by_order.items(), then var over vars."""
    if len(loops) != 2:
        return None
    l0, l1 = loops
    t0, t1 = l0.target, l1.target
    if astq.match(l0.iter, "vars_by_order.items()") is None or not (isinstance(t0, ast.Tuple) and len(t0.elts) == 2 and all(isinstance(e, ast.Name) for e in t0.elts)):
        return None
    if not (isinstance(l1.iter, ast.Name) and l1.iter.id == t0.elts[1].id and isinstance(t1, ast.Name)):
        return None
    return {"level": t0.elts[0].id, "var": t1.id}


def objective_sources(fi: FuncInfo, fm: FlowMap, name: str) -> Optional[List[Tuple[ast.expr, Dict[str, str], List, ast.AST]]]:
    """[(term expression, roles, guards, site)] for every way elements get into list `name`; None if one is not understood."""
    out = []
    for c in astq.calls(fi.node, "append"):
        if astq.dotted(c.func.value) != name or not c.args:
            continue
        st = fm.stmt_of(c)
        loops = fm.of(st).loops
        roles = loop_roles(loops)
        if roles is None:
            return None
        out.append((c.args[0], roles, list(fm.guards_within(st, loops[0])), c))
    for st, v in astq.assignments(fi.node, name):
        if v is None:
            continue
        if isinstance(v, (ast.ListComp, ast.GeneratorExp)):
            roles = loop_roles(v.generators)
            if roles is None:
                return None
            out.append((v.elt, roles, [("comp-if", c2) for g in v.generators for c2 in g.ifs], v))
        elif not (norm(v) in ("[]", "list()")):
            return None
    for n in ast.walk(fi.node):
        if isinstance(n, ast.Call) and isinstance(n.func, ast.Attribute) and n.func.attr in ("extend", "insert", "remove", "pop", "clear") and astq.dotted(n.func.value) == name:
            return None
        if isinstance(n, ast.AugAssign) and astq.dotted(n.target) == name:
            return None
    return out


def check_objective(chk, fi: FuncInfo, fm: FlowMap, inl: Inliner) -> None:
    repo = chk.repo
    helpers = local_helpers(repo, fi)
    adds = [s for s in astq.walk_no_nested(fi.node) if isinstance(s, ast.AugAssign) and isinstance(s.op, ast.Add) and astq.dotted(s.target) == "problem"]
    obj = [s for s in adds if not isinstance(inl.inline(s.value, s, depth=2), ast.Compare)]
    cons = [s for s in adds if s not in obj]
    if len(obj) != 1:
        chk.error("milp-objective", fi.where, f"{len(obj)} objective statements `problem += <expression>` found, expected one")
    else:
        _objective_terms(chk, fi, fm, inl, obj[0], helpers)
    # ---- constraints ------------------------------------------------------------------------------------------
    one, adj, other = [], [], []
    for s in cons:
        v = inl.inline(s.value, s, stop=("var_by_region_order", "vars_by_region", "graph", "max_order"))
        loops = fm.of(s).loops
        if isinstance(v, ast.Compare) and len(v.ops) == 1 and (astq.match(v.left, "pulp.lpSum(X_)") is not None or astq.match(v.comparators[0], "pulp.lpSum(X_)") is not None):
            one.append((s, v, loops))
        elif isinstance(v, ast.Compare) and "var_by_region_order" in norm(v):
            adj.append((s, v, loops))
        else:
            other.append((s, v, loops))
    for s, v, _ in other:
        chk.error("milp-model-sites", fi.site(s), f"constraint `{norm(v)[:80]}` not classified (neither exactly-one-level nor adjacency)")
    if not other:
        chk.expect(len(one) == 1 and len(adj) == 1, "milp-model-sites", fi.where, "the model has one objective and two constraint families, nothing else", f"the model has {len(one)} exactly-one-level and {len(adj)} adjacency constraint site(s), expected one of each", K(fi, "model-sites"), found=[norm(s.value)[:80] for s in cons])
    if len(one) == 1:
        s, v, loops = one[0]
        flip = astq.match(v.left, "pulp.lpSum(X_)") is None
        m = astq.match(v.comparators[0] if flip else v.left, "pulp.lpSum(X_)")
        rhs = Folder(repo, MOD).try_fold(v.left if flip else v.comparators[0])
        x = norm(m["X_"])
        src_ok = False
        if len(loops) == 1 and not fm.guards_within(s, loops[0]) and not _skips(loops):
            l0 = loops[0]
            if astq.match(l0.iter, "vars_by_region.values()") is not None:
                src_ok = x == norm(l0.target)
            elif astq.match(l0.iter, "vars_by_region.items()") is not None and isinstance(l0.target, ast.Tuple) and len(l0.target.elts) == 2:
                src_ok = x == norm(l0.target.elts[1])
            elif astq.match(l0.iter, "vars_by_region") is not None or astq.match(l0.iter, "vars_by_region.keys()") is not None or astq.match(l0.iter, "range(len(regions))") is not None:
                src_ok = x == f"vars_by_region[{norm(l0.target)}]"
        if not src_ok:
            chk.error("milp-one-level", fi.site(s), "the exactly-one-level constraint does not range over vars_by_region in a recognised way")
        else:
            chk.expect(rhs == 1 and isinstance(v.ops[0], ast.Eq), "milp-one-level", fi.site(s), "every region is on exactly one level: sum over its variables == 1", f"the one-level constraint is `{norm(v)}`, not `sum == 1`", K(fi, "one-level"), found=norm(v))
    elif not one and not other:
        chk.violation("milp-one-level", fi.where, "the exactly-one-level constraint (lpSum(vars of a region) == 1 for every region) is missing or no longer an equality", K(fi, "one-level"), found=[norm(s.value) for s in cons])
    if len(adj) == 1:
        s, v, loops = adj[0]
        m = astq.match(v, "var_by_region_order[A_, L_] + var_by_region_order[B_, L_] <= C_")
        if not m:
            m2 = isinstance(v, ast.Compare) and len(v.ops) == 1 and astq.match(v.left, "var_by_region_order[A_, L_] + var_by_region_order[B_, L_]")
            if m2:
                chk.violation("milp-adjacency", fi.site(s), f"adjacency constraint `{norm(v)}` is not `x[i,k] + x[j,k] <= 1`", K(fi, "adjacency"), found=norm(v))
            else:
                chk.error("milp-adjacency", fi.site(s), f"adjacency constraint `{norm(v)[:90]}` not of the form x[i,k] + x[j,k] <= 1")
        else:
            a, b2, l = norm(m["A_"]), norm(m["B_"]), norm(m["L_"])
            rhs = Folder(repo, MOD).try_fold(m["C_"])
            idx_ok = False
            lvl_iter = None
            if len(loops) == 3 and not fm.guards_within(s, loops[0]):
                l0, l1, l2 = loops
                k0 = (astq.match(l0.iter, "graph.keys()") is not None or astq.match(l0.iter, "graph") is not None) and norm(l0.target) == a and astq.match(l1.iter, f"graph[{a}]") is not None and norm(l1.target) == b2
                k1 = astq.match(l0.iter, "graph.items()") is not None and isinstance(l0.target, ast.Tuple) and len(l0.target.elts) == 2 and norm(l0.target.elts[0]) == a and norm(l1.iter) == norm(l0.target.elts[1]) and norm(l1.target) == b2
                idx_ok = (k0 or k1) and norm(l2.target) == l
                lvl_iter = l2.iter
            if len(loops) == 3 and fm.guards_within(s, loops[0]):
                gs = fm.guards_within(s, loops[0])
                # a filter on the (vertex, neighbour) pair that keeps one direction of every edge is equivalent
                if all(norm(g.test) in (f"{a} < {b2}", f"{b2} > {a}", f"{a} > {b2}", f"{b2} < {a}") for g in gs) and len(gs) == 1:
                    chk.ok("milp-adjacency", fi.site(s), "each undirected edge constrained once (i<j filter)")
                else:
                    chk.violation("milp-adjacency", fi.site(s), f"adjacency constraints are added only under `{' and '.join(norm(g.test) for g in gs)}`: some (edge, level) pairs are unconstrained", K(fi, "adjacency-guard"), found=[norm(g.test) for g in gs])
                    idx_ok = None
            if idx_ok is False:
                chk.error("milp-adjacency", fi.site(s), "adjacency constraints do not range over (vertex, neighbour, level) in a recognised way")
            elif idx_ok:
                if _skips(loops):
                    chk.violation("milp-adjacency", fi.site(s), "break/continue inside the adjacency loops: some (edge, level) constraints are missing", K(fi, "adjacency-skip"))
                chk.expect(
                    rhs == 1 and astq.match(inl.inline(lvl_iter, s, stop=("max_order",)), "range(max_order)") is not None,
                    "milp-adjacency",
                    fi.site(s),
                    "for every edge (i,j) and every level k in range(max_order): x[i,k] + x[j,k] <= 1",
                    f"the adjacency family is `{norm(v)}` for levels `{norm(lvl_iter)}`: not `<= 1` for every level in range(max_order)",
                    K(fi, "adjacency"),
                    found=[norm(v), norm(lvl_iter)],
                )
    elif not adj and not other:
        chk.violation("milp-adjacency", fi.where, "the adjacency constraint family (x[i,k] + x[j,k] <= 1 for every edge and level) is missing", K(fi, "adjacency"))


def _skips(loops) -> bool:
    return any(isinstance(n, (ast.Break, ast.Continue)) for lp in loops if isinstance(lp, (ast.For, ast.While)) for st in lp.body for n in ast.walk(st))


def _objective_terms(chk, fi: FuncInfo, fm: FlowMap, inl: Inliner, obj: ast.AugAssign, helpers: Dict[str, Callable]) -> None:
    repo = chk.repo
    m = astq.match(obj.value, "pulp.lpSum(T_)")
    if not m:
        chk.error("milp-objective", fi.site(obj), f"objective `{norm(obj.value)}` is not pulp.lpSum(<terms>)")
        return
    t = m["T_"]
    srcs = None
    if isinstance(t, ast.Name):
        srcs = objective_sources(fi, fm, t.id)
    elif isinstance(t, (ast.ListComp, ast.GeneratorExp)):
        roles = loop_roles(t.generators)
        srcs = [(t.elt, roles, [("comp-if", c2) for g in t.generators for c2 in g.ifs], t)] if roles else None
    if srcs is not None and not srcs:
        chk.violation("milp-objective-coeff", fi.site(obj), "no objective terms are collected: every assignment has objective 0", K(fi, "objective-terms"))
        return
    if not srcs or any(s[1] != srcs[0][1] for s in srcs):
        chk.error("milp-objective", fi.site(obj), "objective terms are not collected over (level, variable) of vars_by_order in a recognised way")
        return
    lvl, var = srcs[0][1]["level"], srcs[0][1]["var"]
    for s in srcs:
        if isinstance(s[3], ast.Call) and _skips(fm.of(fm.stmt_of(s[3])).loops):
            chk.violation("milp-objective-coeff", fi.site(s[3]), "break/continue in the objective loops: some (level, variable) terms are missing", K(fi, "objective-skip"))

    def coeff(k: int, v: float, ln: float) -> Tuple[float, int]:
        total, n = 0.0, 0
        loc: Dict[str, Any] = {lvl: k, var: v, "region_by_var": {v: (-7, -11, ln)}}
        loc.update(local_helpers(repo, fi, dict(loc)))
        for expr, _, guards, site in srcs:
            taken = True
            for g in guards:
                test, pol = (g[1], True) if isinstance(g, tuple) else (g.test, g.polarity)
                val = Folder(repo, MOD, loc).try_fold(test, None)
                if val is None:
                    raise AnalysisError(f"guard `{norm(test)}` of an objective term does not fold on concrete levels")
                taken = taken and (bool(val) == pol)
            if taken:
                at = fm.stmt_of(site)
                e = inl.inline(expr, at, stop=(lvl, var, "region_by_var", "regions") + tuple(helpers))
                total += Folder(repo, MOD, loc).fold(e)
                n += 1
        return total, n

    rows = {}
    ok_all = True
    try:
        for k in range(0, 6):
            c11, n = coeff(k, 1.0, 1.0)
            c13, _ = coeff(k, 1.0, 3.0)
            c21, _ = coeff(k, 2.0, 1.0)
            want = 1.0 if k == 0 else -float(k)
            rows[k] = c11
            ok_all = ok_all and n == 1 and abs(c11 - want) < 1e-9 and abs(c13 - 3 * want) < 1e-9 and abs(c21 - 2 * want) < 1e-9
        chk.expect(
            ok_all,
            "milp-objective-coeff",
            fi.site(obj),
            "coefficient of x[i,k] is +len_i for k = 0 and -k*len_i for k >= 1 (levels 0..5, bilinear in x and len; len = third component of the variable's region)",
            "the objective coefficient of x[i,k] is not +len on level 0 and -k*len on level k (len = length of the variable's region)",
            K(fi, "objective-coeff"),
            expected={k: (1 if k == 0 else -k) for k in range(6)},
            found=rows,
        )
    except Exception as ex:
        chk.error("milp-objective-coeff", fi.site(obj), f"objective term not evaluable: {ex}")


def check_variables(chk, fi: FuncInfo, fm: FlowMap) -> bool:
    """Category of every LP variable creation; index coverage; name format; bookkeeping.  Returns whether the name format is x_<region>_<level>."""
    repo = chk.repo
    f = Folder(repo, MOD)
    creators = [c for c in ast.walk(fi.node) if isinstance(c, ast.Call) and (astq.dotted(c.func) or "").split(".")[-1] in ("LpVariable", "dicts", "dict", "matrix") and "LpVariable" in (astq.dotted(c.func) or "")]
    if not creators:
        chk.error("milp-variables", fi.where, "no LP variable creation found")
        return False
    fmt = False
    for vc in creators:
        d = astq.dotted(vc.func)
        args = list(vc.args)
        kw = {k.arg: k.value for k in vc.keywords}
        off = 0 if d.endswith("LpVariable") else 1  # .dicts(name, indices, lowBound, upBound, cat)
        lo = args[1 + off] if len(args) > 1 + off else kw.get("lowBound")
        hi = args[2 + off] if len(args) > 2 + off else kw.get("upBound")
        cat = args[3 + off] if len(args) > 3 + off else kw.get("cat")
        cat_s = norm(cat) if cat is not None else None
        is_bin = cat_s in ("pulp.LpBinary", "LpBinary", "'Binary'")
        is_int01 = cat_s in ("pulp.LpInteger", "LpInteger", "'Integer'") and lo is not None and hi is not None and f.try_fold(lo) == 0 and f.try_fold(hi) == 1
        chk.expect(
            is_bin or is_int01,
            "milp-binary",
            fi.site(vc),
            "decision variables are integer in [0,1]",
            f"decision variables are not binary (cat={cat_s if cat_s else 'default Continuous'}, bounds {norm(lo) if lo is not None else None}..{norm(hi) if hi is not None else None}): fractional assignments become feasible and the `== 1` read-back can select nothing",
            K(fi, "var-category"),
            found=norm(vc)[:120],
        )
        if not d.endswith("LpVariable"):
            chk.error("milp-variables", fi.site(vc), f"variables created through `{d}`: index/bookkeeping reading not implemented for this form")
            continue
        vst = fm.stmt_of(vc)
        loops = fm.of(vst).loops
        if not (len(loops) == 2 and all(isinstance(l, ast.For) and isinstance(l.target, ast.Name) for l in loops)):
            chk.error("milp-variables", fi.site(vc), "variable creation is not inside a (region, level) double loop")
            continue
        i_name, j_name = loops[0].target.id, loops[1].target.id
        idx_ok = astq.match(loops[0].iter, "range(len(regions))") is not None and astq.match(loops[1].iter, "range(max_order)") is not None
        idx_ok = idx_ok and not _skips(loops) and not fm.guards_within(vst, loops[0])
        chk.expect(idx_ok, "milp-variables", fi.site(vc), "one variable per (region, level) over range(len(regions)) x range(max_order)", "variables are not created for the full product regions x levels", K(fi, "var-index"), found=[norm(l.iter) for l in loops])
        name_e = args[0] if args else kw.get("name")
        if isinstance(name_e, ast.JoinedStr):
            parts = [("lit", v.value) if isinstance(v, ast.Constant) else ("fld", norm(v.value)) for v in name_e.values]
            fmt = parts == [("lit", "x_"), ("fld", i_name), ("lit", "_"), ("fld", j_name)]
            swapped = parts == [("lit", "x_"), ("fld", j_name), ("lit", "_"), ("fld", i_name)]
            if fmt:
                chk.ok("milp-name-format", fi.site(vc), "variable name is x_<region>_<level>")
            elif swapped:
                chk.violation("milp-name-format", fi.site(vc), f"variable name `{norm(name_e)}` puts the level before the region: the read-back assigns levels to the wrong regions", K(fi, "name-format"), found=norm(name_e))
            else:
                flds = [p[1] for p in parts if p[0] == "fld"]
                if sorted(flds) != sorted([i_name, j_name]) and set(flds) <= {i_name, j_name}:
                    chk.violation("milp-name-format", fi.site(vc), f"variable name `{norm(name_e)}` does not contain both the region and the level: names collide and the read-back cannot recover the assignment", K(fi, "name-format"), found=norm(name_e))
                else:
                    chk.error("milp-name-format", fi.site(vc), f"variable name format `{norm(name_e)}` not recognised")
        else:
            chk.error("milp-name-format", fi.site(vc), "variable name is not an f-string")
        var_name = vst.targets[0].id if isinstance(vst, ast.Assign) and isinstance(vst.targets[0], ast.Name) else None
        books = {}
        for s in loops[1].body:
            m1 = astq.match(s, f"D_[K_].append({var_name})")
            m2 = astq.match(s, f"D_[K_] = {var_name}")
            m3 = astq.match(s, f"D_[{var_name}] = V_")
            if m1:
                books[norm(m1["D_"])] = ("list-by", norm(m1["K_"]))
            elif m2:
                books[norm(m2["D_"])] = ("by-key", norm(m2["K_"]))
            elif m3:
                books[norm(m3["D_"])] = ("of-var", norm(m3["V_"]))
        want_books = {"vars_by_region": ("list-by", i_name), "vars_by_order": ("list-by", j_name), "var_by_region_order": ("by-key", f"({i_name}, {j_name})"), "region_by_var": ("of-var", f"regions[{i_name}]")}
        chk.expect(
            all(books.get(k) == v for k, v in want_books.items()),
            "milp-bookkeeping",
            fi.site(loops[1]),
            "each variable is filed under its region, its level, its (region, level) key and mapped to its region",
            "the variable bookkeeping (by region / by level / by (region, level) / region of variable) is inconsistent with the creation indices",
            K(fi, "bookkeeping"),
            expected={k: list(v) for k, v in want_books.items()},
            found={k: list(v) for k, v in books.items()},
        )
    return fmt


def name_field_roles(loop: ast.For, v: str, elements_are_names: bool = False) -> Optional[Dict[str, str]]:
    """name -> 'REGION' | 'LEVEL' | 'PREFIX' for locals bound from `<v>.getName().split('_')` (name format x_<region>_<level>)."""
    names_of_name = [f"{v}.getName()", f"{v}.name"] + ([v] if elements_are_names else [])
    for s in ast.walk(loop):
        if isinstance(s, ast.Assign) and isinstance(s.targets[0], ast.Name) and norm(s.value) in names_of_name:
            names_of_name.append(s.targets[0].id)
    roles: Dict[str, str] = {}
    for s in ast.walk(loop):
        if not (isinstance(s, ast.Assign) and isinstance(s.targets[0], (ast.Tuple, ast.List))):
            continue
        seq = None
        for nm in names_of_name:
            for pat, fields in (
                (f'map(int, {nm}.split("_")[1:])', ["REGION", "LEVEL"]),
                (f'[int(X_) for X_ in {nm}.split("_")[1:]]', ["REGION", "LEVEL"]),
                (f'(int(X_) for X_ in {nm}.split("_")[1:])', ["REGION", "LEVEL"]),
                (f'{nm}.split("_")[1:]', ["REGION", "LEVEL"]),
                (f'{nm}.split("_")', ["PREFIX", "REGION", "LEVEL"]),
                (f'map(int, {nm}.split("_")[1:3])', ["REGION", "LEVEL"]),
                (f'{nm}.split("_")[1:3]', ["REGION", "LEVEL"]),
            ):
                if astq.match(s.value, pat) is not None:
                    seq = fields
        if seq is None or len(seq) != len(s.targets[0].elts):
            continue
        for t, r in zip(s.targets[0].elts, seq):
            if isinstance(t, ast.Name):
                roles[t.id] = r
    return roles or None


def check_readback(chk, fi: FuncInfo, fm: FlowMap, env: SymEnv, R: Any, fmt_ok: bool) -> None:
    rb_loops = [l for l in fi.node.body if isinstance(l, ast.For) and astq.match(l.iter, "problem.variables()") is not None]
    pre_sel = None  # second form: names (or variables) of the selected variables are collected first, then decoded
    if not rb_loops:
        for l in [l for l in fi.node.body if isinstance(l, ast.For) and isinstance(l.iter, ast.Name) and isinstance(l.target, ast.Name)]:
            d = [val for stx, val in astq.assignments(fi.node, l.iter.id) if val is not None]
            if len(d) == 1 and isinstance(d[0], (ast.ListComp, ast.GeneratorExp)) and len(d[0].generators) == 1 and astq.match(d[0].generators[0].iter, "problem.variables()") is not None and isinstance(d[0].generators[0].target, ast.Name):
                g0 = d[0].generators[0]
                x = g0.target.id
                if norm(d[0].elt) in (x, f"{x}.getName()", f"{x}.name"):
                    rb_loops = [l]
                    pre_sel = (d[0], x, norm(d[0].elt) != x)
    if len(rb_loops) != 1 or not isinstance(rb_loops[0].target, ast.Name):
        chk.error("milp-readback", fi.where, "read-back loop over problem.variables() not found")
        return
    loop = rb_loops[0]
    v = loop.target.id
    stores = [s for s in ast.walk(loop) if isinstance(s, ast.Assign) and astq.match(s, "orders[A_] = B_") is not None]
    if len(stores) != 1:
        chk.error("milp-readback", fi.site(loop), f"{len(stores)} stores into `orders` in the read-back loop, expected one")
        return
    st = stores[0]
    fs = facts(fm.guards_within(st, loop))
    if pre_sel is not None:
        from sa.flow import Guard

        comp, x, is_name = pre_sel
        # the selection lives in the comprehension; rewrite it in terms of the loop variable of the decoding loop
        class _Ren(ast.NodeTransformer):
            def visit_Name(s2, n):
                return ast.copy_location(ast.Name(id=v, ctx=n.ctx), n) if n.id == x else n

        import copy as _copy

        fs = list(fs) + [g2 for c2 in comp.generators[0].ifs for g2 in facts([Guard(_Ren().visit(_copy.deepcopy(c2)), True, "comp", None)])]
    pos = (f"{v}.varValue == 1", f"round({v}.varValue) == 1", f"{v}.varValue > 0.5", f"{v}.varValue >= 0.5", f"1 == {v}.varValue")
    neg = (f"{v}.varValue != 1", f"{v}.varValue < 0.5", f"round({v}.varValue) != 1")
    sel = [g for g in fs if "varValue" in norm(g.test)]
    extra = [g for g in fs if g not in sel]
    if not sel and not extra:
        chk.violation("milp-readback", fi.site(st), "levels are read from every variable regardless of its value (no `varValue == 1` selection): the last level wins", K(fi, "readback-select"))
    elif len(sel) == 1 and not extra and ((norm(sel[0].test) in pos and sel[0].polarity) or (norm(sel[0].test) in neg and not sel[0].polarity)):
        chk.ok("milp-readback", fi.site(st), "only variables with value 1 are read")
    elif len(sel) == 1 and not extra and ((norm(sel[0].test) in pos and not sel[0].polarity) or (norm(sel[0].test) in neg and sel[0].polarity)):
        chk.violation("milp-readback", fi.site(st), f"levels are read from the variables that are NOT selected (`{norm(sel[0].test)}` is {sel[0].polarity})", K(fi, "readback-select"))
    else:
        chk.error("milp-readback", fi.site(st), f"selection of the read-back `{[norm(g.test) for g in fs]}` not recognised")
    roles = name_field_roles(loop, v, elements_are_names=bool(pre_sel and pre_sel[2]))
    if roles is None:
        chk.error("milp-readback", fi.site(loop), "parsing of the variable name in the read-back not recognised")
    else:
        m = astq.match(st, "orders[A_] = B_")

        def role(e: ast.AST) -> Optional[str]:
            if isinstance(e, ast.Call) and astq.callee_name(e) == "int" and len(e.args) == 1:
                e = e.args[0]
            return roles.get(norm(e))

        ra, rb = role(m["A_"]), role(m["B_"])
        if ra is None or rb is None or "PREFIX" in (ra, rb) or ra == rb:
            chk.error("milp-readback", fi.site(st), f"`{norm(st)}` does not use the parsed name fields in a recognised way")
        elif not fmt_ok:
            chk.error("milp-readback", fi.site(st), "read-back roles cannot be judged: the name format was not established")
        else:
            chk.expect(
                (ra, rb) == ("REGION", "LEVEL"),
                "milp-readback",
                fi.site(st),
                "a selected variable x_<i>_<k> sets orders[i] = k (fields parsed in the order they were formatted)",
                f"read-back stores orders[{ra.lower()}] = {rb.lower()}: region and level fields of the variable name are swapped",
                K(fi, "readback"),
                found=norm(st),
            )
    o_init = [(s, v2) for s, v2 in astq.assignments(fi.node, "orders") if v2 is not None]
    if len(o_init) != 1:
        chk.error("milp-readback-init", fi.where, "`orders` is not initialised exactly once")
    else:
        chk.expect(zeros_of_regions(env, o_init[0][1], R), "milp-readback-init", fi.site(o_init[0][0]), "orders starts as one 0 per region", f"orders is initialised as `{norm(o_init[0][1])}`, not len(regions) zeros", K(fi, "orders-init"), found=norm(o_init[0][1]))


def check_model_pinned(chk, fi: FuncInfo, fm: FlowMap, inl: Inliner, env: SymEnv, R: Any) -> None:
    """Pinned-form reading of the model (fallback when the model cannot be evaluated, checks/c01e.py:model_fact)."""
    repo = chk.repo
    # ---- early exit for an empty graph --------------------------------------------------
    exits = [s for s in fi.node.body if isinstance(s, ast.If) and norm(s.test) in ("not graph", "len(graph) == 0", "not len(graph)", "graph == {}", "0 == len(graph)")]
    if not exits:
        chk.error("milp-empty-graph", fi.where, "early exit for an empty conflict graph not found")
    else:
        r = exits[0].body[-1]
        m = astq.match(r.value, "self.__make_dot_bracket(regions, X_)") if isinstance(r, ast.Return) and r.value is not None else None
        if not m:
            chk.error("milp-empty-graph", fi.site(exits[0]), "empty-graph exit does not return a notation built by the fill")
        else:
            x = inl.inline(m["X_"], r, stop=("regions",))
            chk.expect(zeros_of_regions(env, x, R), "milp-empty-graph", fi.site(r), "without crossings every region gets level 0", f"empty-graph exit assigns `{norm(x)}`, not level 0 to every region", K(fi, "empty-exit"), found=norm(x))
    check_bound(chk, fi, inl)
    # ---- sense --------------------------------------------------------------------------
    prob = astq.first_assign(fi.node, "problem")
    if isinstance(prob, ast.Call) and (astq.dotted(prob.func) or "").endswith("LpProblem"):
        sense = norm(prob.args[1]) if len(prob.args) > 1 else None
        for kw in prob.keywords:
            if kw.arg == "sense":
                sense = norm(kw.value)
        chk.expect(sense in ("pulp.LpMaximize", "LpMaximize", "-1"), "milp-sense", fi.site(prob), "the problem is a maximisation", f"problem sense is `{sense if sense else 'default (minimise)'}`, not LpMaximize", K(fi, "sense"), found=sense)
    else:
        chk.error("milp-sense", fi.where, "`problem = pulp.LpProblem(...)` not found")
    fmt_ok = check_variables(chk, fi, fm)
    check_objective(chk, fi, fm, inl)
    check_readback(chk, fi, fm, env, R, fmt_ok)
    rets = [r for r in fi.node.body if isinstance(r, ast.Return)]
    chk.expect(len(rets) == 1 and astq.match(rets[0].value, "self.__make_dot_bracket(regions, orders)") is not None, "milp-result", fi.where, "the result is the fill of (regions, orders)", "the optimal path does not return self.__make_dot_bracket(regions, orders)", K(fi, "result"))


def check_readback_guard_pinned(chk, fi: FuncInfo, fm: FlowMap) -> None:
    from checks import c13

    for rb in [n for n in ast.walk(fi.node) if isinstance(n, ast.Attribute) and n.attr == "varValue"]:
        st = fm.stmt_of(rb)
        fs = facts(fm.expr_guards(st, rb) or fm.of(st).guards)
        chk.expect(any(c13.is_optimal_fact(g) for g in fs), "milp-readback-optimal", fi.site(rb), "values are read only from an optimal solution", "variable values are read without the Optimal status test", K(fi, "readback-unguarded"))


def run(chk) -> None:
    chk.explanation = (
        "Symbolic reading of the PuLP model in convert_to_dot_bracket: conflict graph (truth table of the crossing test over all orderings, all pairs, both directions), level bound evaluated as a "
        "function of the maximum degree (1..12), category/bounds of every variable creation, sense, the objective coefficient of x[i,k] evaluated for levels 0..5 from whatever term sites there are "
        "(append loops or comprehensions, local helpers evaluated), the two constraint families after inlining temporaries, the roles of the name fields in the read-back, its Optimal guard; fill, regions and stems as in C01."
    )
    chk.trusted = ["CPython ast", "PuLP semantics of LpProblem/LpVariable/lpSum/+=", "the MILP solver returns a true optimum when status is Optimal", "Grundy argument: an optimal assignment never needs more than max degree + 1 levels"]
    chk.assumptions = ["valid BPSEQ", "solver integrality: varValue of a selected binary is exactly 1"]
    chk.robust |= ROBUST | c01.ROBUST
    repo = chk.repo
    fi = repo.func(MOD, "BpSeq.convert_to_dot_bracket")
    chk.note_function(fi)
    fm = FlowMap(fi.node)
    inl = Inliner(fi.node)
    c01.check_conflict_graph(chk, fi)

    from checks import c01e

    if c01.fact_first(chk, "milp-model", fi.where, c01e.model_fact(chk)):
        # values are consulted only after an optimal solve; a faulted solve leaves nothing behind that a later solve would return
        if not c01.fact_first(chk, "milp-readback-optimal", fi.where, c01e.unsolved_readback_fact(chk, "milp-readback-optimal")):
            check_readback_guard_pinned(chk, fi, fm)
    else:
        env, R = c01.regions_term(chk, fi)
        check_model_pinned(chk, fi, fm, inl, env, R)
        check_readback_guard_pinned(chk, fi, fm)
    # whatever is kept between calls (on the object or in the process) must not change what a later solve returns
    why = c01e.history_fact(chk, ("dot_bracket", "fcfs", "all_dot_brackets"), rule="milp-history", process=True)
    if why is not None:
        chk.ok("milp-history", "-", f"call histories not evaluable ({why[:120]})")
    c01.check_stems(chk)
    c01.check_regions(chk)
    c01.check_fill(chk)
    if not c01.decided(chk, "milp-model"):
        for rule, n in (("milp-objective-coeff", 1), ("milp-adjacency", 1), ("milp-one-level", 1), ("milp-bound", 1), ("milp-binary", 1), ("milp-readback", 2)):
            chk.floor(rule, n)
    if not c01.decided(chk, "conflict-graph:BpSeq.convert_to_dot_bracket"):
        chk.floor("conflict-predicate", 1)


MANIFEST_ENTRY = {
    "text": "The MILP built by convert_to_dot_bracket is extracted symbolically from the current source and shown equal to the reference model of the "
    "statement (all region pairs, edge iff arcs cross, binary x[i,k] over regions x levels, level bound >= max degree + 1, maximise +len on level 0 and "
    "-k*len above, exactly one level per region, adjacent regions never share a level, read-back under the Optimal test through the verified fill). "
    "Properness, 'never worse than FCFS', 'no stem movable lower' and 'nested => round brackets only' are corollaries of optimality of this model.",
    "note": "Trusted: the MILP solver returns a true optimum when it reports Optimal; PuLP API semantics; paper argument that Delta+1 levels suffice. Not decided: solver behaviour, floating-point integrality of varValue.",
    "technique": "static analysis: symbolic MILP model extraction - the model-building fragment is interpreted from the ast against a symbolic PuLP API model (sa/lpmodel.py: variables are symbols, arithmetic builds linear forms, nothing is solved) on every knotted order type of 2-3 arcs and six 4-stem shapes; each variable's meaning is taken from the program's own read-back (one-hot solutions); fallback: pattern reading of index sets, coefficients, constraint families and name-field roles",
}
