"""C12 - secondary-structure objects are pure: queries and derivations never change them.

A7 effect analysis: no method of BpSeq / DotBracket / MultiStrandDotBracket (other than the initialisers)
writes a location reachable from its receiver or arguments, directly or through a callee.  With no writes
there is nothing a cached answer could go stale against, so every interleaving of calls answers as a fresh
copy would.  Plus the two removal rules (regex class of without_pseudoknots, unpairing in without_isolated).
"""
from __future__ import annotations

import ast
from typing import Any, Dict, List

from checks import c01
from sa import astq
from sa.effects import Effects
from sa.flow import FlowMap, facts
from sa.model import AnalysisError, norm
from sa.sym import Aff, SymEnv, atom_of

MOD = "common"
CLASSES = ("BpSeq", "DotBracket", "MultiStrandDotBracket", "Strand", "Stem", "Entry", "SingleStrand", "Hairpin", "Loop")
K = c01.K


def run(chk) -> None:
    repo = chk.repo
    chk.explanation = (
        "Effect/alias analysis of every method of the secondary-structure classes in common.py: alias kinds (reachable / fresh container of shared "
        "elements / fresh) are propagated flow-insensitively through assignments, loops, comprehensions, copies and repo callees (summaries per "
        "argument-kind tuple); every attribute store, item store, del and mutator call whose base is reachable from the receiver or an argument is "
        "a report. Initialisers may write their own object. Also: without_pseudoknots' regex class = the 58 non-round bracket characters; "
        "without_isolated copies every Entry and unpairs exactly both ends of stems of length one."
    )
    chk.trusted = ["CPython ast", "functools.cached_property writes only its own slot", "external calls (pulp, graphviz, re) do not mutate BpSeq state"]
    chk.assumptions = ["callers outside the library do not mutate returned containers"]
    chk.robust |= {"receiver-write", "cache-introspection", "pk-class", "isolated-select", "isolated-unpair", "isolated-copy", "foreign-write", "derived-sequence", "history-independent", "derived-consistent", "isolated-result", "derived-structure"}
    check_effects(chk)
    # the removal rules, the "sequence unchanged" clause and call histories: evaluated (checks/c01e.py); pinned forms as the fallback
    from checks import c01e

    if not c01.fact_first(chk, "without-pseudoknots", repo.func(MOD, "BpSeq.without_pseudoknots").where, c01e.pseudoknots_fact(chk)):
        check_pseudoknots_pinned(chk)
    if not c01.fact_first(chk, "from-dotbracket", repo.func(MOD, "BpSeq.from_dotbracket").where, c01e.from_dotbracket_fact(chk, "derived-structure")):
        pass  # C01's L8 reads the pinned form
    if not c01.fact_first(chk, "without-isolated", repo.func(MOD, "BpSeq.without_isolated").where, c01e.isolated_fact(chk)):
        check_isolated_pinned(chk)
    if foreign_mutations(chk) == 0:
        chk.ok("foreign-write", "package", "no function outside common.py changes in place a container handed out by a BpSeq / DotBracket object")
    why = c01e.history_fact(chk, c01e.OBJECT_QUERIES, process=True, solver_change=True)
    if why is not None:
        chk.ok("history-independent", "-", f"call histories not evaluable ({why[:120]}); the effect analysis above is the decision")


def check_effects(chk) -> None:
    repo = chk.repo
    eng = Effects(repo)
    n_methods = 0
    for fi in sorted(repo.module(MOD).funcs.values(), key=lambda f: f.node.lineno):
        if fi.cls is None or fi.cls.name not in CLASSES or "<locals>" in fi.qualname:
            continue
        if fi.node.name in ("__init__", "__post_init__"):
            # initialisers may write self only
            writes, _ = eng.analyse(fi)
        else:
            writes, _ = eng.analyse(fi)
        n_methods += 1
        chk.note_function(fi)
        if not writes:
            chk.ok("receiver-write", fi.where, "no write to state reachable from the receiver or an argument")
        for w in writes:
            stmt = w.node
            chk.violation(
                "receiver-write",
                fi.site(stmt),
                f"{w.what}" + (f" (through {w.via})" if w.via else "") + ": a query/derivation changes the object it was called on (cached answers go stale)",
                key=f"{MOD}:{fi.qualname}:{norm(stmt)[:80]}",
            )
    chk.floor("receiver-write", 25)
    # ---- answers must not depend on which cached properties happen to be filled -------------------------------
    n_cls = 0
    for fi in sorted(repo.module(MOD).funcs.values(), key=lambda f: f.node.lineno):
        if fi.cls is None or fi.cls.name not in CLASSES:
            continue
        n_cls += 1
        for n in ast.walk(fi.node):
            hit = None
            if isinstance(n, ast.Attribute) and n.attr == "__dict__" and isinstance(n.value, ast.Name) and n.value.id == "self":
                hit = "self.__dict__"
            elif isinstance(n, ast.Call) and isinstance(n.func, ast.Name) and n.func.id == "vars" and n.args and norm(n.args[0]) == "self":
                hit = "vars(self)"
            if hit:
                chk.violation("cache-introspection", fi.site(n), f"`{hit}` is read: functools.cached_property keeps its answers there, so the result depends on which properties were asked for earlier - an interleaving of calls no longer answers like a fresh copy", key=f"{MOD}:{fi.qualname}:cache-introspection")
    chk.ok("cache-introspection", f"{n_cls} methods", "no method inspects the instance dictionary (the cached_property store)")



def check_pseudoknots_pinned(chk) -> None:
    repo = chk.repo
    # ---- without_pseudoknots ---------------------------------------------------------------
    wp = repo.func(MOD, "DotBracket.without_pseudoknots")
    chk.note_function(wp)
    from sa.consteval import Folder
    from sa.defuse import Inliner

    subs = astq.calls(wp.node, "sub")
    pat = Folder(repo, MOD).try_fold(Inliner(wp.node).inline(subs[0].args[0], FlowMap(wp.node).stmt_of(subs[0]))) if len(subs) == 1 and len(subs[0].args) == 3 else None
    if not isinstance(pat, str):
        chk.error("pk-class", wp.where, "re.sub(pattern, '.', self.structure) with a constant pattern not found")
    else:
        classes = c01.regex_classes(pat)
        want = set(c01.REF_OPEN[1:] + c01.REF_CLOSE[1:])
        chk.expect(
            len(classes) == 1 and classes[0] == want,
            "pk-class",
            wp.site(subs[0]),
            "exactly the 58 non-round bracket characters are replaced",
            "the characters replaced by without_pseudoknots are not exactly the 58 non-round bracket characters of the alphabet",
            K(wp, "class"),
            expected="".join(sorted(want)),
            found=["".join(sorted(c)) for c in classes],
        )
        chk.expect(
            isinstance(subs[0].args[1], ast.Constant) and subs[0].args[1].value == "." and astq.match(subs[0].args[2], "self.structure") is not None,
            "pk-replace",
            wp.site(subs[0]),
            "they are replaced by '.' in self.structure",
            "replacement is not '.' applied to self.structure",
            K(wp, "replace"),
        )
        rets = [r for r in ast.walk(wp.node) if isinstance(r, ast.Return)]
        chk.expect(
            len(rets) == 1 and (astq.match(rets[0].value, "DotBracket(self.sequence, structure)") is not None or astq.match(rets[0].value, "DotBracket.from_string(self.sequence, structure)") is not None),
            "pk-result",
            wp.where,
            "result keeps self.sequence",
            "result is not DotBracket(self.sequence, <replaced structure>)",
            K(wp, "result"),
        )
    bwp = repo.func(MOD, "BpSeq.without_pseudoknots")
    chk.note_function(bwp)
    rets = [r for r in ast.walk(bwp.node) if isinstance(r, ast.Return)]
    chk.expect(
        len(rets) == 1 and astq.match(Inliner(bwp.node).inline(rets[0].value, rets[0]), "BpSeq.from_dotbracket(self.dot_bracket.without_pseudoknots())") is not None,
        "pk-via-dotbracket",
        bwp.where,
        "pairs kept = pairs the structure's own dot-bracket writes with round brackets",
        "BpSeq.without_pseudoknots is not from_dotbracket(self.dot_bracket.without_pseudoknots())",
        K(bwp, "result"),
    )



def check_isolated_pinned(chk) -> None:
    repo = chk.repo
    from sa.defuse import Inliner

    # ---- without_isolated -------------------------------------------------------------------
    wi = repo.func(MOD, "BpSeq.without_isolated")
    chk.note_function(wi)
    fm = FlowMap(wi.node)
    env = SymEnv(wi.node)
    inl = Inliner(wi.node)
    # every `entries[IDX].pair = 0`, traced back to (index expression over a stem, condition on the stem)
    def stems_source(it: ast.AST, at) -> bool:
        e = inl.inline(it, at, stop=("self",))
        return norm(e) in ("self.elements[0]",) or atom_of(env.ev(it)) == ("item", 0, ("attr", "elements", ("param", "self")))

    ISO = lambda x: (f"{x}.strand5p.first == {x}.strand5p.last", f"{x}.strand5p.last == {x}.strand5p.first", f"{x}.strand3p.first == {x}.strand3p.last", f"{x}.strand3p.last == {x}.strand3p.first")
    selected = []  # (index text with STEM, ok-condition?)
    problems = []
    unp = [s2 for s2 in ast.walk(wi.node) if isinstance(s2, ast.Assign) and astq.match(s2, "entries[I_].pair = 0") is not None]
    for u in unp:
        idx = astq.match(u, "entries[I_].pair = 0")["I_"]
        lp = fm.of(u).loops
        if len(lp) != 1 or not isinstance(lp[0].target, ast.Name) or fm.guards_within(u, lp[0]):
            problems.append(f"`{norm(u)}` is not in one unguarded loop")
            continue
        v = lp[0].target.id
        src = lp[0].iter
        srcd = inl.reaching(src.id, lp[0]) if isinstance(src, ast.Name) else None
        if norm(idx) == v and isinstance(src, ast.Name):
            # form (a): positions collected earlier
            apps = [c for c in astq.calls(wi.node, "append") if astq.dotted(c.func.value) == src.id and c.args]
            for a in apps:
                st = fm.stmt_of(a)
                sl = [l for l in fm.of(st).loops]
                if len(sl) != 1 or not isinstance(sl[0].target, ast.Name) or not stems_source(sl[0].iter, sl[0]):
                    problems.append(f"`{norm(a)}` is not inside one loop over the stems")
                    continue
                x = sl[0].target.id
                g = facts(fm.guards_within(st, sl[0]))
                cond_ok = len(g) == 1 and g[0].polarity and norm(g[0].test) in ISO(x)
                if any(isinstance(n, (ast.Break, ast.Continue)) for b in sl[0].body for n in ast.walk(b)):
                    cond_ok = False
                selected.append((norm(a.args[0]).replace(x + ".", "STEM."), cond_ok, [norm(t.test) for t in g]))
        elif isinstance(srcd, (ast.ListComp, ast.GeneratorExp)) and len(srcd.generators) == 1 and isinstance(srcd.generators[0].target, ast.Name):
            # form (b): loop over the isolated stems themselves
            gx = srcd.generators[0]
            x = gx.target.id
            cond_ok = norm(srcd.elt) == x and stems_source(gx.iter, inl.stmt_of_value(srcd) or lp[0]) and len(gx.ifs) == 1 and norm(gx.ifs[0]) in ISO(x)
            selected.append((norm(idx).replace(v + ".", "STEM."), cond_ok, [norm(c2) for c2 in gx.ifs]))
        else:
            problems.append(f"source `{norm(src)}` of the unpairing loop not understood")
    want = {"STEM.strand5p.first - 1", "STEM.strand3p.first - 1"}
    if problems or not selected:
        chk.error("isolated-select", wi.where, "selection idiom not recognised: " + "; ".join(problems[:2] or ["no `entries[i].pair = 0` found"]))
    else:
        got = {t for t, ok2, g in selected}
        conds_ok = all(ok2 for t, ok2, g in selected)
        if got != want:
            chk.violation("isolated-select", wi.where, f"the positions unpaired are {sorted(got)} of a stem, not both of its ends (strand5p.first - 1 and strand3p.first - 1): an isolated pair is left half-paired or a wrong nucleotide is unpaired", K(wi, "select"), expected=sorted(want), found=sorted(got))
        elif not conds_ok:
            chk.violation("isolated-select", wi.where, f"positions are selected under {[g for t, ok2, g in selected]}, not exactly for the stems of length one (first == last)", K(wi, "select-cond"), found=[g for t, ok2, g in selected])
        else:
            chk.ok("isolated-select", wi.where, "both ends (0-based) of every stem of length one are selected for unpairing")
    # entries: fresh Entry per entry
    e_def = astq.first_assign(wi.node, "entries")
    fresh = False
    if isinstance(e_def, ast.ListComp) and len(e_def.generators) == 1 and not e_def.generators[0].ifs and astq.match(e_def.generators[0].iter, "self.entries") is not None:
        t = e_def.generators[0].target
        if isinstance(t, ast.Name):
            x = t.id
            fresh = astq.match(e_def.elt, f"Entry({x}.index_, {x}.sequence, {x}.pair)") is not None or astq.match(e_def.elt, f"Entry(*{x})") is not None or astq.match(e_def.elt, f"copy.copy({x})") is not None or astq.match(e_def.elt, f"dataclasses.replace({x})") is not None or astq.match(e_def.elt, f"replace({x})") is not None
    elif e_def is not None and astq.match(e_def, "copy.deepcopy(self.entries)") is not None:
        fresh = True
    chk.expect(
        fresh,
        "isolated-copy",
        wi.where,
        "the derived structure gets its own Entry objects with the same index, sequence and pair",
        "without_isolated does not build a field-by-field copy of every entry",
        K(wi, "copy"),
        found=norm(e_def) if e_def is not None else None,
    )
    chk.expect(bool(unp) and not problems, "isolated-unpair", wi.where, "every selected position gets pair = 0", "not every selected position is set to pair = 0 (and nothing else)", K(wi, "unpair"))
    rets = [r for r in astq.walk_no_nested(wi.node) if isinstance(r, ast.Return)]
    r_ok = all(r.value is not None and (astq.match(r.value, "self") is not None or astq.match(r.value, "BpSeq(entries)") is not None) for r in rets) and any(astq.match(r.value, "BpSeq(entries)") is not None for r in rets)
    for r in rets:
        if astq.match(r.value, "self") is not None:
            g = facts(fm.of(r).guards)
            def empty_fact(x):
                t = norm(x.test)
                for nm in ("to_unpair", "isolated"):
                    if (t == nm and x.polarity is False) or (t in (f"not {nm}", f"len({nm}) == 0") and x.polarity) or (t in (f"len({nm}) > 0", f"len({nm}) != 0") and x.polarity is False):
                        return True
                return False

            r_ok = r_ok and any(empty_fact(x) for x in g)
    chk.expect(r_ok, "isolated-result", wi.where, "returns BpSeq(entries), or self when nothing is isolated", "result is not BpSeq(<copied entries>) / self only when nothing is to unpair", K(wi, "result"))


def run_thorough(chk) -> None:
    """Package-wide: nobody outside common.py writes BpSeq/DotBracket state either."""
    repo = chk.repo
    n = 0
    for fi in repo.all_funcs():
        if fi.module.name == MOD:
            continue
        for node in ast.walk(fi.node):
            tgt = None
            if isinstance(node, ast.Assign):
                tgt = node.targets
            elif isinstance(node, ast.AugAssign):
                tgt = [node.target]
            for t in tgt or []:
                if isinstance(t, ast.Attribute) and t.attr in ("pair", "index_") or (isinstance(t, ast.Attribute) and t.attr in ("entries", "pairs", "structure") and "bpseq" in norm(t.value).lower()):
                    chk.violation("foreign-write", fi.site(node), f"`{norm(node)[:70]}` writes secondary-structure state from outside common.py", key=f"{fi.module.name}:{fi.qualname}:{norm(node)[:60]}")
                    n += 1
    chk.ok("foreign-write", "package", f"{len(list(repo.all_funcs()))} functions scanned: no store to Entry.pair/index_ or BpSeq/DotBracket fields outside common.py")
    # fixture controls: the analysis must fire on the bad twin and stay silent on the good one
    import os

    from sa.model import Repo
    from sa.report import VERIF

    fx = os.path.join(VERIF, "fixtures", "c12")
    if os.path.isdir(fx):
        frepo = Repo(fx)
        eng = Effects(frepo)
        bad = [fi for fi in frepo.module("purity").funcs.values() if fi.node.name.startswith("bad_")]
        good = [fi for fi in frepo.module("purity").funcs.values() if fi.node.name.startswith("ok_")]
        for fi in bad:
            w, _ = eng.analyse(fi)
            if w:
                chk.ok("fixture-control", f"fixtures/c12 {fi.qualname}", "firing example reported")
            else:
                chk.error("fixture-control", f"fixtures/c12 {fi.qualname}", "firing example NOT reported: the effect analysis lost an alias")
        for fi in good:
            w, _ = eng.analyse(fi)
            if w:
                chk.error("fixture-control", f"fixtures/c12 {fi.qualname}", f"silent twin reported: {w[0].what}")
            else:
                chk.ok("fixture-control", f"fixtures/c12 {fi.qualname}", "silent twin not reported")


MANIFEST_ENTRY = {
    "text": "Effect/alias analysis over the current source of common.py proves the frame condition for every method of BpSeq, DotBracket, MultiStrandDotBracket, "
    "Strand, Stem, Entry and the element classes: no attribute store, item store, del or mutator call reaches state of the receiver or an argument, directly or "
    "through repo callees (aliases through copy()/list()/slices/sorted/filter/comprehensions/constructors are tracked as 'fresh container, shared elements'). "
    "With no writes, any interleaving of calls equals fresh evaluation - a statement about all call histories, which no test sequence can give. The two removal "
    "rules are decided structurally.",
    "note": "Trusted: cached_property only fills its own slot; external libraries do not write BpSeq state. The equality 'pairs written with round brackets' leans on C01/C02.",
    "technique": "static analysis: interprocedural effect and may-alias analysis (container freshness vs element sharing) over the ast + truth tables over finite partitions (removal rules on every set of pairs over <= 6 residues; every ordered pair of queries on one object vs a fresh copy), fragments interpreted from the ast",
}


# containers a secondary-structure object hands out (fields and cached answers): nobody may change them in place
HANDED_OUT = {
    "BpSeq": ("entries", "pairs", "elements", "all_dot_brackets"),
    "DotBracket": ("pairs",),
    "MultiStrandDotBracket": ("pairs", "strands"),
}
_MUTATORS = ("append", "extend", "insert", "remove", "pop", "clear", "sort", "reverse", "add", "discard", "update", "setdefault", "popitem")


def foreign_mutations(chk, rule: str = "foreign-write", members=None) -> int:
    """A function outside common.py that changes, in place, a container it got from a BpSeq / DotBracket object (a field or a
    cached answer such as all_dot_brackets): the object keeps answering with the changed container.  The receiver is recognised
    by its inferred type, or by being reached through an attribute / name that says bpseq / dot_bracket."""
    repo = chk.repo
    names = set(members) if members else {m for ms in HANDED_OUT.values() for m in ms}
    try:
        from sa.types import Types

        ty = Types(repo)
    except Exception:
        ty = None
    n = 0
    cache: Dict[str, Any] = {}

    def is_structure(fi, e: ast.AST) -> bool:
        t = norm(e).lower()
        if "bpseq" in t or "dot_bracket" in t or "dotbracket" in t:
            return True
        if ty is not None:
            try:
                from sa.types import FuncTypes

                ft = cache.get(fi.qualname + "@" + fi.module.name)
                if ft is None:
                    ft = cache[fi.qualname + "@" + fi.module.name] = FuncTypes(ty, fi)
                tt = ft.of(e)
                return isinstance(tt, tuple) and tt[0] == "cls" and tt[2] in HANDED_OUT
            except Exception:
                return False
        return False

    for fi in repo.all_funcs():
        if fi.module.name == MOD:
            continue
        handed: Dict[str, ast.AST] = {}
        for st, val in [(s, v) for nm in {x.id for x in ast.walk(fi.node) if isinstance(x, ast.Name)} for s, v in astq.assignments(fi.node, nm)]:
            if isinstance(st, ast.Assign) and len(st.targets) == 1 and isinstance(st.targets[0], ast.Name) and isinstance(val, ast.Attribute) and val.attr in names and is_structure(fi, val.value):
                handed[st.targets[0].id] = val
        for c in ast.walk(fi.node):
            tgt = None
            if isinstance(c, ast.Call) and isinstance(c.func, ast.Attribute) and c.func.attr in _MUTATORS:
                tgt = c.func.value
            elif isinstance(c, (ast.Assign, ast.AugAssign, ast.Delete)):
                ts = c.targets if isinstance(c, (ast.Assign, ast.Delete)) else [c.target]
                for t in ts:
                    if isinstance(t, ast.Subscript):
                        tgt = t.value
            if tgt is None:
                continue
            src = None
            if isinstance(tgt, ast.Name) and tgt.id in handed:
                src = handed[tgt.id]
            elif isinstance(tgt, ast.Attribute) and tgt.attr in names and is_structure(fi, tgt.value):
                src = tgt
            if src is not None:
                n += 1
                chk.violation(rule, fi.site(c), f"`{norm(c)[:70]}` changes in place the container handed out by `{norm(src)}`" + (" (a cached answer: the object keeps answering with the changed list)" if src.attr in ("all_dot_brackets", "elements") else "") + ": a consumer must work on its own copy", key=f"{fi.module.name}:{fi.qualname}:{norm(c)[:60]}")
    return n
