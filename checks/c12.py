"""C12 - secondary-structure objects are pure: queries and derivations never change them.

A7 effect analysis: no method of BpSeq / DotBracket / MultiStrandDotBracket (other than the initialisers)
writes a location reachable from its receiver or arguments, directly or through a callee.  With no writes
there is nothing a cached answer could go stale against, so every interleaving of calls answers as a fresh
copy would.  Plus the two removal rules (regex class of without_pseudoknots, unpairing in without_isolated).
"""
from __future__ import annotations

import ast
from typing import List

from checks import c01
from sa import astq
from sa.effects import Effects
from sa.flow import FlowMap, facts
from sa.model import AnalysisError, norm
from sa.sym import Aff, SymEnv, atom_of

MOD = "common"
CLASSES = ("BpSeq", "DotBracket", "MultiStrandDotBracket", "Strand", "Stem", "Entry", "SingleStrand", "Hairpin", "Loop")
K = c01.K


def run(chk) -> None:
    repo = chk.repo
    chk.explanation = (
        "Effect/alias analysis of every method of the secondary-structure classes in common.py: alias kinds (reachable / fresh container of shared "
        "elements / fresh) are propagated flow-insensitively through assignments, loops, comprehensions, copies and repo callees (summaries per "
        "argument-kind tuple); every attribute store, item store, del and mutator call whose base is reachable from the receiver or an argument is "
        "a report. Initialisers may write their own object. Also: without_pseudoknots' regex class = the 58 non-round bracket characters; "
        "without_isolated copies every Entry and unpairs exactly both ends of stems of length one."
    )
    chk.trusted = ["CPython ast", "functools.cached_property writes only its own slot", "external calls (pulp, graphviz, re) do not mutate BpSeq state"]
    chk.assumptions = ["callers outside the library do not mutate returned containers"]
    eng = Effects(repo)
    n_methods = 0
    for fi in sorted(repo.module(MOD).funcs.values(), key=lambda f: f.node.lineno):
        if fi.cls is None or fi.cls.name not in CLASSES or "<locals>" in fi.qualname:
            continue
        if fi.node.name in ("__init__", "__post_init__"):
            # initialisers may write self only
            writes, _ = eng.analyse(fi)
        else:
            writes, _ = eng.analyse(fi)
        n_methods += 1
        chk.note_function(fi)
        if not writes:
            chk.ok("receiver-write", fi.where, "no write to state reachable from the receiver or an argument")
        for w in writes:
            stmt = w.node
            chk.violation(
                "receiver-write",
                fi.site(stmt),
                f"{w.what}" + (f" (through {w.via})" if w.via else "") + ": a query/derivation changes the object it was called on (cached answers go stale)",
                key=f"{MOD}:{fi.qualname}:{norm(stmt)[:80]}",
            )
    chk.floor("receiver-write", 25)

    # ---- without_pseudoknots ---------------------------------------------------------------
    wp = repo.func(MOD, "DotBracket.without_pseudoknots")
    chk.note_function(wp)
    subs = astq.calls(wp.node, "sub")
    if len(subs) != 1 or len(subs[0].args) != 3 or not isinstance(subs[0].args[0], ast.Constant):
        chk.error("pk-class", wp.where, "re.sub(pattern, '.', self.structure) not found")
    else:
        classes = c01.regex_classes(subs[0].args[0].value)
        want = set(c01.REF_OPEN[1:] + c01.REF_CLOSE[1:])
        chk.expect(
            len(classes) == 1 and classes[0] == want,
            "pk-class",
            wp.site(subs[0]),
            "exactly the 58 non-round bracket characters are replaced",
            "the characters replaced by without_pseudoknots are not exactly the 58 non-round bracket characters of the alphabet",
            K(wp, "class"),
            expected="".join(sorted(want)),
            found=["".join(sorted(c)) for c in classes],
        )
        chk.expect(
            isinstance(subs[0].args[1], ast.Constant) and subs[0].args[1].value == "." and astq.match(subs[0].args[2], "self.structure") is not None,
            "pk-replace",
            wp.site(subs[0]),
            "they are replaced by '.' in self.structure",
            "replacement is not '.' applied to self.structure",
            K(wp, "replace"),
        )
        rets = [r for r in ast.walk(wp.node) if isinstance(r, ast.Return)]
        chk.expect(
            len(rets) == 1 and (astq.match(rets[0].value, "DotBracket(self.sequence, structure)") is not None or astq.match(rets[0].value, "DotBracket.from_string(self.sequence, structure)") is not None),
            "pk-result",
            wp.where,
            "result keeps self.sequence",
            "result is not DotBracket(self.sequence, <replaced structure>)",
            K(wp, "result"),
        )
    bwp = repo.func(MOD, "BpSeq.without_pseudoknots")
    chk.note_function(bwp)
    rets = [r for r in ast.walk(bwp.node) if isinstance(r, ast.Return)]
    chk.expect(
        len(rets) == 1 and astq.match(rets[0].value, "BpSeq.from_dotbracket(self.dot_bracket.without_pseudoknots())") is not None,
        "pk-via-dotbracket",
        bwp.where,
        "pairs kept = pairs the structure's own dot-bracket writes with round brackets",
        "BpSeq.without_pseudoknots is not from_dotbracket(self.dot_bracket.without_pseudoknots())",
        K(bwp, "result"),
    )

    # ---- without_isolated -------------------------------------------------------------------
    wi = repo.func(MOD, "BpSeq.without_isolated")
    chk.note_function(wi)
    fm = FlowMap(wi.node)
    env = SymEnv(wi.node)
    loops = [l for l in wi.node.body if isinstance(l, ast.For)]
    apps = [c for c in astq.calls(wi.node, "append") if astq.dotted(c.func.value) == "to_unpair"]
    stem_loop = [l for l in loops if any(any(a is n for n in ast.walk(l)) for a in apps)]
    ok = False
    found = [norm(a) for a in apps]
    if len(stem_loop) == 1 and isinstance(stem_loop[0].target, ast.Name) and len(apps) == 2:
        s = stem_loop[0].target.id
        src = atom_of(env.ev(stem_loop[0].iter))
        src_ok = src == ("item", 0, ("attr", "elements", ("param", "self")))
        e2 = env.with_(**{s: Aff.of(("STEM",))})
        vals = {e2.ev(a.args[0]) for a in apps}
        want = {Aff.of(("attr", "first", ("attr", "strand5p", ("STEM",)))) - Aff.c(1), Aff.of(("attr", "first", ("attr", "strand3p", ("STEM",)))) - Aff.c(1)}
        guards = [facts(fm.guards_within(fm.stmt_of(a), stem_loop[0])) for a in apps]
        g_ok = all(len(g) == 1 and g[0].polarity and norm(g[0].test) in (f"{s}.strand5p.first == {s}.strand5p.last", f"{s}.strand5p.last == {s}.strand5p.first", f"{s}.strand3p.first == {s}.strand3p.last") for g in guards)
        skip = [n for st in stem_loop[0].body for n in ast.walk(st) if isinstance(n, (ast.Break, ast.Continue))]
        ok = src_ok and vals == want and g_ok and not skip
    if not (len(stem_loop) == 1 and len(apps) == 2):
        chk.error("isolated-select", wi.where, "selection idiom not recognised (expected one loop over the stems appending both ends to to_unpair)")
    else:
      chk.expect(
        ok,
        "isolated-select",
        wi.where,
        "both ends (0-based) of every stem of length one are selected for unpairing",
        "the positions to unpair are not exactly strand5p.first-1 and strand3p.first-1 of every stem with first == last",
        K(wi, "select"),
        found=found,
      )
    # entries: fresh Entry per entry
    e_def = astq.first_assign(wi.node, "entries")
    fresh = False
    if isinstance(e_def, ast.ListComp) and len(e_def.generators) == 1 and not e_def.generators[0].ifs and astq.match(e_def.generators[0].iter, "self.entries") is not None:
        t = e_def.generators[0].target
        if isinstance(t, ast.Name):
            x = t.id
            fresh = astq.match(e_def.elt, f"Entry({x}.index_, {x}.sequence, {x}.pair)") is not None or astq.match(e_def.elt, f"Entry(*{x})") is not None or astq.match(e_def.elt, f"copy.copy({x})") is not None or astq.match(e_def.elt, f"dataclasses.replace({x})") is not None or astq.match(e_def.elt, f"replace({x})") is not None
    elif e_def is not None and astq.match(e_def, "copy.deepcopy(self.entries)") is not None:
        fresh = True
    chk.expect(
        fresh,
        "isolated-copy",
        wi.where,
        "the derived structure gets its own Entry objects with the same index, sequence and pair",
        "without_isolated does not build a field-by-field copy of every entry",
        K(wi, "copy"),
        found=norm(e_def) if e_def is not None else None,
    )
    unp = [s for s in ast.walk(wi.node) if isinstance(s, ast.Assign) and astq.match(s, "entries[I_].pair = 0") is not None]
    ok = False
    if len(unp) == 1:
        lp = fm.of(unp[0]).loops
        ok = len(lp) == 1 and astq.match(lp[0].iter, "to_unpair") is not None and norm(lp[0].target) == norm(astq.match(unp[0], "entries[I_].pair = 0")["I_"]) and not fm.guards_within(unp[0], lp[0])
    chk.expect(ok, "isolated-unpair", wi.where, "every selected position gets pair = 0", "not every selected position is set to pair = 0 (and nothing else)", K(wi, "unpair"))
    rets = [r for r in astq.walk_no_nested(wi.node) if isinstance(r, ast.Return)]
    r_ok = all(r.value is not None and (astq.match(r.value, "self") is not None or astq.match(r.value, "BpSeq(entries)") is not None) for r in rets) and any(astq.match(r.value, "BpSeq(entries)") is not None for r in rets)
    for r in rets:
        if astq.match(r.value, "self") is not None:
            g = facts(fm.of(r).guards)
            r_ok = r_ok and any(norm(x.test) == "to_unpair" and x.polarity is False or norm(x.test) == "not to_unpair" and x.polarity for x in g)
    chk.expect(r_ok, "isolated-result", wi.where, "returns BpSeq(entries), or self when nothing is isolated", "result is not BpSeq(<copied entries>) / self only when nothing is to unpair", K(wi, "result"))


def run_thorough(chk) -> None:
    """Package-wide: nobody outside common.py writes BpSeq/DotBracket state either."""
    repo = chk.repo
    n = 0
    for fi in repo.all_funcs():
        if fi.module.name == MOD:
            continue
        for node in ast.walk(fi.node):
            tgt = None
            if isinstance(node, ast.Assign):
                tgt = node.targets
            elif isinstance(node, ast.AugAssign):
                tgt = [node.target]
            for t in tgt or []:
                if isinstance(t, ast.Attribute) and t.attr in ("pair", "index_") or (isinstance(t, ast.Attribute) and t.attr in ("entries", "pairs", "structure") and "bpseq" in norm(t.value).lower()):
                    chk.violation("foreign-write", fi.site(node), f"`{norm(node)[:70]}` writes secondary-structure state from outside common.py", key=f"{fi.module.name}:{fi.qualname}:{norm(node)[:60]}")
                    n += 1
    chk.ok("foreign-write", "package", f"{len(list(repo.all_funcs()))} functions scanned: no store to Entry.pair/index_ or BpSeq/DotBracket fields outside common.py")
    # fixture controls: the analysis must fire on the bad twin and stay silent on the good one
    import os

    from sa.model import Repo
    from sa.report import VERIF

    fx = os.path.join(VERIF, "fixtures", "c12")
    if os.path.isdir(fx):
        frepo = Repo(fx)
        eng = Effects(frepo)
        bad = [fi for fi in frepo.module("purity").funcs.values() if fi.node.name.startswith("bad_")]
        good = [fi for fi in frepo.module("purity").funcs.values() if fi.node.name.startswith("ok_")]
        for fi in bad:
            w, _ = eng.analyse(fi)
            if w:
                chk.ok("fixture-control", f"fixtures/c12 {fi.qualname}", "firing example reported")
            else:
                chk.error("fixture-control", f"fixtures/c12 {fi.qualname}", "firing example NOT reported: the effect analysis lost an alias")
        for fi in good:
            w, _ = eng.analyse(fi)
            if w:
                chk.error("fixture-control", f"fixtures/c12 {fi.qualname}", f"silent twin reported: {w[0].what}")
            else:
                chk.ok("fixture-control", f"fixtures/c12 {fi.qualname}", "silent twin not reported")


MANIFEST_ENTRY = {
    "text": "Effect/alias analysis over the current source of common.py proves the frame condition for every method of BpSeq, DotBracket, MultiStrandDotBracket, "
    "Strand, Stem, Entry and the element classes: no attribute store, item store, del or mutator call reaches state of the receiver or an argument, directly or "
    "through repo callees (aliases through copy()/list()/slices/sorted/filter/comprehensions/constructors are tracked as 'fresh container, shared elements'). "
    "With no writes, any interleaving of calls equals fresh evaluation - a statement about all call histories, which no test sequence can give. The two removal "
    "rules are decided structurally.",
    "note": "Trusted: cached_property only fills its own slot; external libraries do not write BpSeq state. The equality 'pairs written with round brackets' leans on C01/C02.",
    "technique": "static analysis: interprocedural effect and may-alias analysis (container freshness vs element sharing) over the ast",
}
