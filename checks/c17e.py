"""C17 - fact-level (evidence) rules: clashfinder.find_clashes and clashfinder.main decided on input-class representatives.

The pinned-form rules of checks/c17.py compare statements with the text they have at the reference commit.  The rules
here decide the same behaviour from facts computed on the current code, whatever its statement shape (DESIGN 1.2 item 4:
evaluation of an extracted fragment on one representative per class of its finite input partition; nothing of the
library is imported or run - the statements are read from the ast and interpreted by sa/blockeval + sa/consteval with
rule-supplied stubs for atoms, residues, the Enum of atom types, the KD-tree (modelled as 'every pair within the radius,
once'), numpy's norm, argparse, open, csv and print):

  find_clashes   one synthetic structure made of well separated two-atom clusters - one cluster per class of
                 (type pair x distance cell) and of (same/different residue x nucleotide flags x equal/different names x
                 occupancy class x distance cell) - evaluated for all 32 option combinations and compared with the
                 pairwise van-der-Waals definition; every atomic condition met during the evaluation must be a function
                 of one feature of the definition (closed world: nothing else may skip a pair)
  main           the whole function evaluated on a representative clash list (file order of the residues both equal and
                 opposite to their sort order, several records per group, maxima not at the end) with tokens standing
                 for chains, residues and atom names: listed atom lines / CSV rows = the clashes, every atom attributed
                 to its own residue (key and record of a filed clash agree on orientation), printed maxima = maxima of
                 the lines listed below the heading, report and CSV in the same order, nothing depends on the iteration
                 order of a set
"""
from __future__ import annotations

import ast
import itertools
import math
import os
import re
import types
from typing import Any, Callable, Dict, List, Optional, Sequence, Tuple

from sa.blockeval import BASE, BlockEval, Unknown, _Stop
from sa.consteval import Folder, NotConst
from sa.model import norm

M = "clashfinder"
OPTIONS = ("ignore_occupancy", "ignore_autoclashes", "nucleic_acid_only", "require_same_atom_name", "enable_molprobity_mode")


class Raised(Exception):
    """The evaluated code raises on a representative (explicit `raise`, or KeyError/IndexError/... of an interpreted operation)."""

    def __init__(self, what: str, node: Optional[ast.AST] = None):
        super().__init__(what)
        self.what, self.node = what, node


PROGRAM_ERRORS = (KeyError, IndexError, ZeroDivisionError, ValueError, StopIteration)


class Exit(Exception):
    """sys.exit / exit called by the evaluated code: the evaluation ends normally."""


# =====================================================================================================================
# stubs


class Stub:
    _folder_stub = True
    _blockeval_container = False


class Vec(Stub):
    """3-vector standing for a numpy array of coordinates."""

    def __init__(self, xs, atom=None):
        self.xs = tuple(float(x) for x in xs)
        self.atom = atom

    def _zip(self, o, f):
        if isinstance(o, Vec):
            return Vec([f(a, b) for a, b in zip(self.xs, o.xs)])
        if isinstance(o, (int, float)):
            return Vec([f(a, o) for a in self.xs])
        return NotImplemented

    def __sub__(self, o):
        return self._zip(o, lambda a, b: a - b)

    def __rsub__(self, o):
        return self._zip(o, lambda a, b: b - a)

    def __add__(self, o):
        return self._zip(o, lambda a, b: a + b)

    __radd__ = __add__

    def __mul__(self, o):
        return self._zip(o, lambda a, b: a * b)

    __rmul__ = __mul__

    def __truediv__(self, o):
        return self._zip(o, lambda a, b: a / b)

    def __pow__(self, o):
        return self._zip(o, lambda a, b: a**b)

    def __neg__(self):
        return Vec([-a for a in self.xs])

    def __iter__(self):
        return iter(self.xs)

    def __len__(self):
        return len(self.xs)

    def __getitem__(self, i):
        return self.xs[i]

    def sum(self):
        return sum(self.xs)

    def dot(self, o):
        return sum(a * b for a, b in zip(self.xs, o.xs))

    def __repr__(self):
        return f"Vec{self.xs}"


def _norm(v):
    if isinstance(v, Vec):
        return math.sqrt(sum(a * a for a in v.xs))
    if isinstance(v, (int, float)):
        return abs(v)
    if isinstance(v, (list, tuple)) and all(isinstance(a, (int, float)) for a in v):
        return math.sqrt(sum(a * a for a in v))
    raise NotConst("norm of a non-vector")


def _as_vec(p):
    if isinstance(p, Vec):
        return p
    if isinstance(p, (list, tuple)) and len(p) == 3 and all(isinstance(a, (int, float)) for a in p):
        return Vec(p)
    raise NotConst("KD-tree point is not a coordinate vector")


def np_stub():
    ns = types.SimpleNamespace
    return ns(
        _folder_stub=True,
        linalg=ns(_folder_stub=True, norm=_norm),
        array=lambda x: _as_vec(x) if not isinstance(x, Vec) else x,
        asarray=lambda x: _as_vec(x) if not isinstance(x, Vec) else x,
        sqrt=lambda x: math.sqrt(x),
        sum=lambda x: sum(x),
        dot=lambda a, b: a.dot(b),
        abs=lambda x: abs(x),
    )


class PairIdx(tuple):
    """(i, j) returned by the KD-tree model; remembers the two points it stands for."""

    atoms: Tuple[Any, Any] = (None, None)


class KDTreeModel(Stub):
    """scipy.spatial.KDTree as trusted: query_pairs(r) = every pair i < j of points at distance <= r, exactly once."""

    def __init__(self, log: List[float]):
        self.log = log

    def __call__(self, points, *a, **k):
        t = KDTreeModel(self.log)
        t.points = [_as_vec(p) for p in points]
        return t

    def query_pairs(self, r, *a, **k):
        if not isinstance(r, (int, float)) or isinstance(r, bool):
            raise NotConst("KD-tree radius is not a number")
        self.log.append(float(r))
        pts = self.points
        order = sorted(range(len(pts)), key=lambda i: pts[i].xs[0])
        out = []
        for a_, i in enumerate(order):
            for j in order[a_ + 1 :]:
                if pts[j].xs[0] - pts[i].xs[0] > r:
                    break
                if _norm(pts[i] - pts[j]) <= r:
                    p = PairIdx((min(i, j), max(i, j)))
                    p.atoms = (pts[p[0]].atom, pts[p[1]].atom)
                    out.append(p)
        out.sort()
        return out


_serial = itertools.count(1)


class AtomS(Stub):
    def __init__(self, name: str, xyz=(0.0, 0.0, 0.0), occupancy=None, token: Optional[str] = None):
        self.name = name
        self.coordinates = Vec(xyz, self)
        self.x, self.y, self.z = self.coordinates.xs
        self.occupancy = occupancy
        self.owner: Any = None
        self.cluster: Any = None
        self.k = next(_serial)
        self.token = token or name

    def __lt__(self, o):
        return (self.owner.sortkey if self.owner else (), self.name, self.k) < (o.owner.sortkey if o.owner else (), o.name, o.k)

    def __hash__(self):
        return self.k

    def __repr__(self):
        return f"<atom {self.token} of {self.owner}>"


class ResidueS(Stub):
    def __init__(self, chain: str, number: int, atoms: Sequence[AtomS], is_nucleotide: bool = True, token: Optional[str] = None):
        self.chain, self.number, self.icode, self.name = chain, number, None, "G"
        self.atoms = tuple(atoms)
        self.is_nucleotide = is_nucleotide
        self.k = next(_serial)
        self.token = token or f"{chain}.{number}"
        self.sortkey = (chain, number)
        for a in self.atoms:
            a.owner = self

    def __lt__(self, o):
        return self.sortkey < o.sortkey

    def __le__(self, o):
        return self.sortkey <= o.sortkey

    def __gt__(self, o):
        return self.sortkey > o.sortkey

    def __ge__(self, o):
        return self.sortkey >= o.sortkey

    def __hash__(self):
        return self.k

    def __str__(self):
        return self.token

    __repr__ = __str__


class SetS(Stub):
    """A set whose iteration order is chosen by the rule (insertion order or its reverse): facts must not depend on it."""

    _blockeval_container = True
    reverse = False

    def __init__(self, items=()):
        self.items: List[Any] = []
        for x in items:
            self.add(x)

    def add(self, x):
        if x not in self.items:
            self.items.append(x)

    def update(self, xs):
        for x in xs:
            self.add(x)

    def discard(self, x):
        if x in self.items:
            self.items.remove(x)

    def remove(self, x):
        if x not in self.items:
            raise KeyError(x)
        self.items.remove(x)

    def __contains__(self, x):
        return x in self.items

    def __len__(self):
        return len(self.items)

    def __iter__(self):
        return iter(list(reversed(self.items)) if SetS.reverse else list(self.items))

    def __bool__(self):
        return bool(self.items)

    def __repr__(self):
        return f"set({self.items})"


class MemberS(Stub):
    """A member of an Enum class of the analysed module: name, value, and the properties / methods of the class body
    evaluated on demand with self = this member."""

    def __init__(self, enum: "EnumS", name: str, value: Any):
        self.__dict__["_enum"] = enum
        self.__dict__["name"] = name
        self.__dict__["value"] = value
        self.__dict__["_cache"] = {}

    def __getattr__(self, attr):
        enum = self.__dict__["_enum"]
        fn = enum.funcs.get(attr)
        if fn is None:
            raise AttributeError(attr)
        decos = {ast.unparse(d).split(".")[-1].split("(")[0] for d in fn.decorator_list}
        params = [a.arg for a in fn.args.args]
        if decos & {"property", "cached_property", "cache"}:
            cache = self.__dict__["_cache"]
            if attr not in cache:
                cache[attr] = enum.call(fn, {params[0]: self})
            return cache[attr]

        def method(*args):
            if len(args) != len(params) - 1:
                raise NotConst(f"arity of {attr}")
            # the evaluation is deterministic: one evaluation per (method, argument stubs)
            memo = self.__dict__["_cache"]
            try:
                key = (attr,) + tuple(args)
                hash(key)
            except TypeError:
                return enum.call(fn, dict(zip(params, (self,) + args)))
            if key not in memo:
                memo[key] = enum.call(fn, dict(zip(params, (self,) + args)))
            return memo[key]

        return method

    def __hash__(self):
        return hash(self.__dict__["name"])

    def __repr__(self):
        return f"{self.__dict__['_enum'].cname}.{self.__dict__['name']}"


class EnumS(Stub):
    def __init__(self, repo, module: str, cname: str):
        self.repo, self.module, self.cname = repo, module, cname
        cls = repo.cls(module, cname)
        self.funcs = {b.name: b for b in cls.body if isinstance(b, ast.FunctionDef)}
        self.members: List[MemberS] = []
        for k, v in repo.enum_members(module, cname).items():
            self.members.append(MemberS(self, k, Folder(repo, module).fold(v)))

    def call(self, fn: ast.FunctionDef, env: Dict[str, Any]) -> Any:
        ev = Ev(self.repo, self.module, dict(env, **{self.cname: self}))
        kind, val = ev.run(fn.body)
        return val if kind == "return" else None

    def __iter__(self):
        return iter(self.members)

    def __len__(self):
        return len(self.members)

    def __getitem__(self, name):
        for m in self.members:
            if m.name == name:
                return m
        raise KeyError(name)

    def __call__(self, value):
        for m in self.members:
            if m.value == value:
                return m
        raise ValueError(value)

    def __getattr__(self, name):
        for m in self.__dict__.get("members", []):
            if m.name == name:
                return m
        raise AttributeError(name)


# =====================================================================================================================
# evaluator

_DICT_METHODS = {"get", "setdefault", "items", "keys", "values", "pop", "copy", "update"}
_LIST_METHODS = {"append", "extend", "index", "count", "copy", "insert", "pop", "sort", "reverse", "remove"}
_SET_METHODS = {"add", "update", "discard", "remove", "union", "intersection", "difference", "issubset", "copy"}
_MATH = {k: getattr(math, k) for k in ("dist", "hypot", "fabs", "pow", "floor", "ceil", "isclose", "sqrt", "isnan", "isinf", "isfinite", "fsum")}


class F(Folder):
    """Folder that also calls rule-supplied stubs (with keywords), local containers' methods, and module-level helper
    functions of the analysed module (their bodies evaluated the same way); conditions are traced."""

    def __init__(self, ev: "Ev", local: Dict[str, Any], share: bool = False):
        Folder.__init__(self, ev.repo, ev.module, None)
        self.local = local if share else dict(local)
        self.ev = ev

    def child(self, extra):
        return F(self.ev, {**self.local, **extra})

    def _f_Name(self, n):
        if n.id in self.local:
            return self.local[n.id]
        fn = self.ev.helper(n.id)
        if fn is not None:
            return fn
        return Folder._f_Name(self, n)

    def _f_Attribute(self, n):
        if isinstance(n.value, ast.Name) and n.value.id not in self.local:
            return Folder._f_Attribute(self, n)
        base = self.fold(n.value)
        if getattr(base, "_folder_stub", False) or isinstance(base, types.SimpleNamespace):
            try:
                return getattr(base, n.attr)
            except AttributeError:
                raise NotConst(f"attribute {ast.unparse(n)[:50]} of a stub")
        raise NotConst(f"attribute {ast.unparse(n)[:50]}")

    def _f_IfExp(self, n):
        return self.fold(n.body) if self.ev.cond(n.test, self) else self.fold(n.orelse)

    def _f_Call(self, n):
        f = n.func
        fn = None
        if isinstance(f, ast.Name):
            if f.id in self.local and callable(self.local[f.id]):
                fn = self.local[f.id]
            elif f.id not in self.local:
                fn = self.ev.helper(f.id)
        elif isinstance(f, ast.Attribute):
            if isinstance(f.value, ast.Name) and f.value.id == "math" and "math" not in self.local and f.attr in _MATH:
                fn = _MATH[f.attr]
            elif not (isinstance(f.value, ast.Name) and f.value.id not in self.local):
                recv = self.fold(f.value)
                if getattr(recv, "_folder_stub", False) or isinstance(recv, types.SimpleNamespace):
                    fn = getattr(recv, f.attr, None)
                    if not callable(fn):
                        raise NotConst(f"method {f.attr} of a stub")
                elif (isinstance(recv, dict) and f.attr in _DICT_METHODS) or (isinstance(recv, list) and f.attr in _LIST_METHODS) or (isinstance(recv, (set, frozenset)) and f.attr in _SET_METHODS):
                    fn = getattr(recv, f.attr)
                    if f.attr in ("keys", "values", "items"):
                        return list(fn())
        if fn is None:
            return Folder._f_Call(self, n)
        args = self._elts(n.args)
        kw = {}
        for k in n.keywords:
            if k.arg is None:
                raise NotConst("**kwargs")
            kw[k.arg] = self.fold(k.value)
        return fn(*args, **kw)

    def _comp(self, generators, emit):
        ev = self.ev

        def rec(i, env):
            if i == len(generators):
                emit(self.child(env))
                return
            g = generators[i]
            sub = self.child(env)
            for item in sub.fold(g.iter):
                env2 = dict(env)
                _bind(g.target, item, env2)
                s2 = self.child(env2)
                ev.ctx.append(item)
                try:
                    if all(ev.cond(c, s2) for c in g.ifs):
                        for k in getattr(s2, "_walrus", ()):
                            env2[k] = s2.local[k]
                        rec(i + 1, env2)
                finally:
                    ev.ctx.pop()

        rec(0, {})


def _bind(target, value, env):
    if isinstance(target, ast.Name):
        env[target.id] = value
    elif isinstance(target, (ast.Tuple, ast.List)):
        vals = list(value)
        if len(vals) != len(target.elts):
            raise NotConst("unpack")
        for t, v in zip(target.elts, vals):
            _bind(t, v, env)
    else:
        raise NotConst("bind target")


class Ev(BlockEval):
    """sa.blockeval with: stub calls as statements, `with`, `raise`, imports (no-ops), nested subscript targets, nested
    function definitions, bounded `while`, a stack of the current loop items and a trace of every atomic condition."""

    def __init__(self, repo, module: str, env: Optional[Dict[str, Any]] = None, trace: Optional[Dict[int, Any]] = None, helpers: bool = True):
        BlockEval.__init__(self, repo, module, env, max_steps=10**7)
        self.ctx: List[Any] = []
        self.conds = trace  # id(node) -> [node, [(ctx tuple, bool)]]
        self.stored: set = set()
        self.helpers = helpers
        self.tag: Any = None

    # ---- expressions
    def fold(self, e: ast.AST) -> Any:
        try:
            return F(self, self.env, share=True).fold(e)
        except NotConst as ex:
            raise Unknown(f"`{ast.unparse(e)[:60]}`: {ex}")
        except PROGRAM_ERRORS as ex:
            raise Raised(f"{type(ex).__name__}({', '.join(map(repr, ex.args))[:40]}) in `{ast.unparse(e)[:60]}`", e)
        except RecursionError:
            raise Unknown("recursion")

    def helper(self, name: str) -> Optional[Callable]:
        """A module-level function of the analysed module as a callable on folded values (body evaluated, not run)."""
        if not self.helpers:
            return None
        m = self.repo.modules.get(self.module)
        if m is None or name not in m.funcs or "." in name:
            return None
        fn = m.funcs[name].node
        a = fn.args
        if a.vararg or a.kwarg or a.kwonlyargs or a.posonlyargs:
            return None
        params = [p.arg for p in a.args]
        defaults = dict(zip(reversed(params), reversed(a.defaults)))

        def call(*args, **kw):
            env = {k: v for k, v in self.env.items() if callable(v) or getattr(v, "_folder_stub", False)}
            if len(args) > len(params) or any(k not in params for k in kw):
                raise NotConst(f"arity of {name}")
            bound = dict(zip(params, args))
            bound.update(kw)
            for p in params:
                if p not in bound:
                    if p not in defaults:
                        raise NotConst(f"missing argument {p} of {name}")
                    bound[p] = Folder(self.repo, self.module).fold(defaults[p])
            for p in params:
                env.pop(p, None)
            env.update(bound)
            sub = Ev(self.repo, self.module, env, self.conds)
            sub.ctx = self.ctx
            kind, val = sub.run(fn.body)
            return val if kind == "return" else None

        return call

    def cond(self, e: ast.AST, folder: Optional[F] = None) -> Any:
        """Value of a condition; every atomic operand (short-circuit order) is recorded with the current loop items."""
        fo = folder if folder is not None else F(self, self.env, share=True)
        if isinstance(e, ast.UnaryOp) and isinstance(e.op, ast.Not):
            return not self.cond(e.operand, fo)
        if isinstance(e, ast.BoolOp):
            r = None
            for v in e.values:
                r = self.cond(v, fo)
                if isinstance(e.op, ast.And) and not r:
                    return r
                if isinstance(e.op, ast.Or) and r:
                    return r
            return r
        try:
            r = fo.fold(e)
        except NotConst as ex:
            raise Unknown(f"`{ast.unparse(e)[:60]}`: {ex}")
        except PROGRAM_ERRORS as ex:
            raise Raised(f"{type(ex).__name__}({', '.join(map(repr, ex.args))[:40]}) in `{ast.unparse(e)[:60]}`", e)
        if self.conds is not None and not isinstance(e, ast.Constant) and not (isinstance(e, ast.Name) and e.id in self.stored):
            rec = self.conds.setdefault(id(e), [e, []])
            rec[1].append((self.tag, tuple(self.ctx), bool(r)))
        return r

    # ---- statements
    def _assign(self, t: ast.AST, v: Any) -> None:
        if isinstance(t, ast.Subscript) and not (isinstance(t.value, ast.Name)):
            box = self.fold(t.value)
            if not isinstance(box, (dict, list)):
                raise Unknown(f"assignment target `{ast.unparse(t)[:40]}`")
            box[self.fold(t.slice)] = v
            return
        if isinstance(t, ast.Name):
            self.stored.discard(t.id)
        BlockEval._assign(self, t, v)

    def _stmt(self, st: ast.stmt) -> None:
        if isinstance(st, ast.If):
            self._block(st.body if self.cond(st.test) else st.orelse)
        elif isinstance(st, ast.Assign) and len(st.targets) == 1 and isinstance(st.targets[0], ast.Name) and (isinstance(st.value, (ast.BoolOp, ast.Compare)) or (isinstance(st.value, ast.UnaryOp) and isinstance(st.value.op, ast.Not))):
            v = self.cond(st.value)  # a condition stored in a name: its atoms are traced here, the name is not traced later
            self._assign(st.targets[0], v)
            self.stored.add(st.targets[0].id)
        elif isinstance(st, ast.For):
            it = self.fold(st.iter)
            try:
                items = list(it)
            except TypeError:
                raise Unknown(f"`{ast.unparse(st.iter)[:50]}` is not iterable")
            broke = False
            for item in items:
                self.steps += 1
                if self.steps > self.max_steps:
                    raise Unknown("too many steps")
                self._assign(st.target, item)
                self.ctx.append(item)
                try:
                    self._block(st.body)
                except _Stop as s:
                    if s.kind == "continue":
                        continue
                    if s.kind == "break":
                        broke = True
                        break
                    raise
                finally:
                    self.ctx.pop()
            if not broke:
                self._block(st.orelse)
        elif isinstance(st, ast.While):
            n = 0
            while self.cond(st.test):
                n += 1
                if n > 10000:
                    raise Unknown("while loop does not end")
                try:
                    self._block(st.body)
                except _Stop as s:
                    if s.kind == "continue":
                        continue
                    if s.kind == "break":
                        break
                    raise
        elif isinstance(st, (ast.With, ast.AsyncWith)):
            for it in st.items:
                v = self.fold(it.context_expr)
                if it.optional_vars is not None:
                    self._assign(it.optional_vars, v)
            self._block(st.body)
        elif isinstance(st, ast.Raise):
            raise Raised(f"raise {ast.unparse(st.exc)[:60] if st.exc is not None else ''}", st)
        elif isinstance(st, (ast.Import, ast.ImportFrom, ast.Global, ast.Nonlocal)):
            pass
        elif isinstance(st, ast.Assert):
            if not self.cond(st.test):
                raise Raised(f"assert {ast.unparse(st.test)[:60]}", st)
        elif isinstance(st, ast.FunctionDef):
            a = st.args
            if a.vararg or a.kwarg or a.kwonlyargs or a.posonlyargs or a.defaults:
                raise Unknown(f"nested function {st.name}")
            params = [p.arg for p in a.args]

            def call(*args, _st=st, _params=params):
                if len(args) != len(_params):
                    raise NotConst(f"arity of {_st.name}")
                sub = Ev(self.repo, self.module, dict(self.env, **dict(zip(_params, args))), self.conds)
                sub.ctx = self.ctx
                kind, val = sub.run(_st.body)
                return val if kind == "return" else None

            self.env[st.name] = call
        elif isinstance(st, ast.Expr) and isinstance(st.value, ast.Call):
            c = st.value
            f = c.func
            if isinstance(f, ast.Attribute) and isinstance(f.value, ast.Name) and f.value.id in ("logging", "logger", "warnings") and f.value.id not in self.env:
                return
            self.fold(c)
        elif isinstance(st, ast.Expr):
            if not isinstance(st.value, (ast.Constant, ast.Name)):
                self.fold(st.value)
        elif isinstance(st, ast.Delete):
            raise Unknown("del statement")
        else:
            BlockEval._stmt(self, st)


def base_env(repo) -> Dict[str, Any]:
    """Stubs every evaluation of clashfinder code starts from."""
    env: Dict[str, Any] = {"np": np_stub(), "numpy": np_stub(), "set": SetS, "frozenset": SetS}
    for cname in repo.module(M).classes:
        cls = repo.cls(M, cname)
        if any(norm(b).split(".")[-1] in ("Enum", "IntEnum", "StrEnum") for b in cls.bases):
            env[cname] = EnumS(repo, M, cname)
    return env


# =====================================================================================================================
# find_clashes on a structure of two-atom clusters, one per input class

DELTA = 1e-6  # half-width of the undecided band around a threshold (float distance arithmetic is not decided)
UNIT = (2.0 / 7.0, 3.0 / 7.0, 6.0 / 7.0)  # skew unit vector: every coordinate takes part in the distance
OCC = {"half+half": (0.5, 0.5), "none+none": (None, None), "zero+one": (0.0, 1.0), "none+zero": (None, 0.0), "0.3+0.3": (0.3, 0.3)}


class Cluster:
    def __init__(self, idx, ta, tb, dist, dcell, same_res, nuc_a, nuc_b, same_name, occ, group):
        self.idx, self.ta, self.tb, self.dist, self.dcell = idx, ta, tb, dist, dcell
        self.same_res, self.nuc_a, self.nuc_b, self.same_name, self.occ, self.group = same_res, nuc_a, nuc_b, same_name, occ, group
        ox = 100.0 * (idx + 1)
        oa, ob = OCC[occ]
        self.a = AtomS(ta + "1", (ox, 0.0, 0.0), oa)
        self.b = AtomS(tb + ("1" if same_name else "2"), (ox + dist * UNIT[0], dist * UNIT[1], dist * UNIT[2]), ob)
        self.a.cluster = self.b.cluster = self
        if same_res:
            self.residues = [ResidueS("A", 2 * idx + 1, [self.a, self.b], nuc_a)]
        else:
            self.residues = [ResidueS("A", 2 * idx + 1, [self.a], nuc_a), ResidueS("A", 2 * idx + 2, [self.b], nuc_b)]
        self.occsum = (1.0 if oa is None else oa) + (1.0 if ob is None else ob)

    def describe(self) -> str:
        res = f"one {'nucleotide' if self.nuc_a else 'non-nucleotide'} residue" if self.same_res else f"two residues ({'nucleotide' if self.nuc_a else 'non-nucleotide'}, {'nucleotide' if self.nuc_b else 'non-nucleotide'})"
        oa, ob = OCC[self.occ]
        return f"atoms {self.a.name}/{self.b.name} in {res}, distance {self.dcell}, occupancies {oa} + {ob}"


def build_structure(radii: Dict[str, float], extra: float) -> List[Cluster]:
    cl: List[Cluster] = []

    def dists(ta, tb):
        t0 = radii[ta] + radii[tb]
        return [(t0 - DELTA, "just below r_a + r_b"), (t0 + DELTA, "just above r_a + r_b"), (t0 + extra - DELTA, f"just below r_a + r_b + {extra}"), (t0 + extra + DELTA, f"just above r_a + r_b + {extra}")]

    types_ = [t for t in ("C", "N", "O", "P") if isinstance(radii.get(t), float)]
    for ta in types_:
        for tb in types_:
            for d, cell in dists(ta, tb):
                cl.append(Cluster(len(cl), ta, tb, d, cell, False, True, True, False, "half+half", "T"))
    t = "O" if "O" in types_ else types_[0]
    dd = dists(t, t)
    for same_res, nucs in ((True, [(True, True), (False, False)]), (False, [(True, True), (True, False), (False, True), (False, False)])):
        for na, nb in nucs:
            for same_name in (True, False):
                for occ in OCC:
                    for d, cell in (dd[0], dd[2]):
                        cl.append(Cluster(len(cl), t, t, d, cell, same_res, na, nb, same_name, occ, "F"))
    # atoms of no known type right next to typed ones
    for ta, tb in (("H", t), (t, "M"), ("H", "H")):
        cl.append(Cluster(len(cl), ta, tb, 0.2, "0.2 A", False, True, True, False, "half+half", "U"))
    return cl


def typed(name: str) -> bool:
    return name.strip()[:1] in ("C", "N", "O", "P")


def selected(opts, nuc: bool) -> bool:
    return (not opts["nucleic_acid_only"]) or nuc


def expected_listed(c: Cluster, opts, radii, extra) -> bool:
    if not (typed(c.a.name) and typed(c.b.name)):
        return False
    if not (selected(opts, c.nuc_a) and selected(opts, c.nuc_a if c.same_res else c.nuc_b)):
        return False
    if opts["ignore_autoclashes"] and c.same_res:
        return False
    if opts["require_same_atom_name"] and not c.same_name:
        return False
    if c.dist > radii[c.ta] + radii[c.tb] + (extra if opts["enable_molprobity_mode"] else 0.0):
        return False
    return bool(opts["ignore_occupancy"] or math.isclose(c.occsum, 1.0))


def all_options():
    for vals in itertools.product((False, True), repeat=len(OPTIONS)):
        yield dict(zip(OPTIONS, vals))


def optstr(opts) -> str:
    on = [k for k in OPTIONS if opts[k]]
    return "options {" + (", ".join(on) if on else "none") + "}"


class ClashEval:
    """Everything the evaluation of find_clashes gives: listed pairs per option combination, KD-tree radii, condition trace."""

    def __init__(self, repo, fi, radii: Dict[str, float], extra: float):
        self.repo, self.fi, self.radii, self.extra = repo, fi, radii, extra
        params = [a.arg for a in fi.node.args.args]
        if len(params) != 1 + len(OPTIONS) or set(params[1:]) != set(OPTIONS):
            raise Unknown(f"parameters of find_clashes are {params}")
        self.residues_param = params[0]
        self.clusters = build_structure(radii, extra)
        self.trace: Dict[int, Any] = {}
        self.radius: Dict[Tuple, List[float]] = {}
        self.listed: Dict[Tuple, Dict[int, Any]] = {}  # option tuple -> cluster idx -> record
        self.problems: List[Tuple[str, str, Any]] = []  # (rule, message, cluster idx or None)
        self.small: List[Tuple[Dict, str, Any]] = []
        self.raised: List[Tuple[Dict, Raised]] = []
        env0 = base_env(repo)
        residues = [r for c in self.clusters for r in c.residues]
        self.n_evals = 0
        for opts in all_options():
            key = tuple(opts[k] for k in OPTIONS)
            res, log = self._run(env0, residues, opts, ("big", key))
            self.radius[key] = log
            if res is None:
                continue
            self.listed[key] = self._read(res, opts)
        # fewer than two atoms considered: nothing to list (and nothing may go wrong)
        lone = Cluster(10**4, "P", "P", 0.3, "0.3 A", True, False, False, False, "half+half", "S")
        one = Cluster(10**4 + 1, "P", "H", 0.3, "0.3 A", True, True, True, False, "half+half", "S")
        self.small_inputs = {"no residue": [], "one typed atom": one.residues, "two close atoms of one non-nucleotide residue": lone.residues}
        self.small_bad: List[Tuple[str, Dict, str]] = []
        for label, rs in self.small_inputs.items():
            for opts in all_options():
                key = tuple(opts[k] for k in OPTIONS)
                res, _ = self._run(env0, rs, opts, ("small", label, key))
                if res is None:
                    continue
                want = [c.idx for c in (lone, one) if rs is c.residues and expected_listed(c, opts, self.radii, self.extra)]
                got = sorted(self._read(res, opts)) if isinstance(res, list) else None
                if got != want:
                    self.small_bad.append((label, opts, f"the result is `{str(res)[:60]}`, expected {'one record' if want else 'an empty list'}"))

    def _run(self, env0, residues, opts, tag):
        log: List[float] = []
        env = dict(env0, KDTree=KDTreeModel(log), cKDTree=KDTreeModel(log), **opts)
        env[self.residues_param] = list(residues)
        ev = Ev(self.repo, M, env, self.trace)
        ev.tag = tag
        self.n_evals += 1
        try:
            kind, val = ev.run(self.fi.node.body)
        except Raised as r:
            self.raised.append((opts, r))
            return None, log
        if kind != "return":
            raise Unknown("find_clashes does not return a value")
        return val, log

    def _read(self, res, opts) -> Dict[int, Any]:
        out: Dict[int, Any] = {}
        if not isinstance(res, list):
            self.problems.append(("pair-roles", f"find_clashes returns {type(res).__name__}, not a list of records", None))
            return out
        for rec in res:
            ok = isinstance(rec, tuple) and len(rec) == 3 and all(isinstance(p, tuple) and len(p) == 2 and isinstance(p[0], ResidueS) and isinstance(p[1], AtomS) for p in rec[:2])
            if not ok:
                self.problems.append(("pair-roles", f"a record is `{str(rec)[:80]}`, not ((residue, atom), (residue, atom), occupancy sum)", None))
                continue
            (r1, a1), (r2, a2), s = rec
            c = a1.cluster
            if a2.cluster is not c or a1 is a2:
                self.problems.append(("pair-roles", f"{optstr(opts)}: atoms {a1.name} and {a2.name} that are not a close pair are listed together", None))
                continue
            if a1.owner is not r1 or a2.owner is not r2:
                self.problems.append(("pair-roles", f"{optstr(opts)}: a record pairs an atom with a residue it does not belong to ({c.describe()})", c.idx))
            elif a1 is not c.a:
                self.problems.append(("pair-roles", f"{optstr(opts)}: the two atoms of a record are not in the order of the structure ({c.describe()})", c.idx))
            if c.idx in out:
                self.problems.append(("pair-roles", f"{optstr(opts)}: a pair is listed twice ({c.describe()})", c.idx))
            if not (isinstance(s, float) and math.isclose(s, c.occsum, rel_tol=0, abs_tol=1e-12)):
                self.problems.append(("occupancy-sum", f"{optstr(opts)}: recorded occupancy sum {s!r} for {c.describe()}: expected {c.occsum}", c.idx))
            out[c.idx] = rec
        return out

    # ---- decision table ------------------------------------------------------------------------------------------
    def deviations(self) -> List[Tuple[Dict, Cluster, bool]]:
        dev = []
        for opts in all_options():
            key = tuple(opts[k] for k in OPTIONS)
            if key not in self.listed:
                continue
            got = self.listed[key]
            for c in self.clusters:
                want = expected_listed(c, opts, self.radii, self.extra)
                if want != (c.idx in got):
                    dev.append((opts, c, want))
        return dev

    # ---- closed world: every atomic condition is a function of one feature of the definition -------------------------
    def _features(self, tag, ctx) -> Dict[str, bool]:
        key = tag[-1]
        opts = dict(zip(OPTIONS, key))
        f: Dict[str, bool] = {f"option {k}": bool(v) for k, v in opts.items()}
        if tag[0] == "small":
            rs = self.small_inputs[tag[1]]
            n = sum(1 for r in rs if selected(opts, r.is_nucleotide) for a in r.atoms if typed(a.name))
            f["fewer than two atoms considered"] = n < 2
        else:
            f["fewer than two atoms considered"] = False
        pair = atom = res = None
        for item in reversed(ctx):
            flat_ = list(item) if isinstance(item, tuple) and not isinstance(item, PairIdx) else [item]
            if isinstance(item, PairIdx):
                pair = item
                break
            if atom is None and any(isinstance(x, AtomS) for x in flat_):
                atom = [x for x in flat_ if isinstance(x, AtomS)][0]
                break
            if res is None and any(isinstance(x, ResidueS) for x in flat_):
                res = [x for x in flat_ if isinstance(x, ResidueS)][0]
                break
        f["in pair loop"] = pair is not None
        if pair is not None and pair.atoms[0] is not None and pair.atoms[0].cluster is pair.atoms[1].cluster:
            a, b = pair.atoms
            c = a.cluster
            f["the two residues are the same"] = a.owner is b.owner
            f["the two atom names are equal"] = a.name == b.name
            if typed(a.name) and typed(b.name):
                f["distance above r_a + r_b + extra"] = c.dist > self.radii[a.name[0]] + self.radii[b.name[0]] + (self.extra if opts["enable_molprobity_mode"] else 0.0)
            f["occupancy sum is 1"] = math.isclose(c.occsum, 1.0)
            f["occupancy of the first atom missing"] = a.occupancy is None
            f["occupancy of the second atom missing"] = b.occupancy is None
        elif atom is not None:
            f["atom is of type C/N/O/P"] = typed(atom.name)
            f["residue is a nucleotide"] = bool(atom.owner.is_nucleotide)
            f["occupancy of the atom missing"] = atom.occupancy is None
        elif res is not None:
            f["residue is a nucleotide"] = bool(res.is_nucleotide)
        return f

    def classify_conditions(self):
        """[(node, feature or None, negated, in_pair_loop, n_records)]"""
        out = []
        cache: Dict[Tuple, Dict[str, bool]] = {}
        dirty = {c.idx for _, c, _ in self.deviations()} | {p[2] for p in self.problems if p[2] is not None}
        for nid, (node, recs) in self.trace.items():
            names = {n.id for n in ast.walk(node) if isinstance(n, ast.Name)}
            if names and names <= set(OPTIONS):
                out.append((node, "the options only", False, any(isinstance(x, PairIdx) for _, ctx, _ in recs[:1] for x in ctx), len(recs), False))
                continue
            rows = []
            for tag, ctx, val in recs:
                pr = [x for x in ctx if isinstance(x, PairIdx)]
                if pr and pr[-1].atoms[0] is not None and pr[-1].atoms[0].cluster is not None and pr[-1].atoms[0].cluster.idx in dirty:
                    continue  # representatives on which the decision table already deviates say nothing about the condition
                ck = (tag, tuple(id(x) for x in ctx))
                if ck not in cache:
                    cache[ck] = self._features(tag, ctx)
                rows.append((cache[ck], val))
            if not rows:
                continue
            in_pair = any(f["in pair loop"] for f, _ in rows)
            vals = {v for _, v in rows}
            found = None
            neg = False
            if len(vals) == 2:
                names = set(rows[0][0])
                for f, _ in rows:
                    names &= set(f)
                names.discard("in pair loop")
                for nm in sorted(names):
                    if all(f[nm] == v for f, v in rows):
                        found, neg = nm, False
                        break
                    if all(f[nm] != v for f, v in rows):
                        found, neg = nm, True
                        break
            out.append((node, found, neg, in_pair, len(rows), len(vals) == 1))
        out.sort(key=lambda t: (getattr(t[0], "lineno", 0), getattr(t[0], "col_offset", 0)))
        return out


def _K(fi, what: str) -> str:
    return f"{fi.module.name}:{fi.qualname}:{what}"


def check_find_clashes(chk, fi, radii: Dict[str, float], extra: float) -> Optional[str]:
    """Fact-level rules for find_clashes; None when the function could be evaluated, else the reason."""
    try:
        ce = ClashEval(chk.repo, fi, radii, extra)
    except Unknown as ex:
        return str(ex)
    except RecursionError:
        return "recursion while evaluating"
    except (TypeError, AttributeError, NotConst) as ex:  # an operation the stubs do not model
        return f"{type(ex).__name__}: {ex}"
    site = fi.where
    n_cl = len(ce.clusters)
    # decided on the current code whatever its shape: evidence rules
    chk.robust |= {"clash-definition", "distance-threshold", "option-filter", "occupancy-rule", "occupancy-sum", "pair-roles", "search-radius", "collection", "option-extra-filter"}
    # anything raised on a representative
    for opts, r in ce.raised[:2]:
        chk.violation("clash-definition", fi.site(r.node) if r.node is not None else site, f"find_clashes raises {r.what} on the representative structure with {optstr(opts)}", _K(fi, "raises"))
    # fewer than two atoms
    if ce.small_bad:
        label, opts, what = ce.small_bad[0]
        chk.violation("clash-definition", site, f"with {label} and {optstr(opts)} {what}", _K(fi, "small"))
    # search radius
    T = {mp: max(radii[a] + radii[b] for a in radii for b in radii) + (extra if mp else 0.0) for mp in (True, False)}
    worst = None
    unread = False
    for key, log in ce.radius.items():
        if key not in ce.listed:
            continue
        mp = key[OPTIONS.index("enable_molprobity_mode")]
        if len(log) != 1:
            unread = True
            continue
        if log[0] + 1e-12 < T[mp] and worst is None:
            pair = max(((a, b) for a in radii for b in radii), key=lambda p: radii[p[0]] + radii[p[1]])
            worst = (mp, pair[0], pair[1], log[0], T[mp])
    if unread:
        chk.error("search-radius", site, "the evaluation did not meet exactly one KD-tree query per call")
    else:
        chk.expect(worst is None, "search-radius", site, "the KD-tree radius (as evaluated for all 32 option combinations) is at least r_a + r_b + extra for every pair of atom types", f"the KD-tree radius ({worst[3]:.2f} A) is smaller than the acceptance threshold of {worst[1]}-{worst[2]} ({worst[4]:.2f} A, molprobity={worst[0]}): such clashes are never examined" if worst else "", _K(fi, "search-radius"), found=list(worst) if worst else None)
    # record shape, roles, sums
    by_rule: Dict[str, List[str]] = {}
    for rule, msg, _ in ce.problems:
        by_rule.setdefault(rule, []).append(msg)
    chk.expect("pair-roles" not in by_rule, "pair-roles", site, "every record is ((residue of a, a), (residue of b, b), sum) with a before b in the structure, each close pair at most once", by_rule.get("pair-roles", [""])[0], _K(fi, "roles"))
    chk.expect("occupancy-sum" not in by_rule, "occupancy-sum", site, "the recorded sum is occ(a) + occ(b) with 1.0 for a missing occupancy (0.0 stays 0.0)", by_rule.get("occupancy-sum", [""])[0], _K(fi, "occupancy-sum"))
    # decision table
    dev = ce.deviations()
    o = lambda opts, **kw: all(opts[k] == v for k, v in kw.items())

    def say(d) -> str:
        opts, c, want = d
        thr = radii.get(c.ta, 0) + radii.get(c.tb, 0) + (extra if opts["enable_molprobity_mode"] else 0.0) if c.ta in radii and c.tb in radii else None
        R = ce.radius.get(tuple(opts[k] for k in OPTIONS)) or []
        reach = f"; the KD-tree search radius {R[0]:.2f} A does not reach it" if want and len(R) == 1 and c.dist > R[0] else ""
        return f"with {optstr(opts)} the pair [{c.describe()}] is {'not listed but is a clash' if want else 'listed but is not a clash'} by the definition" + (f" (threshold {thr:.2f} A{reach})" if thr is not None else "")

    slices = []
    for mp in (False, True):
        slices.append(("distance-threshold", f"thr:{mp}", f"MolProbity mode {'on' if mp else 'off'}: a pair of typed atoms is accepted iff its distance is at most r_a + r_b{' + %s' % extra if mp else ''}, for all 16 ordered type pairs, just below and just above both thresholds", lambda op, c, mp=mp: c.group == "T" and o(op, nucleic_acid_only=False, ignore_autoclashes=False, require_same_atom_name=False, ignore_occupancy=True, enable_molprobity_mode=mp)))
    slices.append(("option-filter", "option:ignore_autoclashes", "ignore_autoclashes skips exactly the pairs within one residue", lambda op, c: c.group == "F" and c.occ == "half+half" and c.nuc_a and c.nuc_b and o(op, nucleic_acid_only=False, require_same_atom_name=False, ignore_occupancy=True, enable_molprobity_mode=False)))
    slices.append(("option-filter", "option:require_same_atom_name", "require_same_atom_name skips exactly the pairs with different atom names", lambda op, c: c.group == "F" and c.occ == "half+half" and c.nuc_a and c.nuc_b and o(op, nucleic_acid_only=False, ignore_autoclashes=False, ignore_occupancy=True, enable_molprobity_mode=False)))
    slices.append(("occupancy-rule", "occupancy-rule", "a close pair is listed iff occupancies are ignored or their sum is 1 (5 occupancy classes incl. 0.0 and missing values)", lambda op, c: c.group == "F" and not c.same_res and c.nuc_a and c.nuc_b and not c.same_name and o(op, nucleic_acid_only=False, ignore_autoclashes=False, require_same_atom_name=False, enable_molprobity_mode=False)))
    slices.append(("collection", "collection", "atoms considered = C/N/O/P atoms of all residues, or of nucleotides only when nucleic_acid_only is set (6 residue configurations, atoms of other types next to typed ones)", lambda op, c: (c.group == "U" or (c.group == "F" and c.occ == "half+half" and not c.same_name)) and o(op, ignore_autoclashes=False, require_same_atom_name=False, ignore_occupancy=True, enable_molprobity_mode=False)))
    any_slice = False
    for rule, key, okmsg, pred in slices:
        mine = [d for d in dev if pred(d[0], d[1])]
        mine.sort(key=lambda d: (sum(d[0].values()), d[1].idx))
        if mine:
            any_slice = True
        chk.expect(not mine, rule, site, okmsg, say(mine[0]) if mine else "", _K(fi, key), found=[f"{optstr(d[0])}: {d[1].describe()} -> expected {'listed' if d[2] else 'not listed'}" for d in mine[:4]] or None)
    if not ce.raised:
        if dev and not any_slice:
            dev.sort(key=lambda d: (sum(d[0].values()), d[1].idx))
            chk.violation("clash-definition", site, say(dev[0]), _K(fi, "table"), found=[f"{optstr(d[0])}: {d[1].describe()} -> expected {'listed' if d[2] else 'not listed'}" for d in dev[:4]])
        elif not dev:
            chk.ok("clash-definition", site, f"find_clashes evaluated on {n_cl} two-atom clusters x 32 option combinations ({ce.n_evals} evaluations incl. inputs with fewer than two atoms): the listed pairs are exactly those of the van-der-Waals definition")
    # closed world
    conds = ce.classify_conditions()
    extra_f = [t for t in conds if t[1] is None and t[3]]
    unread_c = [t for t in conds if t[1] is None and not t[3]]
    for node, _, _, _, n, const in extra_f:
        chk.violation("option-extra-filter", fi.site(node), f"condition `{norm(node)[:70]}` in the clash loop is {'constant on all representatives' if const else 'not a function of one feature of the definition (option, same residue, equal names, distance vs threshold, occupancy)'}: an additional filter", _K(fi, f"extra:{norm(node)[:50]}"))
    if not extra_f:
        chk.ok("option-extra-filter", site, f"{sum(1 for t in conds if t[3])} atomic conditions in the clash loop, each a function of one feature of the definition: " + "; ".join(f"`{norm(t[0])[:40]}` = {'not ' if t[2] else ''}{t[1]}" for t in conds if t[3])[:600])
    for node, _, _, _, n, const in unread_c:
        chk.error("collection", fi.site(node), f"condition `{norm(node)[:70]}` outside the clash loop is not a function of one feature of the definition (option, nucleotide, atom type, fewer than two atoms)")
    return None


# =====================================================================================================================
# main(): report and CSV on a representative clash list

TOK = re.compile(r"«[^»]+»")
NUM = re.compile(r"(?<![\w.«])-?\d+(?:\.\d+)?(?:[eE][-+]?\d+)?(?![\w.»])")


class Capture:
    def __init__(self):
        self.lines: List[str] = []
        self.rows: List[List[Any]] = []
        self.find_args: List[Tuple[tuple, dict]] = []
        self.meta_args: List[Any] = []
        self.opened: List[Tuple[Any, ...]] = []


class FileS(Stub):
    def __init__(self, name, mode="r"):
        self.name, self.mode = name, mode

    def write(self, *_):
        return 0

    def close(self):
        return None


class WriterS(Stub):
    def __init__(self, cap: Capture):
        self.cap = cap

    def writerow(self, row):
        self.cap.rows.append(list(row))

    def writerows(self, rows):
        for r in rows:
            self.writerow(r)


class MetaS(Stub):
    """read_metadata result: any category -> one row -> any item -> a token."""

    def __init__(self, path=()):
        self.path = path

    def __getitem__(self, k):
        if isinstance(k, int):
            if k != 0:
                raise IndexError(k)
            return MetaS(self.path)
        if len(self.path) >= 1:
            return f"«m{self.path[0]}.{k}»"
        return MetaS(self.path + (k,))

    def get(self, k, d=None):
        return self[k]

    def __contains__(self, k):
        return True

    def __len__(self):
        return 1

    def __iter__(self):
        return iter([MetaS(self.path)])

    def __bool__(self):
        return True


def representative_clashes():
    """Residues whose file order is both equal and opposite to their sort order; several records per residue pair and
    per chain pair, the largest occupancy sum never last; one pair within a residue."""
    mk = lambda tok: AtomS(f"«n{tok}»", token=tok)
    A5 = ResidueS("«cA»", 5, [mk(x) for x in ("A5a", "A5b", "A5c", "A5d", "A5e", "A5f")], token="«rA5»")
    A7 = ResidueS("«cA»", 7, [mk(x) for x in ("A7a", "A7b")], token="«rA7»")
    B1 = ResidueS("«cB»", 1, [mk(x) for x in ("B1a", "B1b")], token="«rB1»")
    B2 = ResidueS("«cB»", 2, [mk(x) for x in ("B2a",)], token="«rB2»")
    a = lambda r, i: r.atoms[i]
    L = [
        ((B1, a(B1, 0)), (A5, a(A5, 0)), 0.75),  # chain B before chain A: opposite to the sort order
        ((B1, a(B1, 1)), (A5, a(A5, 1)), 0.5),  # same group, smaller sum afterwards
        ((A5, a(A5, 2)), (A5, a(A5, 3)), 1.0),  # within one residue
        ((A7, a(A7, 0)), (A5, a(A5, 4)), 0.25),  # same chain, residue 7 before residue 5
        ((A5, a(A5, 5)), (B2, a(B2, 0)), 1.25),  # sorted order, two chains
        ((A5, a(A5, 0)), (A7, a(A7, 1)), 0.625),  # sorted order, one chain
    ]
    return L, [A5, A7, B1, B2]


class MainEval:
    def __init__(self, repo, mn, clashes, csv_path: Optional[str], reverse_sets: bool):
        self.cap = cap = Capture()
        SetS.reverse = reverse_sets
        try:
            args = types.SimpleNamespace(_folder_stub=True, input="/data/«file».cif", csv=csv_path, **{k: f"«o{k}»" for k in OPTIONS})

            class Parser(Stub):
                def add_argument(self, *a, **k):
                    return None

                def parse_args(self, *a, **k):
                    return args

                def add_mutually_exclusive_group(self, *a, **k):
                    return self

                add_argument_group = add_mutually_exclusive_group

            def fopen(path, mode="r", *a, **k):
                cap.opened.append((path, mode))
                return FileS(path, mode)

            def find_clashes(*a, **k):
                cap.find_args.append((a, k))
                return list(clashes)

            def read_metadata(f, *a, **k):
                cap.meta_args.append(f)
                return MetaS()

            def _exit(*a):
                raise Exit()

            def out(*a, **k):
                cap.lines.append(k.get("sep", " ").join(str(x) for x in a))

            ns = types.SimpleNamespace
            env = base_env(repo)
            env.update(
                argparse=ns(_folder_stub=True, ArgumentParser=lambda *a, **k: Parser()),
                open=fopen,
                read_3d_structure=lambda *a, **k: ns(_folder_stub=True, residues=["«residues»"]),
                find_clashes=find_clashes,
                read_metadata=read_metadata,
                print=out,
                csv=ns(_folder_stub=True, writer=lambda f, *a, **k: WriterS(cap)),
                os=ns(_folder_stub=True, path=ns(_folder_stub=True, splitext=os.path.splitext, basename=os.path.basename, dirname=os.path.dirname, join=os.path.join)),
                sys=ns(_folder_stub=True, exit=_exit, argv=["clashfinder"]),
                exit=_exit,
            )
            ev = Ev(repo, M, env)
            try:
                ev.run(mn.node.body)
            except Exit:
                pass
            self.env = ev.env
        finally:
            SetS.reverse = False


def _tokens(text: str):
    toks = TOK.findall(text)
    nums = [float(x) for x in NUM.findall(TOK.sub(" ", text))]
    return toks, nums


def check_main(chk, mn) -> Optional[str]:
    """Fact-level rules for the report / CSV part of main; None when main could be evaluated, else the reason."""
    repo = chk.repo
    L, residues = representative_clashes()
    atoms = {a.name: a for r in residues for a in r.atoms}
    res_by_tok = {r.token: r for r in residues}
    runs = {}
    try:
        for rev in (False, True):
            runs[rev] = MainEval(repo, mn, L, "/out/«csv».csv", rev)
        no_csv = MainEval(repo, mn, L, None, False)
        empty = MainEval(repo, mn, [], "/out/«csv».csv", False)
    except Unknown as ex:
        return str(ex)
    except Raised as ex:
        # KeyError / IndexError / ... of an interpreted dict or list operation, or an explicit raise: the program's own behaviour
        chk.robust |= {"report-clashes"}
        chk.violation("report-clashes", mn.site(ex.node) if ex.node is not None else mn.where, f"main raises {ex.what} on the representative clash list (6 clashes, residue pairs in and against their sort order): no complete report / CSV is produced", _K(mn, "raises"))
        for rule in ("report-grouping", "report-maxima", "report-loops"):
            chk.ok(rule, mn.where, "not evaluated: main raises on the representative clash list (reported by rule `report-clashes`)")
        return None
    except RecursionError:
        return "recursion while evaluating"
    except (TypeError, AttributeError, NotConst) as ex:  # an operation the stubs do not model
        return f"{type(ex).__name__}: {ex}"
    site = mn.where
    cap = runs[False].cap
    chk.robust |= {"report-clashes", "report-grouping", "report-maxima", "report-loops"}

    def parse_report(lines):
        """[(chain heading, [(residue heading, [atom line])])] with heading = (tokens, number)"""
        tree = []
        stray = []
        for ln in lines:
            toks, nums = _tokens(ln)
            at = [t for t in toks if t.startswith("«n")]
            rs = [t for t in toks if t.startswith("«r")]
            cs = [t for t in toks if t.startswith("«c")]
            if at:
                item = ("atoms", at, rs, nums, ln)
                if tree and tree[-1][1]:
                    tree[-1][1][-1][1].append(item)
                else:
                    stray.append(ln)
            elif rs:
                if tree:
                    tree[-1][1].append((("res", rs, nums, ln), []))
                else:
                    stray.append(ln)
            elif cs:
                tree.append((("chain", cs, nums, ln), []))
        return tree, stray

    def parse_rows(rows):
        out = []
        for row in rows:
            cells = []
            occ = [c for c in row if isinstance(c, float)]
            for c in row:
                if isinstance(c, str):
                    toks, _ = _tokens(c)
                    at = [t for t in toks if t.startswith("«n")]
                    rs = [t for t in toks if t.startswith("«r")]
                    if at or rs:
                        cells.append((rs, at))
            if cells:
                out.append((cells, occ, row))
        return out

    want = sorted((tuple(sorted((a1.name, a2.name))), s) for (_, a1), (_, a2), s in L)
    wantmap = dict(want)
    pick = lambda pair, nums: next((x for x in nums if pair in wantmap and math.isclose(x, wantmap[pair], abs_tol=1e-12)), nums[0])
    tree, stray = parse_report(cap.lines)
    rows = parse_rows(cap.rows)
    # ---- listed clashes = the clashes -----------------------------------------------------------------------------
    problems: Dict[str, List[str]] = {}
    add = lambda rule, msg: problems.setdefault(rule, []).append(msg)
    printed = []
    for (ch, rs_list) in tree:
        for (rh, atom_lines) in rs_list:
            for kind, at, rs_in_line, nums, ln in atom_lines:
                if len(at) != 2 or not nums:
                    return f"printed line `{ln.strip()[:60]}` does not name two atoms and an occupancy sum: report layout not understood"
                printed.append((tuple(sorted(at)), pick(tuple(sorted(at)), nums)))
                # orientation: the k-th residue of the heading owns the k-th atom of the line
                hr = rs_in_line if rs_in_line else rh[1]
                if len(hr) == 1:
                    hr = hr * 2
                if len(hr) != 2 or any(h not in res_by_tok for h in hr):
                    add("report-grouping", f"residue heading `{rh[3].strip()[:80]}` does not name one or two residues")
                    continue
                for k in (0, 1):
                    if atoms[at[k]].owner is not res_by_tok[hr[k]]:
                        add("report-grouping", f"the report lists atom {atoms[at[k]].token} (of residue {atoms[at[k]].owner.token}) as atom {k + 1} under the heading of residues {hr[0]} / {hr[1]}: the key a clash is filed under and the stored (atom, atom, sum) record do not agree on the order of the pair, so atoms are attributed to the other residue")
                        break
                hc = ch[1] * 2 if len(ch[1]) == 1 else ch[1]
                if len(hc) != 2 or [res_by_tok[h].chain for h in hr] != list(hc):
                    add("report-grouping", f"residues {hr[0]} / {hr[1]} are listed under the chain heading `{ch[3].strip()[:70]}`")
    if stray:
        return f"line `{stray[0].strip()[:60]}` is printed outside a chain / residue heading: report layout not understood"
    if sorted(printed) != want:
        missing = [w for w in want if w not in printed]
        extra = [p for p in printed if p not in want]
        add("report-clashes", f"the printed atom lines are not the clashes found: {len(printed)} lines for {len(want)} clashes" + (f", missing {missing[0]}" if missing else "") + (f", not a clash {extra[0]}" if extra else ""))
    # ---- maxima --------------------------------------------------------------------------------------------------
    n_heads = 0
    for (ch, rs_list) in tree:
        occ_of = lambda it: pick(tuple(sorted(it[1])), it[3])
        below = [occ_of(it) for (_, lines) in rs_list for it in lines]
        for head, vals in [(ch, below)] + [(rh, [occ_of(it) for it in lines]) for (rh, lines) in rs_list]:
            n_heads += 1
            nums = head[2]
            if not nums:
                return f"heading `{head[3].strip()[:60]}` prints no number: report layout not understood"
            if not vals or not any(math.isclose(x, max(vals), abs_tol=1e-12) for x in nums):
                add("report-maxima", f"heading `{head[3].strip()[:80]}` prints {nums[0] if len(nums) == 1 else nums} but the largest occupancy sum listed below it is {max(vals) if vals else None}")
    # ---- CSV -----------------------------------------------------------------------------------------------------------
    csv_rows = []
    for cells, occ, row in rows:
        pairs = [(rs, at) for rs, at in cells if len(rs) == 1 and len(at) == 1]
        if len(pairs) != 2 or not occ:
            return f"CSV row `{str(row)[:80]}` does not hold two (residue, atom) cells and an occupancy sum: CSV layout not understood"
        for rs, at in pairs:
            if atoms[at[0]].owner is not res_by_tok.get(rs[0]):
                add("report-grouping", f"the CSV attributes atom {atoms[at[0]].token} (of residue {atoms[at[0]].owner.token}) to residue {rs[0]}: the key a clash is filed under and the stored (atom, atom, sum) record do not agree on the order of the pair")
                break
        pr = tuple(sorted(p[1][0] for p in pairs))
        csv_rows.append((pr, pick(pr, occ)))
    if sorted(csv_rows) != want:
        missing = [w for w in want if w not in csv_rows]
        extra = [p for p in csv_rows if p not in want]
        add("report-clashes", f"the CSV rows are not the clashes found: {len(csv_rows)} rows for {len(want)} clashes" + (f", missing {missing[0]}" if missing else "") + (f", not a clash {extra[0]}" if extra else ""))
    # ---- order: report = CSV, independent of set iteration order -------------------------------------------------------
    if csv_rows != printed and sorted(csv_rows) == sorted(printed):
        k = next(i for i, (x, y) in enumerate(zip(csv_rows, printed)) if x != y)
        add("report-loops", f"the printed report and the CSV list the clashes in different orders (position {k + 1}: {printed[k][0]} vs {csv_rows[k][0]}): the two outputs do not iterate the same containers with the same ordering")
    capr = runs[True].cap
    if capr.lines != cap.lines:
        k = next((i for i, (x, y) in enumerate(zip(cap.lines, capr.lines)) if x != y), min(len(cap.lines), len(capr.lines)))
        add("report-loops", f"the printed report depends on the iteration order of a set (line {k + 1} `{cap.lines[k].strip()[:60] if k < len(cap.lines) else ''}`): an unsorted set is iterated")
    if capr.rows != cap.rows:
        k = next((i for i, (x, y) in enumerate(zip(cap.rows, capr.rows)) if x != y), min(len(cap.rows), len(capr.rows)))
        add("report-loops", f"the CSV depends on the iteration order of a set (row {k + 1}): an unsorted set is iterated")
    # ---- filed records: key and record agree ---------------------------------------------------------------------------
    filed = 0

    def scan(obj, keys):
        nonlocal filed
        if isinstance(obj, dict):
            for k, v in obj.items():
                scan(v, keys + [k])
        elif isinstance(obj, (SetS, list, set, tuple)) and not (isinstance(obj, tuple) and any(isinstance(x, AtomS) for x in obj)):
            for x in obj:
                scan(x, keys)
        elif isinstance(obj, tuple):
            ats = [x for x in obj if isinstance(x, AtomS)]
            rk = [k for k in keys if isinstance(k, tuple) and len(k) == 2 and all(isinstance(x, ResidueS) for x in k)]
            ck = [k for k in keys if isinstance(k, tuple) and len(k) == 2 and all(isinstance(x, str) for x in k)]
            if len(ats) == 2 and rk:
                filed += 1
                if [a.owner for a in ats] != list(rk[-1]):
                    add("report-grouping", f"the record ({ats[0].token}, {ats[1].token}, ...) of residues {ats[0].owner.token} / {ats[1].owner.token} is filed under the residue key ({rk[-1][0].token}, {rk[-1][1].token}): the k-th residue of the key is not the residue of the k-th atom of the record, and the loops that unpack key and record positionally attribute the atoms to the wrong residue")
                elif ck and list(ck[-1]) != [r.chain for r in rk[-1]]:
                    add("report-grouping", f"the residue pair ({rk[-1][0].token}, {rk[-1][1].token}) is filed under the chain key {ck[-1]}")

    for name, val in sorted(runs[False].env.items(), key=lambda kv: kv[0]):
        if isinstance(val, dict):
            scan(val, [])
    # ---- other runs ----------------------------------------------------------------------------------------------------
    if no_csv.cap.rows or no_csv.cap.meta_args:
        add("report-clashes", "a CSV is written although --csv was not given")
    if no_csv.cap.lines != cap.lines:
        add("report-clashes", "the printed report differs between runs with and without --csv")
    if any(_tokens(ln)[0] for ln in empty.cap.lines) or parse_rows(empty.cap.rows):
        add("report-clashes", "clashes are reported although find_clashes found none")
    # ---- obligations ---------------------------------------------------------------------------------------------------
    n = len(L)
    chk.expect("report-clashes" not in problems, "report-clashes", site, f"main evaluated on {n} representative clashes: the printed atom lines and the CSV rows are exactly the clashes found (no CSV without --csv, nothing for an empty list)", problems.get("report-clashes", [""])[0], _K(mn, "report-clashes"))
    chk.expect("report-grouping" not in problems, "report-grouping", site, f"every listed atom is attributed to its own residue and chain pair in the report and in the CSV, also when the residues of a clash are in the opposite of their sort order ({filed} filed records: the k-th residue of the key is the residue of the k-th atom)", problems.get("report-grouping", [""])[0], _K(mn, "grouping"), found=problems.get("report-grouping", [])[:4] or None)
    chk.expect("report-maxima" not in problems, "report-maxima", site, f"each of the {n_heads} headings prints the maximum of the occupancy sums listed below it (maxima placed first, in the middle and last)", problems.get("report-maxima", [""])[0], _K(mn, "maxima"))
    chk.expect("report-loops" not in problems, "report-loops", site, "the printed report and the CSV list the clashes in the same order, and neither depends on the iteration order of a set", problems.get("report-loops", [""])[0], _K(mn, "loops"))
    return None
