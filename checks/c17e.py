"""C17 - fact-level (evidence) rules: clashfinder.find_clashes and clashfinder.main decided on input-class representatives.

The pinned-form rules of checks/c17.py compare statements with the text they have at the reference commit.  The rules
here decide the same behaviour from facts computed on the current code, whatever its statement shape (DESIGN 1.2 item 4:
evaluation of an extracted fragment on one representative per class of its finite input partition; nothing of the
library is imported or run - the statements are read from the ast and interpreted by sa/blockeval + sa/consteval with
rule-supplied stubs for atoms, residues, the Enum of atom types, the KD-tree (modelled as 'every pair within the radius,
once'; ball queries as 'every index within the radius'), numpy's norm / arrays of points, argparse (every declared
argument becomes an attribute; a boolean switch holds a token naming its command-line spelling), open, csv (writer and
DictWriter), print / sys.stdout, pathlib, and the pure stdlib helpers operator / itertools / functools / heapq /
collections; record classes of the module - NamedTuple, namedtuple, dataclass - and plain classes are instantiated as
records whose methods are evaluated the same way; generator helpers are evaluated eagerly):

  find_clashes   one synthetic structure made of well separated two-atom clusters - one cluster per class of
                 (type pair x distance cell) and of (same/different residue x nucleotide flags x equal/different names x
                 occupancy class incl. 0.0, missing and a sum of 0.99 x distance cell), two *different* residues that
                 share chain+number / number / chain+number+insertion code, atoms of no known type (H, M, and hydrogens
                 named HO.. / HN.. / HC.. / HP..) - evaluated for all 32 option combinations and compared with the
                 pairwise van-der-Waals definition; every atomic condition met during the evaluation must be a function
                 of one feature of the definition (closed world: nothing else may skip a pair); the pair a condition is
                 about is read from the index items of the KD-tree model on the loop stack, the atom handed to a helper
                 from its call frame
  main           the whole function evaluated on a representative clash list (file order of the residues both equal and
                 opposite to their sort order; three records per residue pair and five residue pairs per chain pair with
                 the largest sum in the middle of file order and of sort order; residue pairs that differ only in chain,
                 insertion code or residue name) with tokens standing for chains, residues and atom names: listed atom
                 lines / CSV rows = the clashes, every atom attributed to its own residue (key and record of a filed
                 clash agree on orientation), printed maxima = maxima of the lines listed below the heading (the message
                 names the print statement and the expression whose value is printed), report and CSV in the same order,
                 nothing depends on the iteration order of a set; the evaluated call of find_clashes binds every option
                 parameter to the switch of the same name (positional or keyword); read_metadata receives an open file;
                 main is also evaluated without any switch given: the reader (a stub that follows the signature of
                 parser.read_3d_structure - a truthy nucleic_acid_only keeps polynucleotide entities only) receives the
                 same arguments with and without the switches and none of them, find_clashes receives every residue of
                 the file's structure it would consider (chain nucleotide, nucleotide ligand, amino acid), and the listing
                 of one clash list does not depend on the switches (`cli-structure`, `report-clashes`)

Closed world, how conditions are read: BoolOp / not / conditional expressions / bool() are taken apart; a call of a helper
whose body is evaluated here is transparent (its own conditions, incl. a returned condition, are the atoms); a condition
must be a function of one feature of the definition, or of a combination of them (the value is the same wherever all
features agree - `record is not None` after a helper that examined the pair); constant conditions and conditions that
depend on something else are additional filters; a compound that cannot be taken apart and is neither is not decided
(exit 2), never a violation; `while` loops over a work list of KD-tree pairs carry the pair on a loop frame.
"""
from __future__ import annotations

import ast
import itertools
import math
import os
import re
import types
from typing import Any, Callable, Dict, List, Optional, Sequence, Tuple

from sa.blockeval import BASE, BlockEval, Unknown, _Stop
from sa.consteval import Folder, NotConst
from sa.model import norm

M = "clashfinder"
OPTIONS = ("ignore_occupancy", "ignore_autoclashes", "nucleic_acid_only", "require_same_atom_name", "enable_molprobity_mode")


class Raised(Exception):
    """The evaluated code raises on a representative (explicit `raise`, or KeyError/IndexError/... of an interpreted operation)."""

    def __init__(self, what: str, node: Optional[ast.AST] = None, orig: Optional[BaseException] = None):
        super().__init__(what)
        self.what, self.node, self.orig = what, node, orig


def _raised(ex: BaseException, e: ast.AST) -> "Raised":
    """the program's own exception, located at the innermost subscript that raised it when known"""
    at = getattr(ex, "_c17_node", None)
    where = at if at is not None else e
    return Raised(f"{type(ex).__name__}({', '.join(map(repr, ex.args))[:40]}) in `{ast.unparse(where)[:70]}`", where if hasattr(where, "lineno") else e, ex)


PROGRAM_ERRORS = (KeyError, IndexError, ZeroDivisionError, ValueError, StopIteration)


class Exit(Exception):
    """sys.exit / exit called by the evaluated code: the evaluation ends normally."""


# =====================================================================================================================
# stubs


class Stub:
    _folder_stub = True
    _blockeval_container = False


class Vec(Stub):
    """3-vector standing for a numpy array of coordinates."""

    def __init__(self, xs, atom=None):
        self.xs = tuple(float(x) for x in xs)
        self.atom = atom

    def _zip(self, o, f):
        if isinstance(o, Vec):
            return Vec([f(a, b) for a, b in zip(self.xs, o.xs)])
        if isinstance(o, (int, float)):
            return Vec([f(a, o) for a in self.xs])
        return NotImplemented

    def __sub__(self, o):
        return self._zip(o, lambda a, b: a - b)

    def __rsub__(self, o):
        return self._zip(o, lambda a, b: b - a)

    def __add__(self, o):
        return self._zip(o, lambda a, b: a + b)

    __radd__ = __add__

    def __mul__(self, o):
        return self._zip(o, lambda a, b: a * b)

    __rmul__ = __mul__

    def __truediv__(self, o):
        return self._zip(o, lambda a, b: a / b)

    def __pow__(self, o):
        return self._zip(o, lambda a, b: a**b)

    def __neg__(self):
        return Vec([-a for a in self.xs])

    def __iter__(self):
        return iter(self.xs)

    def __len__(self):
        return len(self.xs)

    def __getitem__(self, i):
        return self.xs[i]

    def sum(self):
        return sum(self.xs)

    def dot(self, o):
        return sum(a * b for a, b in zip(self.xs, o.xs))

    def __repr__(self):
        return f"Vec{self.xs}"


def _norm(v):
    if isinstance(v, Vec):
        return math.sqrt(sum(a * a for a in v.xs))
    if isinstance(v, (int, float)):
        return abs(v)
    if isinstance(v, (list, tuple)) and all(isinstance(a, (int, float)) for a in v):
        return math.sqrt(sum(a * a for a in v))
    raise NotConst("norm of a non-vector")


def _as_vec(p):
    if isinstance(p, Vec):
        return p
    if isinstance(p, (list, tuple)) and len(p) == 3 and all(isinstance(a, (int, float)) for a in p):
        return Vec(p)
    raise NotConst("KD-tree point is not a coordinate vector")


def _as_array(x, *a, **k):
    """numpy.array of one point is the point; of a sequence of points the list of the points (indexing gives a point)."""
    if isinstance(x, Vec):
        return x
    if isinstance(x, (list, tuple)) and x and all(isinstance(p, Vec) or (isinstance(p, (list, tuple)) and len(p) == 3 and all(isinstance(c, (int, float)) for c in p)) for p in x):
        return [_as_vec(p) for p in x]
    if isinstance(x, (list, tuple)) and not x:
        return []
    return _as_vec(x)


def np_stub():
    ns = types.SimpleNamespace
    return ns(
        _folder_stub=True,
        linalg=ns(_folder_stub=True, norm=_norm),
        array=_as_array,
        asarray=_as_array,
        vstack=_as_array,
        stack=_as_array,
        sqrt=lambda x: math.sqrt(x),
        sum=lambda x: sum(x),
        dot=lambda a, b: a.dot(b),
        abs=lambda x: abs(x),
    )


class PairIdx(tuple):
    """(i, j) returned by the KD-tree model; remembers the two points it stands for."""

    atoms: Tuple[Any, Any] = (None, None)


class CallFrame(tuple):
    """arguments of an evaluated helper call (an item of the context stack of the condition trace)"""


class LoopFrame:
    """one iteration of a `while` loop on the context stack; `item` = the KD-tree pair the iteration works on, once it is taken"""

    def __init__(self):
        self.item: Any = None


class IdxS(int):
    """index of a point returned by a ball query of the KD-tree model"""


def _isidx(x) -> bool:
    return isinstance(x, int) and not isinstance(x, bool)


class KDTreeModel(Stub):
    """scipy.spatial.KDTree as trusted: query_pairs(r) = every pair i < j of points at distance <= r, exactly once."""

    def __init__(self, log: List[float], calls: Optional[List[Any]] = None):
        self.log = log
        self.calls: List[Any] = calls if calls is not None else []  # the statements that asked for neighbours
        self.built: List["KDTreeModel"] = []

    def _asked(self):
        cur = Ev.current
        if cur is not None and cur[1] is not None and not any(cur[1] is c for c in self.calls):
            self.calls.append(cur[1])

    def __call__(self, points, *a, **k):
        t = KDTreeModel(self.log, self.calls)
        t.points = [_as_vec(p) for p in points]
        self.built.append(t)
        return t

    def query_pairs(self, r, *a, **k):
        if not isinstance(r, (int, float)) or isinstance(r, bool):
            raise NotConst("KD-tree radius is not a number")
        self.log.append(float(r))
        self._asked()
        pts = self.points
        order = sorted(range(len(pts)), key=lambda i: pts[i].xs[0])
        out = []
        for a_, i in enumerate(order):
            for j in order[a_ + 1 :]:
                if pts[j].xs[0] - pts[i].xs[0] > r:
                    break
                if _norm(pts[i] - pts[j]) <= r:
                    p = PairIdx((min(i, j), max(i, j)))
                    p.atoms = (pts[p[0]].atom, pts[p[1]].atom)
                    out.append(p)
        out.sort()
        return out

    def _near(self, x, r):
        x = _as_vec(x)
        return [IdxS(i) for i, p in enumerate(self.points) if _norm(p - x) <= r]

    def query_ball_point(self, x, r, *a, **k):
        """indices of the points within r of x (x itself included when it is a point of the tree); one list per point for a sequence"""
        if not isinstance(r, (int, float)) or isinstance(r, bool):
            raise NotConst("KD-tree radius is not a number")
        self.log.append(float(r))
        self._asked()
        if isinstance(x, Vec) or (isinstance(x, (list, tuple)) and len(x) == 3 and all(isinstance(c, (int, float)) for c in x)):
            return self._near(x, r)
        return [self._near(p, r) for p in x]

    def query_ball_tree(self, other, r, *a, **k):
        if not isinstance(other, KDTreeModel) or not isinstance(r, (int, float)) or isinstance(r, bool):
            raise NotConst("KD-tree ball query")
        self.log.append(float(r))
        self._asked()
        return [other._near(p, r) for p in self.points]

    def sparse_distance_matrix(self, other, max_distance, p=2.0, output_type="dok_matrix", *a, **k):
        """every (i, j) with |x_i - y_j| <= max_distance and its distance, both orders and i == j for the tree with itself; a
        distance of exactly 0 is a stored entry like any other"""
        if not isinstance(other, KDTreeModel) or not isinstance(max_distance, (int, float)) or isinstance(max_distance, bool) or p != 2.0:
            raise NotConst("KD-tree sparse distance matrix")
        self.log.append(float(max_distance))
        self._asked()
        ent = []
        for i, x in enumerate(self.points):
            for j in other._near(x, max_distance):
                ent.append((IdxS(i), j, _norm(x - other.points[j])))
        return SparseS(ent, (len(self.points), len(other.points)))


class SparseS(Stub):
    """scipy.sparse matrix as far as a neighbour search uses it: stored entries (row, column, value); explicit zeros are entries"""

    def __init__(self, entries, shape):
        self.entries = list(entries)
        self.shape = shape

    row = property(lambda self: [e[0] for e in self.entries])
    col = property(lambda self: [e[1] for e in self.entries])
    data = property(lambda self: [e[2] for e in self.entries])
    nnz = property(lambda self: len(self.entries))

    def keys(self):
        return [(e[0], e[1]) for e in self.entries]

    def values(self):
        return [e[2] for e in self.entries]

    def items(self):
        return [((e[0], e[1]), e[2]) for e in self.entries]

    def __iter__(self):
        return iter(self.keys())

    def __len__(self):
        return len(self.entries)

    def __getitem__(self, ij):
        for e in self.entries:
            if (e[0], e[1]) == tuple(ij):
                return e[2]
        return 0.0

    def nonzero(self):
        nz = [e for e in self.entries if e[2] != 0]
        return ([e[0] for e in nz], [e[1] for e in nz])

    def tocoo(self, *a, **k):
        return self

    todok = tocsr = tocsc = tocoo


def _sparse_tri(upper: bool):
    def tri(m, k=0, *a, **kw):
        if not isinstance(m, SparseS):
            raise NotConst("triu / tril of a value that is not a sparse matrix stub")
        return SparseS([e for e in m.entries if ((e[1] - e[0] >= k) if upper else (e[1] - e[0] <= k))], m.shape)

    return tri


def _sparse_find(m):
    """scipy.sparse.find: row indices, column indices and values of the NON-ZERO entries"""
    if not isinstance(m, SparseS):
        raise NotConst("find of a value that is not a sparse matrix stub")
    nz = [e for e in m.entries if e[2] != 0]
    return ([e[0] for e in nz], [e[1] for e in nz], [e[2] for e in nz])


_serial = itertools.count(1)


class AtomS(Stub):
    def __init__(self, name: str, xyz=(0.0, 0.0, 0.0), occupancy=None, token: Optional[str] = None):
        self.name = name
        self.coordinates = Vec(xyz, self)
        self.x, self.y, self.z = self.coordinates.xs
        self.occupancy = occupancy
        self.owner: Any = None
        self.cluster: Any = None
        self.k = next(_serial)
        self.token = token or name

    def __lt__(self, o):
        return (self.owner.sortkey if self.owner else (), self.name, self.k) < (o.owner.sortkey if o.owner else (), o.name, o.k)

    def __hash__(self):
        return self.k

    def __repr__(self):
        return f"<atom {self.token} of {self.owner}>"


class ResidueS(Stub):
    """A residue: identity = the object (as Residue3D's field-by-field equality tells apart any two residues of one input);
    chain / number / icode / name are the components a narrower comparison could look at; ordered like Residue3D.__lt__."""

    def __init__(self, chain: str, number: int, atoms: Sequence[AtomS], is_nucleotide: bool = True, token: Optional[str] = None, icode: Optional[str] = None, name: str = "G"):
        self.chain, self.number, self.icode, self.name = chain, number, icode, name
        self.one_letter_name = name
        self.model = 1
        self.atoms = tuple(atoms)
        self.is_nucleotide = is_nucleotide
        self.k = next(_serial)
        self.token = token or f"{chain}.{name}{number}{icode or ''}"
        self.sortkey = (chain, number, icode or " ")
        for a in self.atoms:
            a.owner = self

    def __lt__(self, o):
        return self.sortkey < o.sortkey

    def __le__(self, o):
        return self.sortkey <= o.sortkey

    def __gt__(self, o):
        return self.sortkey > o.sortkey

    def __ge__(self, o):
        return self.sortkey >= o.sortkey

    def __hash__(self):
        return self.k

    def __str__(self):
        return self.token

    __repr__ = __str__


class SetS(Stub):
    """A set whose iteration order is chosen by the rule (insertion order or its reverse): facts must not depend on it."""

    _blockeval_container = True
    reverse = False

    def __init__(self, items=()):
        self.items: List[Any] = []
        for x in items:
            self.add(x)

    def add(self, x):
        if x not in self.items:
            self.items.append(x)

    def update(self, xs):
        for x in xs:
            self.add(x)

    def discard(self, x):
        if x in self.items:
            self.items.remove(x)

    def remove(self, x):
        if x not in self.items:
            raise KeyError(x)
        self.items.remove(x)

    def __contains__(self, x):
        return x in self.items

    def __len__(self):
        return len(self.items)

    def __iter__(self):
        return iter(list(reversed(self.items)) if SetS.reverse else list(self.items))

    def __bool__(self):
        return bool(self.items)

    def __repr__(self):
        return f"set({self.items})"


class MemberS(Stub):
    """A member of an Enum class of the analysed module: name, value, and the properties / methods of the class body
    evaluated on demand with self = this member."""

    def __init__(self, enum: "EnumS", name: str, value: Any):
        self.__dict__["_enum"] = enum
        self.__dict__["name"] = name
        self.__dict__["value"] = value
        self.__dict__["_cache"] = {}

    def __getattr__(self, attr):
        enum = self.__dict__["_enum"]
        fn = enum.funcs.get(attr)
        if fn is None:
            raise AttributeError(attr)
        decos = {ast.unparse(d).split(".")[-1].split("(")[0] for d in fn.decorator_list}
        params = [a.arg for a in fn.args.args]
        if decos & {"property", "cached_property", "cache"}:
            cache = self.__dict__["_cache"]
            if attr not in cache:
                cache[attr] = enum.call(fn, {params[0]: self})
            return cache[attr]

        def method(*args):
            if len(args) != len(params) - 1:
                raise NotConst(f"arity of {attr}")
            # the evaluation is deterministic: one evaluation per (method, argument stubs)
            memo = self.__dict__["_cache"]
            try:
                key = (attr,) + tuple(args)
                hash(key)
            except TypeError:
                return enum.call(fn, dict(zip(params, (self,) + args)))
            if key not in memo:
                memo[key] = enum.call(fn, dict(zip(params, (self,) + args)))
            return memo[key]

        return method

    def __hash__(self):
        return hash(self.__dict__["name"])

    def __repr__(self):
        return f"{self.__dict__['_enum'].cname}.{self.__dict__['name']}"


class EnumS(Stub):
    def __init__(self, repo, module: str, cname: str):
        self.repo, self.module, self.cname = repo, module, cname
        cls = repo.cls(module, cname)
        self.funcs = {b.name: b for b in cls.body if isinstance(b, ast.FunctionDef)}
        self.members: List[MemberS] = []
        for k, v in repo.enum_members(module, cname).items():
            self.members.append(MemberS(self, k, Folder(repo, module).fold(v)))

    def call(self, fn: ast.FunctionDef, env: Dict[str, Any]) -> Any:
        ev = Ev(self.repo, self.module, dict(env, **{self.cname: self}))
        kind, val = ev.run(fn.body)
        return val if kind == "return" else None

    def __iter__(self):
        return iter(self.members)

    def __len__(self):
        return len(self.members)

    def __getitem__(self, name):
        for m in self.members:
            if m.name == name:
                return m
        raise KeyError(name)

    def __call__(self, value):
        for m in self.members:
            if m.value == value:
                return m
        raise ValueError(value)

    def __getattr__(self, name):
        for m in self.__dict__.get("members", []):
            if m.name == name:
                return m
        raise AttributeError(name)


class RecordClassS(Stub):
    """A record class of the analysed module (typing.NamedTuple / collections.namedtuple / @dataclass): calling it makes a
    record with the declared fields; methods and properties of the class body are evaluated on demand (not run)."""

    def __init__(self, repo, module: str, cname: str, fields: List[Tuple[str, Optional[ast.AST]]], kind: str, funcs: Dict[str, ast.FunctionDef], frozen: bool = True, order: bool = False, eq: bool = True):
        self.repo, self.module, self.cname, self.fields, self.kind, self.funcs = repo, module, cname, fields, kind, funcs
        self.frozen, self.order, self.eq = frozen, order, eq
        self.names = [f for f, _ in fields]

    @staticmethod
    def read(repo, module: str, cls: ast.ClassDef) -> Optional["RecordClassS"]:
        bases = {norm(b).split(".")[-1] for b in cls.bases}
        deco = None
        for d in cls.decorator_list:
            if norm(d.func if isinstance(d, ast.Call) else d).split(".")[-1] == "dataclass":
                deco = d
        if "NamedTuple" not in bases and deco is None:
            return None
        if bases - {"NamedTuple"} or cls.keywords:
            return None  # inherited fields are not read
        fields: List[Tuple[str, Optional[ast.AST]]] = []
        funcs: Dict[str, ast.FunctionDef] = {}
        for b in cls.body:
            if isinstance(b, ast.AnnAssign) and isinstance(b.target, ast.Name):
                if "ClassVar" in norm(b.annotation):
                    continue
                fields.append((b.target.id, b.value))
            elif isinstance(b, ast.FunctionDef):
                funcs[b.name] = b
            elif isinstance(b, ast.Expr) and isinstance(b.value, ast.Constant):
                continue
            elif isinstance(b, ast.Pass):
                continue
            else:
                return None
        if {"__init__", "__new__", "__post_init__", "__eq__", "__hash__", "__lt__", "__iter__", "__getitem__"} & set(funcs):
            return None
        opt = {k.arg: k.value for k in deco.keywords} if isinstance(deco, ast.Call) else {}
        flag = lambda name, default: (opt[name].value if name in opt and isinstance(opt[name], ast.Constant) else default)
        if "NamedTuple" in bases:
            return RecordClassS(repo, module, cls.name, fields, "namedtuple", funcs)
        return RecordClassS(repo, module, cls.name, fields, "dataclass", funcs, frozen=bool(flag("frozen", False)), order=bool(flag("order", False)), eq=bool(flag("eq", True)))

    def __call__(self, *args, **kw):
        if len(args) > len(self.fields) or any(k not in self.names for k in kw) or any(k in self.names[: len(args)] for k in kw):
            raise NotConst(f"arguments of {self.cname}")
        vals = dict(zip(self.names, args))
        vals.update(kw)
        for name, default in self.fields:
            if name not in vals:
                if default is None:
                    raise NotConst(f"missing field {name} of {self.cname}")
                vals[name] = Folder(self.repo, self.module).fold(default)
        return RecS(self, [vals[n] for n in self.names])

    def _make(self, it):
        return self(*list(it))


class RecS(Stub):
    def __init__(self, cls: RecordClassS, vals: List[Any]):
        self.__dict__["_cls"] = cls
        self.__dict__["_vals"] = list(vals)

    def __getattr__(self, attr):
        cls, vals = self.__dict__["_cls"], self.__dict__["_vals"]
        if attr in cls.names:
            return vals[cls.names.index(attr)]
        fn = cls.funcs.get(attr)
        if fn is None:
            raise AttributeError(attr)
        decos = {ast.unparse(d).split(".")[-1].split("(")[0] for d in fn.decorator_list}
        params = [a.arg for a in fn.args.args]
        if decos & {"staticmethod", "classmethod"}:
            raise AttributeError(attr)

        def run(*args):
            if len(args) != len(params) - 1:
                raise NotConst(f"arity of {attr}")
            ev = Ev(cls.repo, cls.module, dict(base_env(cls.repo), **dict(zip(params, (self,) + args))))
            kind, val = ev.run(fn.body)
            return val if kind == "return" else None

        if decos & {"property", "cached_property"}:
            return run()
        return run

    def __setattr__(self, attr, v):
        cls = self.__dict__["_cls"]
        if cls.kind == "namedtuple" or cls.frozen or attr not in cls.names:
            raise NotConst(f"assignment to {cls.cname}.{attr}")
        self.__dict__["_vals"][cls.names.index(attr)] = v

    def _tuple(self):
        return tuple(self.__dict__["_vals"])

    def __iter__(self):
        if self.__dict__["_cls"].kind != "namedtuple":
            raise TypeError("record is not iterable")
        return iter(self.__dict__["_vals"])

    def __len__(self):
        if self.__dict__["_cls"].kind != "namedtuple":
            raise TypeError("record has no len()")
        return len(self.__dict__["_vals"])

    def __getitem__(self, i):
        if self.__dict__["_cls"].kind != "namedtuple":
            raise TypeError("record is not subscriptable")
        return self._tuple()[i]

    def __eq__(self, o):
        cls = self.__dict__["_cls"]
        if cls.kind == "namedtuple":
            return self._tuple() == (o._tuple() if isinstance(o, RecS) else o)
        if not cls.eq:
            return self is o
        return isinstance(o, RecS) and o.__dict__["_cls"] is cls and self._tuple() == o._tuple()

    def __ne__(self, o):
        return not self.__eq__(o)

    def __hash__(self):
        cls = self.__dict__["_cls"]
        if cls.kind == "namedtuple" or cls.frozen:
            return hash(self._tuple())
        if not cls.eq:
            return id(self) // 16
        raise TypeError(f"unhashable type: '{cls.cname}'")

    def __lt__(self, o):
        cls = self.__dict__["_cls"]
        if cls.kind == "namedtuple":
            return self._tuple() < (o._tuple() if isinstance(o, RecS) else o)
        if cls.order and isinstance(o, RecS) and o.__dict__["_cls"] is cls:
            return self._tuple() < o._tuple()
        raise TypeError(f"'<' not supported between instances of '{cls.cname}'")

    def __repr__(self):
        cls = self.__dict__["_cls"]
        return f"{cls.cname}({', '.join(f'{n}={v!r}' for n, v in zip(cls.names, self.__dict__['_vals']))})"


class ClassS(Stub):
    """A plain class of the analysed module (no bases): calling it evaluates __init__ on a fresh instance; methods and
    properties are evaluated on demand with self bound; class-level constants are folded."""

    def __init__(self, repo, module: str, cls: ast.ClassDef):
        self.repo, self.module, self.cname = repo, module, cls.name
        self.funcs = {b.name: b for b in cls.body if isinstance(b, ast.FunctionDef)}
        self.consts = {t.id: b.value for b in cls.body if isinstance(b, ast.Assign) for t in b.targets if isinstance(t, ast.Name)}
        self.consts.update({b.target.id: b.value for b in cls.body if isinstance(b, ast.AnnAssign) and isinstance(b.target, ast.Name) and b.value is not None})

    @staticmethod
    def read(repo, module: str, cls: ast.ClassDef) -> Optional["ClassS"]:
        if [b for b in cls.bases if norm(b) != "object"] or cls.keywords or cls.decorator_list:
            return None
        for b in cls.body:
            if not isinstance(b, (ast.FunctionDef, ast.Assign, ast.AnnAssign, ast.Pass)) and not (isinstance(b, ast.Expr) and isinstance(b.value, ast.Constant)):
                return None
        if any(k.startswith("__") and k not in ("__init__", "__len__", "__bool__", "__iter__", "__contains__", "__str__", "__repr__") for k in (b.name for b in cls.body if isinstance(b, ast.FunctionDef))):
            return None
        return ClassS(repo, module, cls)

    def __call__(self, *args, **kw):
        inst = InstS(self)
        if "__init__" in self.funcs:
            inst._call(self.funcs["__init__"], args, kw)
        elif args or kw:
            raise NotConst(f"arguments of {self.cname}")
        return inst


class InstS(Stub):
    def __init__(self, cls: ClassS):
        self.__dict__["_cls"] = cls
        self.__dict__["_attrs"] = {}

    def _call(self, fn: ast.FunctionDef, args, kw):
        cls = self.__dict__["_cls"]
        a = fn.args
        if a.vararg or a.kwarg or a.kwonlyargs or a.posonlyargs:
            raise NotConst(f"signature of {cls.cname}.{fn.name}")
        params = [p.arg for p in a.args]
        defaults = dict(zip(reversed(params), reversed(a.defaults)))
        if len(args) + 1 > len(params) or any(k not in params[1:] for k in kw):
            raise NotConst(f"arity of {cls.cname}.{fn.name}")
        bound = dict(zip(params, (self,) + tuple(args)))
        bound.update(kw)
        for p_ in params:
            if p_ not in bound:
                if p_ not in defaults:
                    raise NotConst(f"missing argument {p_} of {cls.cname}.{fn.name}")
                bound[p_] = Folder(cls.repo, cls.module).fold(defaults[p_])
        caller = Ev.current[0] if Ev.current is not None else None
        env = {k: v for k, v in (caller.env if caller is not None else base_env(cls.repo)).items() if callable(v) or getattr(v, "_folder_stub", False)}
        for p_ in params:
            env.pop(p_, None)
        env.update(bound)
        sub = Ev(cls.repo, cls.module, env, caller.conds if caller is not None else None)
        if caller is not None:
            sub.ctx, sub.tag = caller.ctx, caller.tag
        sub.ctx.append(CallFrame(bound[p_] for p_ in params[1:]))
        try:
            if _is_generator(fn):
                sub.yielded = []
                sub.run(fn.body)
                return sub.yielded
            kind, val = sub.run(fn.body)
            return val if kind == "return" else None
        finally:
            sub.ctx.pop()
            if caller is not None:
                Ev.current = (caller, Ev.current[1] if Ev.current else None)

    def __getattr__(self, attr):
        cls, attrs = self.__dict__["_cls"], self.__dict__["_attrs"]
        if attr in attrs:
            return attrs[attr]
        if attr in cls.funcs:
            fn = cls.funcs[attr]
            decos = {ast.unparse(d).split(".")[-1].split("(")[0] for d in fn.decorator_list}
            if decos & {"staticmethod", "classmethod"} or decos - {"property", "cached_property"}:
                raise AttributeError(attr)
            if decos & {"property", "cached_property"}:
                return self._call(fn, (), {})
            bound_ = lambda *a, **k: self._call(fn, a, k)
            bound_._evaluated = True
            return bound_
        if attr in cls.consts:
            return Folder(cls.repo, cls.module).fold(cls.consts[attr])
        raise AttributeError(attr)

    def __setattr__(self, attr, v):
        self.__dict__["_attrs"][attr] = v

    def __repr__(self):
        return f"<{self.__dict__['_cls'].cname} object>"


class PathS(Stub):
    """pathlib.Path as far as a report needs it: name parts of a path string."""

    def __init__(self, *parts):
        self.path = os.path.join(*[str(x) for x in parts]) if parts else "."

    name = property(lambda self: os.path.basename(self.path))
    stem = property(lambda self: os.path.splitext(os.path.basename(self.path))[0])
    suffix = property(lambda self: os.path.splitext(os.path.basename(self.path))[1])
    parent = property(lambda self: PathS(os.path.dirname(self.path)))

    def with_suffix(self, sfx):
        return PathS(os.path.splitext(self.path)[0] + sfx)

    def __truediv__(self, o):
        return PathS(self.path, str(o))

    def __fspath__(self):
        return self.path

    def __str__(self):
        return self.path

    def __eq__(self, o):
        return isinstance(o, PathS) and o.path == self.path

    def __hash__(self):
        return hash(self.path)


def plain(x):
    """NamedTuple records as the plain tuples they are (for reading results)."""
    if isinstance(x, RecS) and x.__dict__["_cls"].kind == "namedtuple":
        return tuple(plain(v) for v in x._tuple())
    if isinstance(x, tuple):
        return tuple(plain(v) for v in x)
    return x


class _Chain(Stub):
    def __call__(self, *its):
        return [x for it in its for x in it]

    def from_iterable(self, its):
        return [x for it in its for x in it]


def _groupby(it, key=None):
    out: List[Tuple[Any, List[Any]]] = []
    for x in it:
        k = key(x) if key is not None else x
        if out and out[-1][0] == k:
            out[-1][1].append(x)
        else:
            out.append((k, [x]))
    return out


def _namedtuple_factory(repo, module):
    def namedtuple(typename, field_names, *a, **k):
        if a or (set(k) - {"defaults"}):
            raise NotConst("namedtuple options")
        names = field_names.replace(",", " ").split() if isinstance(field_names, str) else list(field_names)
        defaults = list(k.get("defaults") or [])
        fields: List[Tuple[str, Optional[ast.AST]]] = [(n, None) for n in names]
        for n, d in zip(reversed(names), reversed(defaults)):
            fields[names.index(n)] = (n, ast.Constant(value=d))
        return RecordClassS(repo, module, typename, fields, "namedtuple", {})

    return namedtuple


def stdlib(repo, module) -> Dict[str, Any]:
    """Stand-ins for the pure stdlib helpers a restructured function may use (iterators are evaluated eagerly to lists)."""
    import functools
    import heapq
    import operator

    ns = lambda **k: types.SimpleNamespace(_folder_stub=True, **k)
    lst = lambda f: (lambda *a, **k: list(f(*a, **k)))
    return {
        "operator": ns(**{k: getattr(operator, k) for k in ("itemgetter", "attrgetter", "add", "sub", "mul", "truediv", "lt", "le", "gt", "ge", "eq", "ne", "neg", "not_", "truth", "getitem", "contains", "is_", "is_not")}),
        "itertools": ns(chain=_Chain(), groupby=_groupby, **{k: lst(getattr(itertools, k)) for k in ("product", "combinations", "permutations", "combinations_with_replacement", "starmap", "islice", "accumulate", "zip_longest", "takewhile", "dropwhile", "filterfalse", "compress", "pairwise")}),
        "functools": ns(reduce=functools.reduce, partial=functools.partial, cmp_to_key=functools.cmp_to_key),
        "heapq": ns(nlargest=heapq.nlargest, nsmallest=heapq.nsmallest),
        "collections": ns(defaultdict=BASE["defaultdict"], OrderedDict=dict, namedtuple=_namedtuple_factory(repo, module)),
        "pathlib": ns(Path=PathS, PurePath=PathS),
        "scipy.sparse": ns(find=_sparse_find, triu=_sparse_tri(True), tril=_sparse_tri(False)),
    }


# =====================================================================================================================
# evaluator

_DICT_METHODS = {"get", "setdefault", "items", "keys", "values", "pop", "copy", "update"}
_LIST_METHODS = {"append", "extend", "index", "count", "copy", "insert", "pop", "sort", "reverse", "remove"}
_SET_METHODS = {"add", "update", "discard", "remove", "union", "intersection", "difference", "issubset", "copy"}
_KW_BUILTINS = {"max": max, "min": min, "sorted": sorted, "sum": sum, "round": round, "enumerate": lambda *a, **k: list(enumerate(*a, **k)), "zip": lambda *a, **k: list(zip(*a)), "int": int, "float": float, "str": str}
_MATH = {k: getattr(math, k) for k in ("dist", "hypot", "fabs", "pow", "floor", "ceil", "isclose", "sqrt", "isnan", "isinf", "isfinite", "fsum")}


class F(Folder):
    """Folder that also calls rule-supplied stubs (with keywords), local containers' methods, and module-level helper
    functions of the analysed module (their bodies evaluated the same way); conditions are traced."""

    def __init__(self, ev: "Ev", local: Dict[str, Any], share: bool = False):
        Folder.__init__(self, ev.repo, ev.module, None)
        self.local = local if share else dict(local)
        self.ev = ev

    def child(self, extra):
        return F(self.ev, {**self.local, **extra})

    def _f_Name(self, n):
        if n.id in self.local:
            return self.local[n.id]
        fn = self.ev.helper(n.id)
        if fn is not None:
            return fn
        return Folder._f_Name(self, n)

    def _f_Attribute(self, n):
        if isinstance(n.value, ast.Name) and n.value.id not in self.local:
            return Folder._f_Attribute(self, n)
        base = self.fold(n.value)
        if getattr(base, "_folder_stub", False) or isinstance(base, types.SimpleNamespace):
            try:
                return getattr(base, n.attr)
            except AttributeError:
                raise NotConst(f"attribute {ast.unparse(n)[:50]} of a stub")
        raise NotConst(f"attribute {ast.unparse(n)[:50]}")

    def _f_IfExp(self, n):
        return self.fold(n.body) if self.ev.cond(n.test, self) else self.fold(n.orelse)

    def _f_Subscript(self, n):
        try:
            return Folder._f_Subscript(self, n)
        except (KeyError, IndexError) as ex:
            if getattr(ex, "_c17_node", None) is None:
                try:
                    ex._c17_node = n  # the innermost subscript that raises
                except Exception:
                    pass
            raise

    def _f_Call(self, n):
        f = n.func
        fn = None
        if isinstance(f, ast.Name):
            if f.id in self.local and callable(self.local[f.id]):
                fn = self.local[f.id]
            elif f.id not in self.local:
                fn = self.ev.helper(f.id)
        elif isinstance(f, ast.Attribute):
            if isinstance(f.value, ast.Name) and f.value.id == "math" and "math" not in self.local and f.attr in _MATH:
                fn = _MATH[f.attr]
            elif not (isinstance(f.value, ast.Name) and f.value.id not in self.local):
                recv = self.fold(f.value)
                if getattr(recv, "_folder_stub", False) or isinstance(recv, types.SimpleNamespace):
                    fn = getattr(recv, f.attr, None)
                    if not callable(fn):
                        raise NotConst(f"method {f.attr} of a stub")
                elif (isinstance(recv, dict) and f.attr in _DICT_METHODS) or (isinstance(recv, list) and f.attr in _LIST_METHODS) or (isinstance(recv, (set, frozenset)) and f.attr in _SET_METHODS):
                    fn = getattr(recv, f.attr)
                    if f.attr in ("keys", "values", "items"):
                        return list(fn())
        if fn is None and isinstance(f, ast.Name) and f.id in ("getattr", "hasattr") and f.id not in self.local and not n.keywords and len(n.args) in (2, 3):
            obj, attr = self.fold(n.args[0]), self.fold(n.args[1])
            if not (getattr(obj, "_folder_stub", False) or isinstance(obj, types.SimpleNamespace)) or not isinstance(attr, str) or attr.startswith("_"):
                raise NotConst(f"{f.id} on a value that is not a stub")
            try:
                val = getattr(obj, attr)
            except AttributeError:
                if f.id == "hasattr":
                    return False
                if len(n.args) == 3:
                    return self.fold(n.args[2])
                raise NotConst(f"getattr: no attribute {attr}")
            return True if f.id == "hasattr" else val
        if fn is None and isinstance(f, ast.Name) and f.id not in self.local and n.keywords and f.id in _KW_BUILTINS and all(k.arg is not None for k in n.keywords):
            fn = _KW_BUILTINS[f.id]  # max(xs, key=..., default=...), sorted(xs, key=..., reverse=...), sum(xs, start=...), ...
        if fn is None:
            return Folder._f_Call(self, n)
        args = self._elts(n.args)
        kw = {}
        for k in n.keywords:
            if k.arg is None:
                raise NotConst("**kwargs")
            kw[k.arg] = self.fold(k.value)
        if getattr(self.ev, "cur_stmt", None) is not None:
            Ev.current = (self.ev, self.ev.cur_stmt)  # evaluating the arguments may have run other evaluators
        return fn(*args, **kw)

    def _comp(self, generators, emit):
        ev = self.ev

        def rec(i, env):
            if i == len(generators):
                emit(self.child(env))
                return
            g = generators[i]
            sub = self.child(env)
            for item in sub.fold(g.iter):
                env2 = dict(env)
                _bind(g.target, item, env2)
                s2 = self.child(env2)
                ev.ctx.append(item)
                try:
                    if all(ev.cond(c, s2) for c in g.ifs):
                        for k in getattr(s2, "_walrus", ()):
                            env2[k] = s2.local[k]
                        rec(i + 1, env2)
                finally:
                    ev.ctx.pop()

        rec(0, {})


def _bind(target, value, env):
    if isinstance(target, ast.Name):
        env[target.id] = value
    elif isinstance(target, (ast.Tuple, ast.List)):
        vals = list(value)
        if len(vals) != len(target.elts):
            raise NotConst("unpack")
        for t, v in zip(target.elts, vals):
            _bind(t, v, env)
    else:
        raise NotConst("bind target")


def copy_load(t: ast.AST) -> ast.AST:
    import copy

    e = copy.deepcopy(t)
    for n in ast.walk(e):
        if hasattr(n, "ctx"):
            n.ctx = ast.Load()
    return ast.fix_missing_locations(e)


def _is_generator(fn: ast.FunctionDef) -> bool:
    stack = list(fn.body)
    while stack:
        n = stack.pop()
        if isinstance(n, (ast.Yield, ast.YieldFrom)):
            return True
        if isinstance(n, (ast.FunctionDef, ast.AsyncFunctionDef, ast.Lambda, ast.ClassDef)):
            continue
        stack.extend(ast.iter_child_nodes(n))
    return False


class Ev(BlockEval):
    """sa.blockeval with: stub calls as statements, `with`, `raise`, imports (no-ops), nested subscript targets, nested
    function definitions, bounded `while`, a stack of the current loop items and a trace of every atomic condition."""

    def __init__(self, repo, module: str, env: Optional[Dict[str, Any]] = None, trace: Optional[Dict[int, Any]] = None, helpers: bool = True):
        BlockEval.__init__(self, repo, module, env, max_steps=10**7)
        self.ctx: List[Any] = []
        self.conds = trace  # id(node) -> [node, [(ctx tuple, bool)]]
        self.stored: set = set()
        self.helpers = helpers
        self.tag: Any = None
        self.yielded: Optional[List[Any]] = None

    # ---- expressions
    def fold(self, e: ast.AST) -> Any:
        try:
            return F(self, self.env, share=True).fold(e)
        except NotConst as ex:
            raise Unknown(f"`{ast.unparse(e)[:60]}`: {ex}")
        except PROGRAM_ERRORS as ex:
            raise _raised(ex, e)
        except RecursionError:
            raise Unknown("recursion")

    def helper(self, name: str) -> Optional[Callable]:
        """A module-level function of the analysed module as a callable on folded values (body evaluated, not run)."""
        if not self.helpers:
            return None
        m = self.repo.modules.get(self.module)
        if m is None or name not in m.funcs or "." in name:
            return None
        fn = m.funcs[name].node
        a = fn.args
        if a.vararg or a.kwarg or a.kwonlyargs or a.posonlyargs:
            return None
        params = [p.arg for p in a.args]
        defaults = dict(zip(reversed(params), reversed(a.defaults)))

        def call(*args, **kw):
            env = {k: v for k, v in self.env.items() if callable(v) or getattr(v, "_folder_stub", False)}
            if len(args) > len(params) or any(k not in params for k in kw):
                raise NotConst(f"arity of {name}")
            bound = dict(zip(params, args))
            bound.update(kw)
            for p in params:
                if p not in bound:
                    if p not in defaults:
                        raise NotConst(f"missing argument {p} of {name}")
                    bound[p] = Folder(self.repo, self.module).fold(defaults[p])
            for p in params:
                env.pop(p, None)
            env.update(bound)
            sub = Ev(self.repo, self.module, env, self.conds)
            sub.ctx = self.ctx
            sub.tag = self.tag
            self.ctx.append(CallFrame(bound[p] for p in params))
            try:
                if _is_generator(fn):
                    sub.yielded = []
                    sub.run(fn.body)
                    return sub.yielded
                kind, val = sub.run(fn.body)
                return val if kind == "return" else None
            finally:
                self.ctx.pop()

        call._evaluated = True
        return call

    def cond(self, e: ast.AST, folder: Optional[F] = None) -> Any:
        """Value of a condition; every atomic operand (short-circuit order) is recorded with the current loop items."""
        fo = folder if folder is not None else F(self, self.env, share=True)
        if isinstance(e, ast.UnaryOp) and isinstance(e.op, ast.Not):
            return not self.cond(e.operand, fo)
        if isinstance(e, ast.BoolOp):
            r = None
            for v in e.values:
                r = self.cond(v, fo)
                if isinstance(e.op, ast.And) and not r:
                    return r
                if isinstance(e.op, ast.Or) and r:
                    return r
            return r
        if isinstance(e, ast.IfExp):  # `a if c else b` as a condition: c, then the chosen branch
            return self.cond(e.body, fo) if self.cond(e.test, fo) else self.cond(e.orelse, fo)
        if isinstance(e, ast.Call) and isinstance(e.func, ast.Name) and e.func.id == "bool" and "bool" not in fo.local and len(e.args) == 1 and not e.keywords:
            return bool(self.cond(e.args[0], fo))
        # a call of a helper whose body is evaluated here: the helper's own conditions (incl. a returned condition) are the atoms
        transparent = isinstance(e, ast.Call) and self._evaluated_callee(e, fo)
        if transparent:
            Ev.cond_depth += 1
            Ev.traced_return = False
        try:
            r = fo.fold(e)
        except NotConst as ex:
            raise Unknown(f"`{ast.unparse(e)[:60]}`: {ex}")
        except PROGRAM_ERRORS as ex:
            raise _raised(ex, e)
        finally:
            if transparent:
                Ev.cond_depth -= 1
        if transparent and Ev.traced_return:
            return r
        if self.conds is not None and not isinstance(e, ast.Constant) and not (isinstance(e, ast.Name) and e.id in self.stored):
            rec = self.conds.setdefault(id(e), [e, []])
            rec[1].append((self.tag, tuple(self.ctx), bool(r)))
            last = getattr(self.conds, "last", None)
            if last is not None:  # the last condition met for an atom of the collection loop (names what dropped it)
                for item in reversed(self.ctx):
                    if isinstance(item, (PairIdx, IdxS)):
                        break
                    flat_ = list(item) if isinstance(item, tuple) else [item]
                    at = [x for x in flat_ if isinstance(x, AtomS)]
                    if at:
                        last[(self.tag, at[0].k)] = (e, bool(r))
                        break
        return r

    cond_depth = 0  # > 0 while a helper called as a condition is evaluated: a condition it returns is traced
    traced_return = False

    def _evaluated_callee(self, e: ast.Call, fo: "F") -> bool:
        f = e.func
        try:
            if isinstance(f, ast.Name):
                fn = fo.local[f.id] if f.id in fo.local else self.helper(f.id)
            elif isinstance(f, ast.Attribute) and all(isinstance(n, (ast.Name, ast.Attribute, ast.Load)) for n in ast.walk(f.value)) and not (isinstance(f.value, ast.Name) and f.value.id not in fo.local):
                fn = getattr(fo.fold(f.value), f.attr, None)
            else:
                return False
        except Exception:
            return False
        return bool(getattr(fn, "_evaluated", False))

    # ---- statements
    def _assign(self, t: ast.AST, v: Any) -> None:
        if self.ctx and isinstance(self.ctx[-1], LoopFrame) and self.ctx[-1].item is None and (isinstance(v, PairIdx) or (isinstance(v, tuple) and len(v) == 2 and all(_isidx(x) for x in v) and any(isinstance(x, IdxS) for x in v))):
            self.ctx[-1].item = v  # the pair an iteration of a `while` loop takes from its work list
        if isinstance(t, ast.Attribute):
            obj = self.fold(t.value)
            if not isinstance(obj, InstS):
                raise Unknown(f"assignment target `{ast.unparse(t)[:40]}`")
            obj.__dict__["_attrs"][t.attr] = v
            return
        if isinstance(t, ast.Subscript) and not (isinstance(t.value, ast.Name)):
            box = self.fold(t.value)
            if not isinstance(box, (dict, list)):
                raise Unknown(f"assignment target `{ast.unparse(t)[:40]}`")
            box[self.fold(t.slice)] = v
            return
        if isinstance(t, ast.Name):
            self.stored.discard(t.id)
        BlockEval._assign(self, t, v)

    current: Any = None  # (evaluator, statement) being evaluated - read by stubs that want to name the calling statement

    def _stmt(self, st: ast.stmt) -> None:
        Ev.current = (self, st)
        self.cur_stmt = st
        if isinstance(st, ast.If):
            self._block(st.body if self.cond(st.test) else st.orelse)
        elif isinstance(st, ast.Assign) and len(st.targets) == 1 and isinstance(st.targets[0], ast.Name) and (isinstance(st.value, (ast.BoolOp, ast.Compare)) or (isinstance(st.value, ast.UnaryOp) and isinstance(st.value.op, ast.Not))):
            v = self.cond(st.value)  # a condition stored in a name: its atoms are traced here, the name is not traced later
            self._assign(st.targets[0], v)
            self.stored.add(st.targets[0].id)
        elif isinstance(st, ast.For):
            it = self.fold(st.iter)
            try:
                items = list(it)
            except TypeError:
                raise Unknown(f"`{ast.unparse(st.iter)[:50]}` is not iterable")
            broke = False
            for item in items:
                self.steps += 1
                if self.steps > self.max_steps:
                    raise Unknown("too many steps")
                self._assign(st.target, item)
                self.ctx.append(item)
                try:
                    self._block(st.body)
                except _Stop as s:
                    if s.kind == "continue":
                        continue
                    if s.kind == "break":
                        broke = True
                        break
                    raise
                finally:
                    self.ctx.pop()
            if not broke:
                self._block(st.orelse)
        elif isinstance(st, ast.While):
            n = 0
            # `while pending:` / `while k < len(pairs):` only drives the iteration over a local container: not a condition on the data
            control = not any(isinstance(x, ast.Attribute) or (isinstance(x, ast.Call) and norm(x.func) != "len") or (isinstance(x, ast.Name) and x.id in OPTIONS) for x in ast.walk(st.test))
            while (self.fold(st.test) if control else self.cond(st.test)):
                n += 1
                if n > 100000:
                    raise Unknown("while loop does not end")
                frame = LoopFrame()
                self.ctx.append(frame)
                try:
                    self._block(st.body)
                except _Stop as s:
                    if s.kind == "continue":
                        continue
                    if s.kind == "break":
                        break
                    raise
                finally:
                    self.ctx.pop()
        elif isinstance(st, (ast.With, ast.AsyncWith)):
            for it in st.items:
                v = self.fold(it.context_expr)
                if it.optional_vars is not None:
                    self._assign(it.optional_vars, v)
            self._block(st.body)
        elif isinstance(st, ast.Raise):
            raise Raised(f"raise {ast.unparse(st.exc)[:60] if st.exc is not None else ''}", st)
        elif isinstance(st, ast.Import):
            lib = stdlib(self.repo, self.module)
            for a in st.names:
                if a.name in lib:
                    self.env[(a.asname or a.name)] = lib[a.name]
        elif isinstance(st, ast.ImportFrom):
            lib = stdlib(self.repo, self.module)
            for a in st.names:
                if st.module in lib and hasattr(lib[st.module], a.name):
                    self.env[a.asname or a.name] = getattr(lib[st.module], a.name)
        elif isinstance(st, (ast.Global, ast.Nonlocal)):
            pass
        elif isinstance(st, ast.Return) and Ev.cond_depth > 0 and st.value is not None and (isinstance(st.value, (ast.BoolOp, ast.Compare, ast.IfExp)) or (isinstance(st.value, ast.UnaryOp) and isinstance(st.value.op, ast.Not)) or (isinstance(st.value, ast.Call) and isinstance(st.value.func, ast.Name) and st.value.func.id == "bool")):
            v = self.cond(st.value)
            Ev.traced_return = True
            raise _Stop("return", v)
        elif isinstance(st, ast.Return) and Ev.cond_depth > 0 and (st.value is None or isinstance(st.value, ast.Constant) or (isinstance(st.value, ast.Name) and st.value.id in self.stored)):
            Ev.traced_return = True  # the value is fixed by the path, whose conditions are traced
            raise _Stop("return", self.fold(st.value) if st.value is not None else None)
        elif isinstance(st, ast.Expr) and isinstance(st.value, (ast.Yield, ast.YieldFrom)):
            # a generator helper is evaluated eagerly: the values it yields are collected in order
            if self.yielded is None:
                raise Unknown("yield outside a generator helper")
            if st.value.value is None:
                self.yielded.append(None)
            elif isinstance(st.value, ast.Yield):
                self.yielded.append(self.fold(st.value.value))
            else:
                self.yielded.extend(list(self.fold(st.value.value)))
        elif isinstance(st, ast.Assert):
            if not self.cond(st.test):
                raise Raised(f"assert {ast.unparse(st.test)[:60]}", st)
        elif isinstance(st, ast.FunctionDef):
            a = st.args
            if a.vararg or a.kwarg or a.kwonlyargs or a.posonlyargs or a.defaults:
                raise Unknown(f"nested function {st.name}")
            params = [p.arg for p in a.args]

            def call(*args, _st=st, _params=params):
                if len(args) != len(_params):
                    raise NotConst(f"arity of {_st.name}")
                sub = Ev(self.repo, self.module, dict(self.env, **dict(zip(_params, args))), self.conds)
                sub.ctx = self.ctx
                sub.tag = self.tag
                self.ctx.append(CallFrame(args))
                try:
                    if _is_generator(_st):
                        sub.yielded = []
                        sub.run(_st.body)
                        return sub.yielded
                    kind, val = sub.run(_st.body)
                    return val if kind == "return" else None
                finally:
                    self.ctx.pop()

            call._evaluated = True
            self.env[st.name] = call
        elif isinstance(st, ast.Expr) and isinstance(st.value, ast.Call):
            c = st.value
            f = c.func
            if isinstance(f, ast.Attribute) and isinstance(f.value, ast.Name) and f.value.id in ("logging", "logger", "warnings") and f.value.id not in self.env:
                # the message goes nowhere, but its arguments are evaluated whatever the log level: what they do to the
                # containers they read (a defaultdict look-up inserts) is part of the program
                for a_ in list(c.args) + [k_.value for k_ in c.keywords]:
                    try:
                        self.fold(a_)
                    except Unknown:
                        pass  # a diagnostic the evaluator does not read
                return
            self.fold(c)
        elif isinstance(st, ast.Expr):
            if not isinstance(st.value, (ast.Constant, ast.Name)):
                self.fold(st.value)
        elif isinstance(st, ast.Try):
            # the program's own handlers see the program's own exceptions (KeyError / IndexError ... of interpreted operations)
            from sa.blockeval import _EXC

            try:
                self._block(st.body)
            except Raised as r:
                ex = r.orig
                if ex is None:
                    raise
                for h in st.handlers:
                    names = [] if h.type is None else ([ast.unparse(t).split(".")[-1] for t in h.type.elts] if isinstance(h.type, ast.Tuple) else [ast.unparse(h.type).split(".")[-1]])
                    if h.type is None or type(ex).__name__ in names or any(t in _EXC and isinstance(ex, _EXC[t]) for t in names):
                        if h.name:
                            self.env[h.name] = ex
                        try:
                            self._block(h.body)
                        finally:
                            if st.finalbody:
                                self._block(st.finalbody)
                        break
                else:
                    if st.finalbody:
                        self._block(st.finalbody)
                    raise
            except (_Stop, Unknown):
                if st.finalbody and False:
                    pass
                raise
            else:
                self._block(st.orelse)
                if st.finalbody:
                    self._block(st.finalbody)
        elif isinstance(st, ast.AugAssign) and isinstance(st.target, (ast.Subscript, ast.Attribute)):
            load = copy_load(st.target)
            self._assign(st.target, self.fold(ast.BinOp(left=load, op=st.op, right=st.value)))
        elif isinstance(st, ast.Delete):
            raise Unknown("del statement")
        else:
            BlockEval._stmt(self, st)


def base_env(repo) -> Dict[str, Any]:
    """Stubs every evaluation of clashfinder code starts from."""
    env: Dict[str, Any] = {"np": np_stub(), "numpy": np_stub(), "set": SetS, "frozenset": SetS}
    mod = repo.module(M)
    lib = stdlib(repo, M)
    for alias, (src, orig) in mod.imports.items():
        if orig is None and src in lib:  # import itertools [as it]
            env[alias] = lib[src]
        elif orig is not None and src in lib and hasattr(lib[src], orig):  # from operator import itemgetter [as ig]
            env[alias] = getattr(lib[src], orig)
    for cname in mod.classes:
        cls = repo.cls(M, cname)
        if any(norm(b).split(".")[-1] in ("Enum", "IntEnum", "StrEnum") for b in cls.bases):
            env[cname] = EnumS(repo, M, cname)
        else:
            rec = RecordClassS.read(repo, M, cls) or ClassS.read(repo, M, cls)
            if rec is not None:
                env[cname] = rec
    for name, expr in mod.consts.items():  # Pair = namedtuple("Pair", "residue atom")
        if isinstance(expr, ast.Call) and norm(expr.func).split(".")[-1] == "namedtuple" and name not in env:
            try:
                env[name] = Folder(repo, M, {"namedtuple": lib["collections"].namedtuple, "collections": lib["collections"]}).fold(expr)
            except (NotConst, TypeError, ValueError):
                pass
    return env


# =====================================================================================================================
# find_clashes on a structure of two-atom clusters, one per input class

DELTA = 1e-6  # half-width of the undecided band around a threshold (float distance arithmetic is not decided)
UNIT = (2.0 / 7.0, 3.0 / 7.0, 6.0 / 7.0)  # skew unit vector: every coordinate takes part in the distance
# occupancy classes: sum exactly 1, both missing, a stated 0.0, missing + 0.0, sum clearly not 1, sum close to but not 1
# (two occupancies with up to three decimals that add up to 1 do so exactly in floats: `== 1.0` and isclose agree on pairs)
OCC = {"half+half": (0.5, 0.5), "none+none": (None, None), "zero+one": (0.0, 1.0), "none+zero": (None, 0.0), "0.3+0.3": (0.3, 0.3), "0.5+0.49": (0.5, 0.49)}
# two *different* residues that agree on a part of their identity (a comparison narrower than residue equality confuses them)
TWINS = {"icode": "two different residues that share chain and number (insertion codes differ)", "chain": "two different residues that share the number (chains differ)", "name": "two different residues that share chain, number and insertion code (residue names differ)"}


class Cluster:
    def __init__(self, idx, ta, tb, dist, dcell, same_res, nuc_a, nuc_b, same_name, occ, group, twin=None):
        self.idx, self.ta, self.tb, self.dist, self.dcell, self.twin = idx, ta, tb, dist, dcell, twin
        self.same_res, self.nuc_a, self.nuc_b, self.same_name, self.occ, self.group = same_res, nuc_a, nuc_b, same_name, occ, group
        ox = 100.0 * (idx + 1)
        oa, ob = OCC[occ]
        self.a = AtomS(ta + "1", (ox, 0.0, 0.0), oa)
        self.b = AtomS(tb + ("1" if same_name else "2"), (ox + dist * UNIT[0], dist * UNIT[1], dist * UNIT[2]), ob)
        self.a.cluster = self.b.cluster = self
        if same_res:
            self.residues = [ResidueS("A", 2 * idx + 1, [self.a, self.b], nuc_a)]
        elif twin is not None:
            second = {"icode": dict(chain="A", icode="A"), "chain": dict(chain="B"), "name": dict(chain="A", name="A")}[twin]
            self.residues = [ResidueS("A", 2 * idx + 1, [self.a], nuc_a), ResidueS(second.pop("chain"), 2 * idx + 1, [self.b], nuc_b, **second)]
        else:
            self.residues = [ResidueS("A", 2 * idx + 1, [self.a], nuc_a), ResidueS("A", 2 * idx + 2, [self.b], nuc_b)]
        self.occsum = (1.0 if oa is None else oa) + (1.0 if ob is None else ob)

    def describe(self) -> str:
        res = f"one {'nucleotide' if self.nuc_a else 'non-nucleotide'} residue" if self.same_res else f"two residues ({'nucleotide' if self.nuc_a else 'non-nucleotide'}, {'nucleotide' if self.nuc_b else 'non-nucleotide'})"
        if self.twin:
            res = TWINS[self.twin]
        oa, ob = OCC[self.occ]
        return f"atoms {self.a.name}/{self.b.name} in {res}, distance {self.dcell}, occupancies {oa} + {ob}"


def build_structure(radii: Dict[str, float], extra: float) -> List[Cluster]:
    cl: List[Cluster] = []

    def dists(ta, tb):
        t0 = radii[ta] + radii[tb]
        return [(t0 - DELTA, "just below r_a + r_b"), (t0 + DELTA, "just above r_a + r_b"), (t0 + extra - DELTA, f"just below r_a + r_b + {extra}"), (t0 + extra + DELTA, f"just above r_a + r_b + {extra}")]

    types_ = [t for t in ("C", "N", "O", "P") if isinstance(radii.get(t), float)]
    for ta in types_:
        for tb in types_:
            for d, cell in dists(ta, tb):
                cl.append(Cluster(len(cl), ta, tb, d, cell, False, True, True, False, "half+half", "T"))
    t = "O" if "O" in types_ else types_[0]
    dd = dists(t, t)
    for same_res, nucs in ((True, [(True, True), (False, False)]), (False, [(True, True), (True, False), (False, True), (False, False)])):
        for na, nb in nucs:
            for same_name in (True, False):
                for occ in OCC:
                    for d, cell in (dd[0], dd[2]):
                        cl.append(Cluster(len(cl), t, t, d, cell, same_res, na, nb, same_name, occ, "F"))
    # two atoms at the very same position (superposed copies, alternate conformers sharing a position): distance exactly 0
    cl.append(Cluster(len(cl), t, t, 0.0, "exactly 0 (coincident atoms)", False, True, True, False, "half+half", "T"))
    # different residues that agree on chain / number / insertion code: still two residues
    for twin in TWINS:
        for same_name in (True, False):
            cl.append(Cluster(len(cl), t, t, dd[0][0], dd[0][1], False, True, True, same_name, "half+half", "F", twin))
    # atoms of no known type right next to typed ones
    # (hydrogens whose names contain the letter of a typed element - HO5', HN1, ... - are of no known type either)
    for ta, tb in (("H", t), (t, "M"), ("H", "H"), ("HO", t), (t, "HN"), ("HC", "HP")):
        cl.append(Cluster(len(cl), ta, tb, 0.2, "0.2 A", False, True, True, False, "half+half", "U"))
    return cl


def typed(name: str) -> bool:
    return name.strip()[:1] in ("C", "N", "O", "P")


def selected(opts, nuc: bool) -> bool:
    return (not opts["nucleic_acid_only"]) or nuc


def expected_listed(c: Cluster, opts, radii, extra) -> bool:
    if not (typed(c.a.name) and typed(c.b.name)):
        return False
    if not (selected(opts, c.nuc_a) and selected(opts, c.nuc_a if c.same_res else c.nuc_b)):
        return False
    if opts["ignore_autoclashes"] and c.same_res:
        return False
    if opts["require_same_atom_name"] and not c.same_name:
        return False
    if c.dist > radii[c.ta] + radii[c.tb] + (extra if opts["enable_molprobity_mode"] else 0.0):
        return False
    return bool(opts["ignore_occupancy"] or math.isclose(c.occsum, 1.0))


def all_options():
    for vals in itertools.product((False, True), repeat=len(OPTIONS)):
        yield dict(zip(OPTIONS, vals))


def optstr(opts) -> str:
    on = [k for k in OPTIONS if opts[k]]
    return "options {" + (", ".join(on) if on else "none") + "}"


class Trace(dict):
    """condition trace (id(node) -> [node, records]) plus, per run and atom, the last condition met in the collection loop"""

    def __init__(self):
        dict.__init__(self)
        self.last: Dict[Tuple[Any, int], Tuple[ast.AST, bool]] = {}


class ClashEval:
    """Everything the evaluation of find_clashes gives: listed pairs per option combination, KD-tree radii, condition trace."""

    def __init__(self, repo, fi, radii: Dict[str, float], extra: float):
        self.repo, self.fi, self.radii, self.extra = repo, fi, radii, extra
        params = [a.arg for a in fi.node.args.args]
        if len(params) != 1 + len(OPTIONS) or set(params[1:]) != set(OPTIONS):
            raise Unknown(f"parameters of find_clashes are {params}")
        self.residues_param = params[0]
        self.clusters = build_structure(radii, extra)
        self.trace: Dict[int, Any] = Trace()
        self.points: Dict[Any, List[Any]] = {}  # run tag -> atoms of the KD-tree points, in index order
        self.query_stmts: List[Any] = []  # statements that query the KD-tree
        self.radius: Dict[Tuple, List[float]] = {}
        self.listed: Dict[Tuple, Dict[int, Any]] = {}  # option tuple -> cluster idx -> record
        self.problems: List[Tuple[str, str, Any]] = []  # (rule, message, cluster idx or None)
        self.small: List[Tuple[Dict, str, Any]] = []
        self.raised: List[Tuple[Dict, Raised]] = []
        env0 = base_env(repo)
        residues = [r for c in self.clusters for r in c.residues]
        self.n_evals = 0
        for opts in all_options():
            key = tuple(opts[k] for k in OPTIONS)
            res, log = self._run(env0, residues, opts, ("big", key))
            self.radius[key] = log
            if res is None:
                continue
            self.listed[key] = self._read(res, opts)
        # fewer than two atoms considered: nothing to list (and nothing may go wrong)
        lone = Cluster(10**4, "P", "P", 0.3, "0.3 A", True, False, False, False, "half+half", "S")
        one = Cluster(10**4 + 1, "P", "H", 0.3, "0.3 A", True, True, True, False, "half+half", "S")
        self.small_inputs = {"no residue": [], "one typed atom": one.residues, "two close atoms of one non-nucleotide residue": lone.residues}
        self.small_bad: List[Tuple[str, Dict, str]] = []
        for label, rs in self.small_inputs.items():
            for opts in all_options():
                key = tuple(opts[k] for k in OPTIONS)
                res, _ = self._run(env0, rs, opts, ("small", label, key))
                if res is None:
                    continue
                want = [c.idx for c in (lone, one) if rs is c.residues and expected_listed(c, opts, self.radii, self.extra)]
                got = sorted(self._read(res, opts)) if isinstance(res, list) else None
                if got != want:
                    self.small_bad.append((label, opts, f"the result is `{str(res)[:60]}`, expected {'one record' if want else 'an empty list'}"))

    def _run(self, env0, residues, opts, tag):
        log: List[float] = []
        kd = KDTreeModel(log)
        env = dict(env0, KDTree=kd, cKDTree=kd, **opts)
        env[self.residues_param] = list(residues)
        ev = Ev(self.repo, M, env, self.trace)
        ev.tag = tag
        self.n_evals += 1
        try:
            kind, val = ev.run(self.fi.node.body)
        except Raised as r:
            self.raised.append((opts, r))
            return None, log
        finally:
            if kd.built:
                self.points[tag] = [p.atom for p in kd.built[-1].points]
            for c in kd.calls:
                if not any(c is x for x in self.query_stmts):
                    self.query_stmts.append(c)
        if kind != "return":
            raise Unknown("find_clashes does not return a value")
        return val, log

    def _read(self, res, opts) -> Dict[int, Any]:
        out: Dict[int, Any] = {}
        if not isinstance(res, list):
            self.problems.append(("pair-roles", f"find_clashes returns {type(res).__name__}, not a list of records", None))
            return out
        for rec in res:
            ok = isinstance(rec, tuple) and len(rec) == 3 and all(isinstance(p, tuple) and len(p) == 2 and isinstance(p[0], ResidueS) and isinstance(p[1], AtomS) for p in rec[:2])
            if not ok:
                self.problems.append(("pair-roles", f"a record is `{str(rec)[:80]}`, not ((residue, atom), (residue, atom), occupancy sum)", None))
                continue
            (r1, a1), (r2, a2), s = rec
            c = a1.cluster
            if a2.cluster is not c or a1 is a2:
                self.problems.append(("pair-roles", f"{optstr(opts)}: atoms {a1.name} and {a2.name} that are not a close pair are listed together", None))
                continue
            if a1.owner is not r1 or a2.owner is not r2:
                self.problems.append(("pair-roles", f"{optstr(opts)}: a record pairs an atom with a residue it does not belong to ({c.describe()})", c.idx))
            elif a1 is not c.a:
                self.problems.append(("pair-roles", f"{optstr(opts)}: the two atoms of a record are not in the order of the structure ({c.describe()})", c.idx))
            if c.idx in out:
                self.problems.append(("pair-roles", f"{optstr(opts)}: a pair is listed twice ({c.describe()})", c.idx))
            if not (isinstance(s, float) and math.isclose(s, c.occsum, rel_tol=0, abs_tol=1e-12)):
                self.problems.append(("occupancy-sum", f"{optstr(opts)}: recorded occupancy sum {s!r} for {c.describe()}: expected {c.occsum}", c.idx))
            out[c.idx] = rec
        return out

    # ---- decision table ------------------------------------------------------------------------------------------
    def deviations(self) -> List[Tuple[Dict, Cluster, bool]]:
        dev = []
        for opts in all_options():
            key = tuple(opts[k] for k in OPTIONS)
            if key not in self.listed:
                continue
            got = self.listed[key]
            for c in self.clusters:
                want = expected_listed(c, opts, self.radii, self.extra)
                if want != (c.idx in got):
                    dev.append((opts, c, want))
        return dev

    # ---- closed world: every atomic condition is a function of one feature of the definition -------------------------
    def _features(self, tag, ctx) -> Dict[str, bool]:
        key = tag[-1]
        opts = dict(zip(OPTIONS, key))
        f: Dict[str, bool] = {f"option {k}": bool(v) for k, v in opts.items()}
        if tag[0] == "small":
            rs = self.small_inputs[tag[1]]
            n = sum(1 for r in rs if selected(opts, r.is_nucleotide) for a in r.atoms if typed(a.name))
            f["fewer than two atoms considered"] = n < 2
            f["fewer than two typed atoms in the structure"] = sum(1 for r in rs for a in r.atoms if typed(a.name)) < 2
        else:
            f["fewer than two atoms considered"] = False
            f["fewer than two typed atoms in the structure"] = False
        atom = res = arg = None
        pair = self._pair_of(tag, ctx)
        for item in reversed(ctx):
            if isinstance(item, LoopFrame):
                continue
            flat_ = list(item) if isinstance(item, tuple) and not isinstance(item, PairIdx) else [item]
            if isinstance(item, CallFrame):
                # arguments of the evaluated helper the condition is in: a single atom argument is a feature of its own
                if arg is None and sum(1 for x in flat_ if isinstance(x, AtomS)) == 1:
                    arg = [x for x in flat_ if isinstance(x, AtomS)][0]
                continue
            if pair is not None:
                continue
            if atom is None and any(isinstance(x, AtomS) for x in flat_):
                atom = [x for x in flat_ if isinstance(x, AtomS)][0]
                break
            if res is None and any(isinstance(x, ResidueS) for x in flat_):
                res = [x for x in flat_ if isinstance(x, ResidueS)][0]
                break
        f["in pair loop"] = pair is not None
        if arg is not None:
            f["occupancy of the atom handed to the helper missing"] = arg.occupancy is None
            f["the atom handed to the helper is of type C/N/O/P"] = typed(arg.name)
        if pair is not None:
            f["the first index is below the second"] = pair[2] < pair[3]
            f["the two indices are equal"] = pair[2] == pair[3]
        if pair is not None and pair[0] is not None and pair[0].cluster is pair[1].cluster:
            a, b = pair[0], pair[1]
            c = a.cluster
            f["the two residues are the same"] = a.owner is b.owner
            f["the first residue is a nucleotide"] = bool(a.owner.is_nucleotide)
            f["the second residue is a nucleotide"] = bool(b.owner.is_nucleotide)
            f["both residues are nucleotides"] = bool(a.owner.is_nucleotide and b.owner.is_nucleotide)
            f["the two atom names are equal"] = a.name == b.name
            if typed(a.name) and typed(b.name):
                f["distance above r_a + r_b + extra"] = c.dist > self.radii[a.name[0]] + self.radii[b.name[0]] + (self.extra if opts["enable_molprobity_mode"] else 0.0)
            f["occupancy sum is 1"] = math.isclose(c.occsum, 1.0)
            f["the pair is a clash by the definition"] = expected_listed(c, opts, self.radii, self.extra) if a is c.a and b is c.b else False
            f["occupancy of the first atom missing"] = a.occupancy is None
            f["occupancy of the second atom missing"] = b.occupancy is None
        elif atom is not None:
            f["atom is of type C/N/O/P"] = typed(atom.name)
            f["residue is a nucleotide"] = bool(atom.owner.is_nucleotide)
            f["occupancy of the atom missing"] = atom.occupancy is None
        elif res is not None:
            f["residue is a nucleotide"] = bool(res.is_nucleotide)
        return f

    def _pair_of(self, tag, ctx):
        """(atom, atom, i, j) of the candidate pair a condition is evaluated for: the innermost loop item(s) that are indices
        handed out by the KD-tree model (a pair of query_pairs; an index of a ball query with the index of the point it was
        asked for), None outside such a loop."""
        pts = self.points.get(tag) or []
        items = [x.item if isinstance(x, LoopFrame) else x for x in reversed(ctx) if not isinstance(x, CallFrame) and not (isinstance(x, LoopFrame) and x.item is None)]
        ij = None
        for n, item in enumerate(items):
            if isinstance(item, PairIdx):
                ij = (int(item[0]), int(item[1]))
                break
            if isinstance(item, tuple) and len(item) == 2 and isinstance(item[0], tuple) and not isinstance(item[0], PairIdx):
                item = item[0] + (item[1],)  # ((i, j), distance) of a sparse matrix's items()
            if isinstance(item, tuple) and len(item) in (2, 3) and all(_isidx(x) for x in item[:2]) and any(isinstance(x, IdxS) for x in item[:2]) and (len(item) == 2 or isinstance(item[2], float)):
                ij = (int(item[0]), int(item[1]))
                break
            if isinstance(item, IdxS):
                for outer in items[n + 1 :]:
                    if _isidx(outer):
                        ij = (int(outer), int(item))
                        break
                    if isinstance(outer, tuple) and outer and _isidx(outer[0]):
                        ij = (int(outer[0]), int(item))
                        break
                break
            flat_ = list(item) if isinstance(item, tuple) else [item]
            # a candidate handed on as the two (residue, atom) records themselves (pairs mapped through a generator / list first)
            deep = [y for x in flat_ for y in (list(x) if isinstance(x, tuple) else [x])]
            ats = [y for y in deep if isinstance(y, AtomS)]
            if len(ats) == 2 and ats[0] is not ats[1] and pts:
                ia = next((k_ for k_, p_ in enumerate(pts) if p_ is ats[0]), None)
                ib = next((k_ for k_, p_ in enumerate(pts) if p_ is ats[1]), None)
                if ia is not None and ib is not None:
                    ij = (ia, ib)
                    break
            if any(isinstance(x, (AtomS, ResidueS)) for x in flat_):
                break
        if ij is None:
            return None
        at = lambda i: pts[i] if 0 <= i < len(pts) else None
        return (at(ij[0]), at(ij[1]), ij[0], ij[1])

    def classify_conditions(self):
        """[(node, feature or None, negated, in_pair_loop, n_records)]"""
        out = []
        cache: Dict[Tuple, Dict[str, bool]] = {}
        dirty = {c.idx for _, c, _ in self.deviations()} | {p[2] for p in self.problems if p[2] is not None}
        for nid, (node, recs) in self.trace.items():
            names = {n.id for n in ast.walk(node) if isinstance(n, ast.Name)}
            if names and names <= set(OPTIONS):
                out.append((node, "the options only", False, any(self._pair_of(tag, ctx) is not None for tag, ctx, _ in recs[:1]), len(recs), False))
                continue
            rows = []
            skipped = 0
            for tag, ctx, val in recs:
                pr = self._pair_of(tag, ctx)
                if pr is not None and pr[0] is not None and pr[0].cluster is not None and pr[0].cluster.idx in dirty:
                    skipped += 1
                    continue  # representatives on which the decision table already deviates say nothing about the condition
                ck = (tag, tuple(id(x) for x in ctx))
                if ck not in cache:
                    cache[ck] = self._features(tag, ctx)
                rows.append((cache[ck], val))
            if not rows:
                continue
            in_pair = any(f["in pair loop"] for f, _ in rows)
            vals = {v for _, v in rows}
            found = None
            neg = False
            if len(vals) == 2:
                names = set(rows[0][0])
                for f, _ in rows:
                    names &= set(f)
                names.discard("in pair loop")
                for nm in sorted(names):
                    if all(f[nm] == v for f, v in rows):
                        found, neg = nm, False
                        break
                    if all(f[nm] != v for f, v in rows):
                        found, neg = nm, True
                        break
            if found is None and len(vals) == 2:
                # not one feature: a combination of them? (the value is the same wherever all features of the definition agree)
                common = set(rows[0][0])
                for f, _ in rows:
                    common &= set(f)
                common.discard("in pair loop")
                seen_: Dict[Tuple, bool] = {}
                joint = True
                for f, v in rows:
                    kf = tuple(f[nm] for nm in sorted(common))
                    if seen_.setdefault(kf, v) != v:
                        joint = False
                        break
                if joint:
                    found = "a combination of features of the definition"
            if found is None and skipped and len(vals) == 1:
                continue  # constant on the representatives that are left: undecided here, the deviation itself is reported
            out.append((node, found, neg, in_pair, len(rows), len(vals) == 1))
        out.sort(key=lambda t: (getattr(t[0], "lineno", 0), getattr(t[0], "col_offset", 0)))
        return out


def _compound(node: ast.AST) -> bool:
    """a traced 'atomic' condition that still holds boolean structure of its own (read as a whole, not atom by atom)"""
    inner = [n for n in ast.walk(node) if n is not node]
    if any(isinstance(n, (ast.BoolOp, ast.IfExp, ast.Lambda, ast.ListComp, ast.SetComp, ast.DictComp, ast.GeneratorExp, ast.Dict)) for n in inner):
        return True
    if sum(1 for n in ast.walk(node) if isinstance(n, ast.Compare)) >= 2:
        return True
    return isinstance(node, ast.Subscript)


def _K(fi, what: str) -> str:
    return f"{fi.module.name}:{fi.qualname}:{what}"


def check_find_clashes(chk, fi, radii: Dict[str, float], extra: float) -> Optional[str]:
    """Fact-level rules for find_clashes; None when the function could be evaluated, else the reason."""
    try:
        ce = ClashEval(chk.repo, fi, radii, extra)
    except Unknown as ex:
        return str(ex)
    except RecursionError:
        return "recursion while evaluating"
    except (TypeError, AttributeError, NotConst) as ex:  # an operation the stubs do not model
        return f"{type(ex).__name__}: {ex}"
    site = fi.where
    n_cl = len(ce.clusters)
    # decided on the current code whatever its shape: evidence rules
    chk.robust |= {"clash-definition", "distance-threshold", "option-filter", "occupancy-rule", "occupancy-sum", "pair-roles", "search-radius", "collection", "option-extra-filter"}
    # anything raised on a representative
    for opts, r in ce.raised[:2]:
        chk.violation("clash-definition", fi.site(r.node) if r.node is not None else site, f"find_clashes raises {r.what} on the representative structure with {optstr(opts)}", _K(fi, "raises"))
    # fewer than two atoms
    if ce.small_bad:
        label, opts, what = ce.small_bad[0]
        chk.violation("clash-definition", site, f"with {label} and {optstr(opts)} {what}", _K(fi, "small"))
    # search radius
    T = {mp: max(radii[a] + radii[b] for a in radii for b in radii) + (extra if mp else 0.0) for mp in (True, False)}
    worst = None
    unread = False
    for key, log in ce.radius.items():
        if key not in ce.listed:
            continue
        mp = key[OPTIONS.index("enable_molprobity_mode")]
        if len(set(log)) != 1:
            unread = True  # no query (every pair is examined) or a radius that varies per query
            continue
        if log[0] + 1e-12 < T[mp] and worst is None:
            pair = max(((a, b) for a in radii for b in radii), key=lambda p: radii[p[0]] + radii[p[1]])
            worst = (mp, pair[0], pair[1], log[0], T[mp])
    if unread:
        chk.ok("search-radius", site, "the evaluation did not meet one KD-tree radius per call (no query, or a radius per queried point): that no accepted pair is outside the search is decided by rule `distance-threshold` on all 16 type pairs just below both thresholds")
    else:
        qsite, qtext = site, ""
        if ce.query_stmts:
            qs = ce.query_stmts[0]
            qsite = fi.site(qs)
            qcall = next((n for n in ast.walk(qs) if isinstance(n, ast.Call) and isinstance(n.func, ast.Attribute) and n.func.attr.startswith("query")), None)
            qtext = f" of `{norm(qcall)[:80]}`" if qcall is not None else ""
        chk.expect(worst is None, "search-radius", qsite, "the KD-tree radius (as evaluated for all 32 option combinations) is at least r_a + r_b + extra for every pair of atom types", f"the KD-tree radius{qtext} ({worst[3]:.2f} A) is smaller than the acceptance threshold of {worst[1]}-{worst[2]} ({worst[4]:.2f} A, molprobity={worst[0]}): such clashes are never examined" if worst else "", _K(fi, "search-radius"), found=list(worst) if worst else None)
    # record shape, roles, sums
    by_rule: Dict[str, List[str]] = {}
    for rule, msg, _ in ce.problems:
        by_rule.setdefault(rule, []).append(msg)
    chk.expect("pair-roles" not in by_rule, "pair-roles", site, "every record is ((residue of a, a), (residue of b, b), sum) with a before b in the structure, each close pair at most once", by_rule.get("pair-roles", [""])[0], _K(fi, "roles"))
    chk.expect("occupancy-sum" not in by_rule, "occupancy-sum", site, "the recorded sum is occ(a) + occ(b) with 1.0 for a missing occupancy (0.0 stays 0.0)", by_rule.get("occupancy-sum", [""])[0], _K(fi, "occupancy-sum"))
    # decision table
    dev = ce.deviations()
    o = lambda opts, **kw: all(opts[k] == v for k, v in kw.items())

    seen_pairs: Dict[Tuple, set] = {}

    def examined(key) -> set:
        """clusters whose pair met at least one traced condition in the run with these options"""
        if not seen_pairs:
            for node, recs in ce.trace.values():
                for tag, ctx, _ in recs:
                    if tag and tag[0] == "big":
                        pr = ce._pair_of(tag, ctx)
                        if pr is not None and pr[0] is not None and pr[0].cluster is not None and pr[1] is not None and pr[0].cluster is pr[1].cluster and pr[0] is not pr[1]:
                            seen_pairs.setdefault(tag[-1], set()).add(pr[0].cluster.idx)
            seen_pairs.setdefault(None, set())
        return seen_pairs.get(key, set())

    def say(d) -> str:
        opts, c, want = d
        thr = radii.get(c.ta, 0) + radii.get(c.tb, 0) + (extra if opts["enable_molprobity_mode"] else 0.0) if c.ta in radii and c.tb in radii else None
        R = ce.radius.get(tuple(opts[k] for k in OPTIONS)) or []
        gone = ""
        if want:
            tag_ = ("big", tuple(opts[k] for k in OPTIONS))
            pts_ = ce.points.get(tag_)
            for atom_ in (c.a, c.b):
                if pts_ is not None and not any(atom_ is x for x in pts_) and not gone:
                    last_ = ce.trace.last.get((tag_, atom_.k))
                    gone = f"; atom {atom_.name} (occupancy {atom_.occupancy}) is never put into the KD-tree" + (f": dropped at line {getattr(last_[0], 'lineno', '?')} where `{norm(last_[0])[:60]}` is {last_[1]}" if last_ else "")
        if want and not gone and c.idx not in examined(tuple(opts[k] for k in OPTIONS)):
            q_ = ce.query_stmts[0] if ce.query_stmts else None
            gone = "; both atoms are in the KD-tree but the pair never reaches a filter: the candidate enumeration" + (f" (line {q_.lineno}: `{norm(q_)[:90]}`)" if q_ is not None else "") + " does not yield it"
        reach = f"; the KD-tree search radius {R[0]:.2f} A does not reach it" if want and len(set(R)) == 1 and c.dist > R[0] else ""
        return f"with {optstr(opts)} the pair [{c.describe()}] is {'not listed but is a clash' if want else 'listed but is not a clash'} by the definition" + (f" (threshold {thr:.2f} A{reach}{gone})" if thr is not None else gone)

    slices = []
    for mp in (False, True):
        slices.append(("distance-threshold", f"thr:{mp}", f"MolProbity mode {'on' if mp else 'off'}: a pair of typed atoms is accepted iff its distance is at most r_a + r_b{' + %s' % extra if mp else ''}, for all 16 ordered type pairs, just below and just above both thresholds", lambda op, c, mp=mp: c.group == "T" and o(op, nucleic_acid_only=False, ignore_autoclashes=False, require_same_atom_name=False, ignore_occupancy=True, enable_molprobity_mode=mp)))
    slices.append(("option-filter", "option:ignore_autoclashes", "ignore_autoclashes skips exactly the pairs within one residue (two residues that share chain, number or insertion code are still two residues)", lambda op, c: c.group == "F" and c.occ == "half+half" and c.nuc_a and c.nuc_b and o(op, nucleic_acid_only=False, require_same_atom_name=False, ignore_occupancy=True, enable_molprobity_mode=False)))
    slices.append(("option-filter", "option:require_same_atom_name", "require_same_atom_name skips exactly the pairs with different atom names", lambda op, c: c.group == "F" and c.occ == "half+half" and c.nuc_a and c.nuc_b and o(op, nucleic_acid_only=False, ignore_autoclashes=False, ignore_occupancy=True, enable_molprobity_mode=False)))
    slices.append(("occupancy-rule", "occupancy-rule", f"a close pair is listed iff occupancies are ignored or their sum is 1 ({len(OCC)} occupancy classes incl. 0.0, missing values and 0.5 + 0.49)", lambda op, c: c.group == "F" and not c.same_res and c.nuc_a and c.nuc_b and not c.same_name and o(op, nucleic_acid_only=False, ignore_autoclashes=False, require_same_atom_name=False, enable_molprobity_mode=False)))
    slices.append(("collection", "collection", "atoms considered = atoms whose name starts with C/N/O/P, of all residues or of nucleotides only when nucleic_acid_only is set (6 residue configurations; atoms of other types - H, M, and hydrogens named HO/HN/HC/HP - next to typed ones)", lambda op, c: (c.group == "U" or (c.group == "F" and c.occ == "half+half" and not c.same_name)) and o(op, ignore_autoclashes=False, require_same_atom_name=False, ignore_occupancy=True, enable_molprobity_mode=False)))
    any_slice = False
    for rule, key, okmsg, pred in slices:
        mine = [d for d in dev if pred(d[0], d[1])]
        mine.sort(key=lambda d: (sum(d[0].values()), d[1].idx))
        if mine:
            any_slice = True
        chk.expect(not mine, rule, site, okmsg, say(mine[0]) if mine else "", _K(fi, key), found=[f"{optstr(d[0])}: {d[1].describe()} -> expected {'listed' if d[2] else 'not listed'}" for d in mine[:4]] or None)
    if not ce.raised:
        if dev and not any_slice:
            dev.sort(key=lambda d: (sum(d[0].values()), d[1].idx))
            chk.violation("clash-definition", site, say(dev[0]), _K(fi, "table"), found=[f"{optstr(d[0])}: {d[1].describe()} -> expected {'listed' if d[2] else 'not listed'}" for d in dev[:4]])
        elif not dev:
            chk.ok("clash-definition", site, f"find_clashes evaluated on {n_cl} two-atom clusters x 32 option combinations ({ce.n_evals} evaluations incl. inputs with fewer than two atoms): the listed pairs are exactly those of the van-der-Waals definition")
    # closed world
    conds = ce.classify_conditions()
    extra_f = [t for t in conds if t[1] is None and t[3]]
    unread_c = [t for t in conds if t[1] is None and not t[3]]
    for node, _, _, _, n, const in extra_f:
        if not const and _compound(node):
            # a compound the trace could not take apart (table look-up, comprehension, lambda ...): not read, so no verdict on it -
            # the decision table above has compared the listed pairs with the definition on every representative
            chk.error("option-extra-filter", fi.site(node), f"condition `{norm(node)[:70]}` in the clash loop is a compound expression the closed-world reading cannot take apart into atomic conditions: not decided whether it is an additional filter")
            continue
        chk.violation("option-extra-filter", fi.site(node), f"condition `{norm(node)[:70]}` in the clash loop is {'constant on all representatives' if const else 'not a function of one feature of the definition (option, same residue, nucleotide, equal names, distance vs threshold, occupancy)'}: an additional filter", _K(fi, f"extra:{norm(node)[:50]}"))
    if not extra_f:
        chk.ok("option-extra-filter", site, f"{sum(1 for t in conds if t[3])} atomic conditions in the clash loop, each a function of one feature of the definition: " + "; ".join(f"`{norm(t[0])[:40]}` = {'not ' if t[2] else ''}{t[1]}" for t in conds if t[3])[:600])
    for node, _, _, _, n, const in unread_c:
        chk.error("collection", fi.site(node), f"condition `{norm(node)[:70]}` outside the clash loop is not a function of one feature of the definition (option, nucleotide, atom type, fewer than two atoms)")
    return None


# =====================================================================================================================
# main(): report and CSV on a representative clash list

TOK = re.compile(r"«[^»]+»")
NUM = re.compile(r"(?<![\w.«])-?\d+(?:\.\d+)?(?:[eE][-+]?\d+)?(?![\w.»])")


class SwitchS(str):
    """value of a boolean command-line switch: a token naming the switch; truthy in the run where the switches are given"""

    on = True

    def __bool__(self):
        return self.on


def _has_switch(v, depth=0):
    """the switch token a value carries (itself, or inside a list / tuple / dict / set), else None"""
    if isinstance(v, str) and v.startswith("«o") and v.endswith("»"):
        return v
    if depth < 3 and isinstance(v, (list, tuple, set, frozenset, SetS)):
        for x in v:
            t = _has_switch(x, depth + 1)
            if t:
                return t
    if depth < 3 and isinstance(v, dict):
        for x in list(v.keys()) + list(v.values()):
            t = _has_switch(x, depth + 1)
            if t:
                return t
    return None


class Capture:
    def __init__(self):
        self.lines: List[str] = []
        self.rows: List[List[Any]] = []
        self.find_args: List[Tuple[tuple, dict]] = []
        self.reader_args: List[Tuple[tuple, dict]] = []  # calls of read_3d_structure
        self.structure: List[Any] = []  # the residues of the structure the reader stub returns
        self.sites: List[Tuple[Any, List[Tuple[str, float]]]] = []  # per printed line: (print statement, numbers it formats)
        self.switches: List[Tuple[str, str, str, tuple]] = []  # declared arguments: (command-line name, action, dest, option strings)
        self.namespace: Dict[str, Any] = {}
        self.meta_args: List[Any] = []
        self.opened: List[Tuple[Any, ...]] = []


class FileS(Stub):
    def __init__(self, name, mode="r"):
        self.name, self.mode = name, mode

    def write(self, *_):
        return 0

    def close(self):
        return None


class WriterS(Stub):
    def __init__(self, cap: Capture, fieldnames: Optional[List[Any]] = None):
        self.cap, self.fieldnames = cap, fieldnames

    def writeheader(self):
        if self.fieldnames is None:
            raise NotConst("writeheader of a plain csv writer")
        self.cap.rows.append(list(self.fieldnames))

    def writerow(self, row):
        if self.fieldnames is not None:
            if not isinstance(row, dict) or any(k not in self.fieldnames for k in row):
                raise ValueError("dict contains fields not in fieldnames")
            row = [row.get(k, "") for k in self.fieldnames]
        self.cap.rows.append(list(row))

    def writerows(self, rows):
        for r in rows:
            self.writerow(r)


class RowS(dict):
    """one row of a metadata category: every item present, its value a token"""

    def __init__(self, category: str):
        dict.__init__(self)
        self.category = category

    def __missing__(self, item):
        return f"«m{self.category}.{item}»"

    def get(self, item, default=None):
        return self[item]

    def __contains__(self, item):
        return True

    def __bool__(self):
        return True


class MetaS(Stub):
    """read_metadata result: any category -> one row -> any item -> a token."""

    def __init__(self, path=()):
        self.path = path

    def __getitem__(self, k):
        if isinstance(k, int):
            if k != 0:
                raise IndexError(k)
            return MetaS(self.path)
        if len(self.path) >= 1:
            return f"«m{self.path[0]}.{k}»"
        return MetaS(self.path + (k,))

    def get(self, k, d=None):
        return self[k]

    def __contains__(self, k):
        return True

    def __len__(self):
        return 1

    def __iter__(self):
        return iter([MetaS(self.path)])

    def __bool__(self):
        return True


def representative_clashes():
    """Residues whose file order is both equal and opposite to their sort order; several records per residue pair and
    several residue pairs per chain pair, the largest occupancy sum neither first nor last - in file order and in sort
    order; one pair within a residue; residue pairs that differ only in a part of the residues' identity (chain, insertion
    code, residue name), so that a key narrower than the pair of residues merges them."""
    made: Dict[str, AtomS] = {}

    def mk(tok):
        made[tok] = AtomS(f"«n{tok}»", token=tok)
        return made[tok]

    A5 = ResidueS("«cA»", 5, [mk(x) for x in ("A5a", "A5b", "A5c", "A5d", "A5e", "A5f", "A5g", "A5h")], token="«rA5»")
    A5i = ResidueS("«cA»", 5, [mk("A5ia")], token="«rA5i»", icode="A")  # shares chain and number with A5
    A7 = ResidueS("«cA»", 7, [mk(x) for x in ("A7a", "A7b", "A7c")], token="«rA7»")
    A7g = ResidueS("«cA»", 7, [mk("A7ga")], token="«rA7g»", name="A")  # shares chain, number and insertion code with A7
    B1 = ResidueS("«cB»", 1, [mk(x) for x in ("B1a", "B1b", "B1c")], token="«rB1»")
    B2 = ResidueS("«cB»", 2, [mk("B2a")], token="«rB2»")
    C5 = ResidueS("«cC»", 5, [mk("C5a")], token="«rC5»")  # shares the numbers with the pair (A5, A7)
    C7 = ResidueS("«cC»", 7, [mk("C7a")], token="«rC7»")
    own = {a.token: r for r in (A5, A5i, A7, A7g, B1, B2, C5, C7) for a in r.atoms}
    c = lambda x, y, s_: ((own[x], made[x]), (own[y], made[y]), s_)
    L = [
        c("B1c", "A5c", 0.25),  # chain B before chain A: opposite to the sort order; three records, the largest in the middle
        c("B1b", "A5b", 0.75),
        c("B1a", "A5a", 0.5),
        c("A7a", "A5e", 0.1875),  # same chain, residue 7 before residue 5
        c("A5d", "A5h", 0.125),  # within one residue
        c("A5f", "B2a", 1.25),  # sorted order, two chains
        c("A5a", "A7b", 0.625),  # sorted order, one chain: the largest of its chain, in the middle
        c("C5a", "C7a", 0.875),  # same residue numbers in another chain
        c("A5ia", "A7c", 0.375),  # same chain and numbers, another insertion code
        c("A5g", "A7ga", 0.4375),  # same chain, numbers and insertion codes, another residue name
    ]
    return L, [A5, A5i, A7, A7g, B1, B2, C5, C7]


class MainEval:
    def __init__(self, repo, mn, clashes, csv_path: Optional[str], reverse_sets: bool, switches_on: bool = True, meta_class: Optional[Tuple[str, Optional[str]]] = None):
        self.cap = cap = Capture()
        # the structure of the input file: a nucleotide of a polynucleotide chain, a nucleotide ligand, an amino acid
        cap.structure = [ResidueS("«cA»", 1, [], True, token="«sA1»"), ResidueS("«cA»", 201, [], True, token="«sA201 nucleotide ligand»", name="2BA"), ResidueS("«cB»", 7, [], False, token="«sB7 amino acid»", name="ALA")]
        SetS.reverse = reverse_sets
        try:
            class Parser(Stub):
                """argparse as far as main uses it: every declared argument becomes an attribute of the parsed namespace; a
                boolean switch holds a token naming its command-line spelling, the positional the input path, --csv the CSV path"""

                def add_argument(self, *flags, **k):
                    if not flags or not all(isinstance(x, str) for x in flags):
                        raise NotConst("add_argument without option strings")
                    if not flags[0].startswith("-"):
                        ident = dest = flags[0]
                        value = "/data/«file».cif" if not any(sw[1] == "positional" for sw in cap.switches) else f"«p{ident}»"
                        kind = "positional"
                    else:
                        long_ = next((x for x in flags if x.startswith("--")), flags[0])
                        ident = long_.lstrip("-").replace("-", "_")
                        dest = k.get("dest", ident)
                        action = k.get("action", "store")
                        kind = action if isinstance(action, str) else "other"
                        if kind in ("store_true", "store_false"):
                            value = SwitchS(f"«o{ident}»")
                            value.on = switches_on
                        elif ident == "csv":
                            value = csv_path
                        else:
                            value = k.get("default")
                    if not isinstance(dest, str):
                        raise NotConst("add_argument dest")
                    cap.switches.append((ident, kind, dest, flags))
                    cap.namespace[dest] = value
                    return None

                def parse_args(self, *a, **k):
                    return types.SimpleNamespace(_folder_stub=True, **cap.namespace)

                def parse_known_args(self, *a, **k):
                    return (self.parse_args(), [])

                def set_defaults(self, **k):
                    for dest, v in k.items():
                        cap.namespace.setdefault(dest, v)

                def add_mutually_exclusive_group(self, *a, **k):
                    return self

                add_argument_group = add_mutually_exclusive_group

            def fopen(path, mode="r", *a, **k):
                path = path.path if isinstance(path, PathS) else path
                cap.opened.append((path, mode))
                return FileS(path, mode)

            class StdoutS(Stub):
                """sys.stdout: what is written is the report (split into lines as the terminal shows it)"""

                def __init__(self):
                    self.pending = ""

                def write(self, text):
                    if not isinstance(text, str):
                        raise NotConst("sys.stdout.write of a non-string")
                    self.pending += text
                    where = _print_site()
                    while "\n" in self.pending:
                        ln, self.pending = self.pending.split("\n", 1)
                        cap.lines.append(ln)
                        cap.sites.append(where)
                    return len(text)

                def flush(self):
                    return None

            stdout = StdoutS()

            def find_clashes(*a, **k):
                cap.find_args.append((a, k))
                return list(clashes)

            def read_3d_structure(*a, **k):
                """the parser as its signature says: with a truthy `nucleic_acid_only` it keeps the residues of polynucleotide
                entities only (its own criterion: the nucleotide ligand and the amino acid are gone)"""
                cap.reader_args.append((a, k))
                try:
                    rparams = [p_.arg for p_ in repo.func("parser", "read_3d_structure").node.args.args]
                except Exception:
                    rparams = []
                flag = dict(zip(rparams, a), **k).get("nucleic_acid_only", False)
                kept = cap.structure[:1] if flag else cap.structure
                return types.SimpleNamespace(_folder_stub=True, residues=list(kept))

            def read_metadata(f, *a, **k):
                cap.meta_args.append(f)
                cats = a[0] if a else k.get("categories")
                if meta_class is None or not (isinstance(cats, (list, tuple)) and all(isinstance(c_, str) for c_ in cats)):
                    return MetaS()
                cap.meta_categories = list(cats)
                # metareader.read_metadata: {category: [row dict, ...]}, [] for a category the file does not have
                kind, which = meta_class
                out_ = {}
                for c_ in cats:
                    if kind == "no category" and (which is None or which == c_):
                        out_[c_] = []
                    elif kind == "no item":
                        out_[c_] = [{}]
                    else:
                        out_[c_] = [RowS(c_)]
                return out_

            def _exit(*a):
                raise Exit()

            def out(*a, **k):
                if k.get("file") is not None and k.get("file") is not stdout:
                    return  # diagnostics written elsewhere are not the report
                text = k.get("sep", " ").join(str(x) for x in a)
                where = _print_site()
                for ln in text.split("\n"):
                    cap.lines.append(ln)
                    cap.sites.append(where)

            def _print_site():
                """(statement, [(expression, value)]) of the print being evaluated: the numbers it formats, by the expression that gives them"""
                cur = Ev.current
                if cur is None:
                    return (None, [])
                ev_, st = cur
                nums = []
                for fv in [n for n in ast.walk(st) if isinstance(n, ast.FormattedValue)]:
                    if any(isinstance(x, (ast.Call, ast.NamedExpr, ast.Lambda, ast.ListComp, ast.GeneratorExp, ast.SetComp, ast.DictComp)) for x in ast.walk(fv.value)):
                        continue
                    try:
                        v = Folder.fold(F(ev_, ev_.env, share=True), fv.value)
                    except Exception:
                        continue
                    if isinstance(v, (int, float)) and not isinstance(v, bool):
                        nums.append((norm(fv.value), float(v)))
                return (st, nums)

            ns = types.SimpleNamespace
            env = base_env(repo)
            env.update(
                argparse=ns(_folder_stub=True, ArgumentParser=lambda *a, **k: Parser()),
                open=fopen,
                read_3d_structure=read_3d_structure,
                find_clashes=find_clashes,
                read_metadata=read_metadata,
                print=out,
                csv=ns(_folder_stub=True, writer=lambda f, *a, **k: WriterS(cap), DictWriter=lambda f, fieldnames=None, *a, **k: WriterS(cap, list(fieldnames) if fieldnames is not None else None), QUOTE_MINIMAL=0, QUOTE_ALL=1, QUOTE_NONNUMERIC=2, QUOTE_NONE=3),
                os=ns(_folder_stub=True, path=ns(_folder_stub=True, splitext=os.path.splitext, basename=os.path.basename, dirname=os.path.dirname, join=os.path.join)),
                sys=ns(_folder_stub=True, exit=_exit, argv=["clashfinder"], stdout=stdout, stderr=ns(_folder_stub=True, write=lambda *a: 0, flush=lambda: None)),
                exit=_exit,
            )
            ev = Ev(repo, M, env)
            try:
                ev.run(mn.node.body)
            except Exit:
                pass
            self.env = ev.env
        finally:
            SetS.reverse = False


def _tokens(text: str):
    toks = TOK.findall(text)
    nums = [float(x) for x in NUM.findall(TOK.sub(" ", text))]
    return toks, nums


def check_cli_structure(chk, mn, fi, cap: "Capture", cap_off: "Capture") -> None:
    """Fact-level `cli-structure`: the tool lists what find_clashes gives for the input file under the chosen options, so
    the structure handed to find_clashes is the whole structure of the file - read the same way whatever the switches
    are, and handed over with every residue find_clashes would consider (the option filters are applied once, by
    find_clashes)."""
    chk.robust |= {"cli-structure"}
    repo = chk.repo
    rsite = next((mn.site(n) for n in ast.walk(mn.node) if isinstance(n, ast.Call) and norm(n.func).split(".")[-1] == "read_3d_structure"), mn.where)
    fsite = next((mn.site(n) for n in ast.walk(mn.node) if isinstance(n, ast.Call) and norm(n.func).split(".")[-1] == "find_clashes"), mn.where)
    try:
        rparams = [a.arg for a in repo.func("parser", "read_3d_structure").node.args.args]
    except Exception:
        rparams = []

    def bind(call):
        a, k = call
        names = rparams + [f"argument {i + 1}" for i in range(len(rparams), len(a))]
        b = dict(zip(names, a))
        b.update(k)
        return b

    plainv = lambda v: ("file", v.name) if isinstance(v, FileS) else v
    problems: List[str] = []
    if len(cap.reader_args) != 1 or len(cap_off.reader_args) != 1:
        chk.error("cli-structure", rsite, f"main reads the structure {len(cap.reader_args)} times on the representative run, not once: not decided which structure find_clashes receives")
        return
    on, off = bind(cap.reader_args[0]), bind(cap_off.reader_args[0])
    for name, v in on.items():
        t = _has_switch(v)
        if t:
            problems.append(f"read_3d_structure receives the value of switch --{t[2:-1].replace('_', '-')} as its parameter `{name}`: the structure handed to find_clashes is already filtered by the parser's own criterion, and find_clashes applies the option a second time by its own (Residue3D.is_nucleotide etc.) - the tool lists only what passes both, not what find_clashes gives for the file")
    if not problems and {k: plainv(v) for k, v in on.items()} != {k: plainv(v) for k, v in off.items()}:
        diff = [k for k in on if plainv(on.get(k)) != plainv(off.get(k))] or sorted(set(on) ^ set(off))
        problems.append(f"the arguments of read_3d_structure depend on the switches (`{diff[0]}` is `{str(on.get(diff[0]))[:30]}` with and `{str(off.get(diff[0]))[:30]}` without them): the structure handed to find_clashes is not the file's structure whatever the options")
    chk.expect(not problems, "cli-structure", rsite, f"the structure is read the same way with and without the switches ({', '.join(f'{k}={str(plainv(v))[:30]}' for k, v in on.items())}): no option reaches the parser", problems[0] if problems else "", _K(mn, "reader-args"), found={k: str(plainv(v))[:40] for k, v in on.items()})
    # the residues handed over
    params = [a.arg for a in fi.node.args.args]
    msgs: List[str] = []
    unread = None
    for label, c, need in (("with all switches given", cap, [r for r in cap.structure if r.is_nucleotide]), ("without any switch", cap_off, list(cap_off.structure))):
        if len(c.find_args) != 1:
            return  # reported by cli-arguments
        a, k = c.find_args[0]
        got = dict(zip(params, a), **k).get(params[0])
        if not isinstance(got, (list, tuple)) or any(not any(x is r for r in c.structure) for x in got):
            unread = f"the first argument of find_clashes ({label}) is `{str(got)[:60]}`, not residues of the structure read from the input file"
            continue
        need = [r for r in c.structure if any(r is x for x in need)]
        missing = [r for r in need if not any(r is x for x in got)]
        if missing:
            msgs.append(f"{label} find_clashes does not receive residue {missing[0].token[1:-1]} of the input structure although it would consider it: the residues are filtered before find_clashes applies the options")
        elif [x for x in got if any(x is r for r in need)] != need or len(got) != len({id(x) for x in got}):
            msgs.append(f"{label} find_clashes receives the residues of the structure reordered or repeated")
    if unread and not msgs:
        chk.error("cli-structure", fsite, unread)
    else:
        chk.expect(not msgs, "cli-structure", fsite, "find_clashes receives every residue of the structure read from the input file that it would consider (all three kinds without switches; both nucleotides - chain member and ligand - with them)", msgs[0] if msgs else "", _K(mn, "residues-handed"))


def check_cli_binding(chk, mn, fi, cap: "Capture") -> None:
    """Fact-level `cli-arguments`: on the evaluated main, every option parameter of find_clashes receives the value of the
    boolean switch of the same name (positional or keyword, in any order), and the switches are the options."""
    chk.robust |= {"cli-arguments"}
    params = [a.arg for a in fi.node.args.args]
    site = mn.where
    call_sites = [n for n in ast.walk(mn.node) if isinstance(n, ast.Call) and norm(n.func).split(".")[-1] == "find_clashes"]
    if call_sites:
        site = mn.site(call_sites[0])
    if len(cap.find_args) != 1:
        chk.expect(False, "cli-arguments", site, "", f"main calls find_clashes {len(cap.find_args)} times on the representative run, not once", _K(mn, "cli-args"))
        return
    a, k = cap.find_args[0]
    bound: Dict[str, Any] = dict(zip(params, a))
    bad_call = len(a) > len(params) or any(kw not in params or kw in bound for kw in k)
    bound.update(k)
    if bad_call:
        chk.expect(False, "cli-arguments", site, "", f"the call of find_clashes does not fit its parameters {params}: TypeError at run time", _K(mn, "cli-args"), found=[str(x)[:40] for x in a] + [f"{kw}=..." for kw in k])
        return
    wrong, unread = [], []
    for p_ in params[1:]:
        got = bound.get(p_, None)
        if p_ not in bound:
            wrong.append(f"parameter {p_} receives no argument")
        elif isinstance(got, str) and got.startswith("«o") and got.endswith("»"):
            if got != f"«o{p_}»":
                wrong.append(f"parameter {p_} receives the value of switch --{got[2:-1].replace('_', '-')}")
        else:
            unread.append(f"parameter {p_} receives `{str(got)[:40]}`, not the value of a switch")
    expected = {p_: f"--{p_.replace('_', '-')}" for p_ in params[1:]}
    if unread and not wrong:
        chk.error("cli-arguments", site, f"CLI options passed to find_clashes not understood: {unread[0]}")
    else:
        chk.expect(not wrong, "cli-arguments", site, "every option parameter of find_clashes receives the value of the switch of the same name (evaluated call, positional or keyword)", f"CLI options are not passed to find_clashes parameters of the same name: {'; '.join(wrong[:3])}", _K(mn, "cli-args"), expected=expected, found={p_: (f"--{str(bound.get(p_))[2:-1].replace('_', '-')}" if str(bound.get(p_)).startswith("«o") else str(bound.get(p_))[:40]) for p_ in params[1:]})
    # the switches are the options
    sw = {ident: kind for ident, kind, dest, flags in cap.switches if kind in ("store_true", "store_false")}
    false_ = sorted(i for i, kd in sw.items() if kd == "store_false" and i in params)
    msg = ""
    if false_:
        msg = f"switch --{false_[0].replace('_', '-')} stores False when given: the option is inverted"
    elif set(sw) != set(params[1:]):
        msg = f"the set of boolean switches differs from find_clashes' options: missing {sorted(set(params[1:]) - set(sw))}, additional {sorted(set(sw) - set(params[1:]))}"
    chk.expect(not msg, "cli-arguments", mn.where, "one boolean switch (store_true) per option of find_clashes", msg, _K(mn, "cli-flags"), found=sorted(f"--{i.replace('_', '-')}" for i in sw))


def check_main(chk, mn, fi=None) -> Optional[str]:
    """Fact-level rules for the report / CSV part of main; None when main could be evaluated, else the reason."""
    repo = chk.repo
    L, residues = representative_clashes()
    atoms = {a.name: a for r in residues for a in r.atoms}
    res_by_tok = {r.token: r for r in residues}
    runs = {}
    try:
        for rev in (False, True):
            runs[rev] = MainEval(repo, mn, L, "/out/«csv».csv", rev)
        no_csv = MainEval(repo, mn, L, None, False)
        empty = MainEval(repo, mn, [], "/out/«csv».csv", False)
        off = MainEval(repo, mn, L, "/out/«csv».csv", False, switches_on=False)
    except Unknown as ex:
        return str(ex)
    except Raised as ex:
        # KeyError / IndexError / ... of an interpreted dict or list operation, or an explicit raise: the program's own behaviour
        chk.robust |= {"report-clashes"}
        chk.violation("report-clashes", mn.site(ex.node) if ex.node is not None else mn.where, f"main raises {ex.what} on the representative clash list ({len(L)} clashes, residue pairs in and against their sort order): no complete report / CSV is produced", _K(mn, "raises"))
        for rule in ("report-grouping", "report-maxima", "report-loops"):
            chk.ok(rule, mn.where, "not evaluated: main raises on the representative clash list (reported by rule `report-clashes`)")
        return None
    except RecursionError:
        return "recursion while evaluating"
    except (TypeError, AttributeError, NotConst) as ex:  # an operation the stubs do not model
        return f"{type(ex).__name__}: {ex}"
    site = mn.where
    cap = runs[False].cap
    chk.robust |= {"report-clashes", "report-grouping", "report-maxima", "report-loops"}
    if fi is not None:
        check_cli_binding(chk, mn, fi, cap)
        check_cli_structure(chk, mn, fi, cap, off.cap)
    listed_ = lambda c: ([ln for ln in c.lines if TOK.search(ln)], [r for r in c.rows if any(isinstance(x, str) and TOK.search(x) for x in r)])
    if listed_(off.cap) != listed_(cap):
        problems_early = "the report / CSV of the same clash list differs between runs with and without the switches: main itself filters or changes what find_clashes returned"
    else:
        problems_early = ""
    # read_metadata(file) reads file.name: it needs the open file, not the path string
    chk.robust |= {"csv-metadata-arg"}
    msite = next((mn.site(n) for n in ast.walk(mn.node) if isinstance(n, ast.Call) and norm(n.func).split(".")[-1] == "read_metadata"), site)
    for got in cap.meta_args:
        if isinstance(got, FileS):
            chk.ok("csv-metadata-arg", msite, f"read_metadata receives an open file (of `{got.name}`) on the evaluated run with --csv")
        elif isinstance(got, (str, PathS)):
            chk.violation("csv-metadata-arg", msite, f"read_metadata (which reads file.name) receives the path `{got}` and not an open file: --csv raises AttributeError as soon as one clash is found, no CSV is written", _K(mn, "read_metadata(path)"))
        else:
            chk.error("csv-metadata-arg", msite, f"argument `{str(got)[:40]}` of read_metadata not classified (path or open file)")
    site_of = {}
    for ln_, st_ in zip(cap.lines, cap.sites):
        site_of.setdefault(ln_, st_)
    maxima_site = [None]

    def parse_report(lines):
        """[(chain heading, [(residue heading, [atom line])])] with heading = (tokens, number)"""
        tree = []
        stray = []
        for ln in lines:
            toks, nums = _tokens(ln)
            at = [t for t in toks if t.startswith("«n")]
            rs = [t for t in toks if t.startswith("«r")]
            cs = [t for t in toks if t.startswith("«c")]
            if at:
                item = ("atoms", at, rs, nums, ln)
                if tree and tree[-1][1]:
                    tree[-1][1][-1][1].append(item)
                else:
                    stray.append(ln)
            elif rs:
                if tree:
                    tree[-1][1].append((("res", rs, nums, ln), []))
                else:
                    stray.append(ln)
            elif cs:
                tree.append((("chain", cs, nums, ln), []))
        return tree, stray

    def parse_rows(rows):
        out = []
        for row in rows:
            cells = []
            occ = [c for c in row if isinstance(c, float)]
            for c in row:
                if isinstance(c, str):
                    toks, _ = _tokens(c)
                    at = [t for t in toks if t.startswith("«n")]
                    rs = [t for t in toks if t.startswith("«r")]
                    if at or rs:
                        cells.append((rs, at))
            if cells:
                out.append((cells, occ, row))
        return out

    want = sorted((tuple(sorted((a1.name, a2.name))), s) for (_, a1), (_, a2), s in L)
    wantmap = dict(want)
    pick = lambda pair, nums: next((x for x in nums if pair in wantmap and math.isclose(x, wantmap[pair], abs_tol=1e-12)), nums[0])
    tree, stray = parse_report(cap.lines)
    rows = parse_rows(cap.rows)
    # ---- listed clashes = the clashes -----------------------------------------------------------------------------
    problems: Dict[str, List[str]] = {}
    add = lambda rule, msg: problems.setdefault(rule, []).append(msg)
    if problems_early:
        add("report-clashes", problems_early)
    printed = []
    for (ch, rs_list) in tree:
        for (rh, atom_lines) in rs_list:
            for kind, at, rs_in_line, nums, ln in atom_lines:
                if len(at) != 2 or not nums:
                    return f"printed line `{ln.strip()[:60]}` does not name two atoms and an occupancy sum: report layout not understood"
                printed.append((tuple(sorted(at)), pick(tuple(sorted(at)), nums)))
                # orientation: the k-th residue of the heading owns the k-th atom of the line
                hr = rs_in_line if rs_in_line else rh[1]
                if len(hr) == 1:
                    hr = hr * 2
                if len(hr) != 2 or any(h not in res_by_tok for h in hr):
                    add("report-grouping", f"residue heading `{rh[3].strip()[:80]}` does not name one or two residues")
                    continue
                for k in (0, 1):
                    if atoms[at[k]].owner is not res_by_tok[hr[k]]:
                        add("report-grouping", f"the report lists atom {atoms[at[k]].token} (of residue {atoms[at[k]].owner.token}) as atom {k + 1} under the heading of residues {hr[0]} / {hr[1]}: the key a clash is filed under and the stored (atom, atom, sum) record do not agree on the order of the pair, so atoms are attributed to the other residue")
                        break
                hc = ch[1] * 2 if len(ch[1]) == 1 else ch[1]
                if len(hc) != 2 or [res_by_tok[h].chain for h in hr] != list(hc):
                    add("report-grouping", f"residues {hr[0]} / {hr[1]} are listed under the chain heading `{ch[3].strip()[:70]}`")
    if stray:
        return f"line `{stray[0].strip()[:60]}` is printed outside a chain / residue heading: report layout not understood"
    if sorted(printed) != want:
        missing = [w for w in want if w not in printed]
        extra = [p for p in printed if p not in want]
        add("report-clashes", f"the printed atom lines are not the clashes found: {len(printed)} lines for {len(want)} clashes" + (f", missing {missing[0]}" if missing else "") + (f", not a clash {extra[0]}" if extra else ""))
    # ---- maxima --------------------------------------------------------------------------------------------------
    n_heads = 0
    for (ch, rs_list) in tree:
        occ_of = lambda it: pick(tuple(sorted(it[1])), it[3])
        below = [occ_of(it) for (_, lines) in rs_list for it in lines]
        for head, vals in [(ch, below)] + [(rh, [occ_of(it) for it in lines]) for (rh, lines) in rs_list]:
            n_heads += 1
            nums = head[2]
            if not nums:
                return f"heading `{head[3].strip()[:60]}` prints no number: report layout not understood"
            if not vals:
                st_, fmt = site_of.get(head[3], (None, []))
                if maxima_site[0] is None and st_ is not None:
                    maxima_site[0] = st_
                add("report-maxima", f"heading `{TOK.sub(lambda m_: m_.group(0)[1:-1], head[3].strip())[:110]}` is printed (line {st_.lineno if st_ is not None else '?'}) although no atom clash is listed below it: the block does not correspond to any clash found, its maximum {nums[0]} is not the maximum over listed clashes (an entry of the grouping container that no clash was filed under)")
                continue
            if not any(math.isclose(x, max(vals), abs_tol=1e-12) for x in nums):
                st_, fmt = site_of.get(head[3], (None, []))
                src = [e for e, v in fmt if any(math.isclose(v, x, abs_tol=1e-12) for x in nums)]
                by = f" (line {st_.lineno}: the value of `{src[-1]}`)" if st_ is not None and src else (f" (line {st_.lineno})" if st_ is not None else "")
                if maxima_site[0] is None and st_ is not None:
                    maxima_site[0] = st_
                add("report-maxima", f"heading `{TOK.sub(lambda m_: m_.group(0)[1:-1], head[3].strip())[:110]}` prints {nums[0] if len(nums) == 1 else nums}{by} but the largest occupancy sum of the atom clashes listed below it is {max(vals) if vals else None}: the printed maximum is not the maximum over the listed clashes")
    # ---- CSV -----------------------------------------------------------------------------------------------------------
    csv_rows = []
    for cells, occ, row in rows:
        pairs = [(rs, at) for rs, at in cells if len(rs) == 1 and len(at) == 1]
        if len(pairs) != 2 or not occ:
            return f"CSV row `{str(row)[:80]}` does not hold two (residue, atom) cells and an occupancy sum: CSV layout not understood"
        for rs, at in pairs:
            if atoms[at[0]].owner is not res_by_tok.get(rs[0]):
                add("report-grouping", f"the CSV attributes atom {atoms[at[0]].token} (of residue {atoms[at[0]].owner.token}) to residue {rs[0]}: the key a clash is filed under and the stored (atom, atom, sum) record do not agree on the order of the pair")
                break
        pr = tuple(sorted(p[1][0] for p in pairs))
        csv_rows.append((pr, pick(pr, occ)))
    if sorted(csv_rows) != want:
        missing = [w for w in want if w not in csv_rows]
        extra = [p for p in csv_rows if p not in want]
        add("report-clashes", f"the CSV rows are not the clashes found: {len(csv_rows)} rows for {len(want)} clashes" + (f", missing {missing[0]}" if missing else "") + (f", not a clash {extra[0]}" if extra else ""))
    # ---- order: report = CSV, independent of set iteration order -------------------------------------------------------
    if csv_rows != printed and sorted(csv_rows) == sorted(printed):
        k = next(i for i, (x, y) in enumerate(zip(csv_rows, printed)) if x != y)
        add("report-loops", f"the printed report and the CSV list the clashes in different orders (position {k + 1}: {printed[k][0]} vs {csv_rows[k][0]}): the two outputs do not iterate the same containers with the same ordering")
    capr = runs[True].cap
    if capr.lines != cap.lines:
        k = next((i for i, (x, y) in enumerate(zip(cap.lines, capr.lines)) if x != y), min(len(cap.lines), len(capr.lines)))
        add("report-loops", f"the printed report depends on the iteration order of a set (line {k + 1} `{cap.lines[k].strip()[:60] if k < len(cap.lines) else ''}`): an unsorted set is iterated")
    if capr.rows != cap.rows:
        k = next((i for i, (x, y) in enumerate(zip(cap.rows, capr.rows)) if x != y), min(len(cap.rows), len(capr.rows)))
        add("report-loops", f"the CSV depends on the iteration order of a set (row {k + 1}): an unsorted set is iterated")
    # ---- filed records: key and record agree ---------------------------------------------------------------------------
    filed = 0

    def scan(obj, keys):
        nonlocal filed
        if isinstance(obj, dict):
            for k, v in obj.items():
                scan(v, keys + [k])
        elif isinstance(obj, (SetS, list, set, tuple)) and not (isinstance(obj, tuple) and any(isinstance(x, AtomS) for x in obj)):
            for x in obj:
                scan(x, keys)
        elif isinstance(obj, tuple):
            ats = [x for x in obj if isinstance(x, AtomS)]
            rk = [k for k in keys if isinstance(k, tuple) and len(k) == 2 and all(isinstance(x, ResidueS) for x in k)]
            ck = [k for k in keys if isinstance(k, tuple) and len(k) == 2 and all(isinstance(x, str) for x in k)]
            if len(ats) == 2 and rk:
                filed += 1
                if [a.owner for a in ats] != list(rk[-1]):
                    add("report-grouping", f"the record ({ats[0].token}, {ats[1].token}, ...) of residues {ats[0].owner.token} / {ats[1].owner.token} is filed under the residue key ({rk[-1][0].token}, {rk[-1][1].token}): the k-th residue of the key is not the residue of the k-th atom of the record, and the loops that unpack key and record positionally attribute the atoms to the wrong residue")
                elif ck and list(ck[-1]) != [r.chain for r in rk[-1]]:
                    add("report-grouping", f"the residue pair ({rk[-1][0].token}, {rk[-1][1].token}) is filed under the chain key {ck[-1]}")

    for name, val in sorted(runs[False].env.items(), key=lambda kv: kv[0]):
        if isinstance(val, dict):
            scan(val, [])
    # ---- other runs ----------------------------------------------------------------------------------------------------
    if no_csv.cap.rows or no_csv.cap.meta_args:
        add("report-clashes", "a CSV is written although --csv was not given")
    if no_csv.cap.lines != cap.lines:
        add("report-clashes", "the printed report differs between runs with and without --csv")
    if any(_tokens(ln)[0] for ln in empty.cap.lines) or parse_rows(empty.cap.rows):
        add("report-clashes", "clashes are reported although find_clashes found none")
    # ---- the CSV is written whatever metadata the file has ------------------------------------------------------------------
    # (read_metadata gives [] for a category the file lacks - no `refine` for NMR / EM / assemblies, nothing at all for a
    # PDB-format file - and a row need not have every item): in every class the CSV rows are exactly the clashes
    chk.robust |= {"csv-metadata-total"}
    cats = None
    try:
        probe = MainEval(repo, mn, L, "/out/«csv».csv", False, meta_class=("all", None))
        cats = getattr(probe.cap, "meta_categories", None)
    except (Unknown, Raised, RecursionError, TypeError, AttributeError, NotConst):
        cats = None
    if not cats:
        if cap.meta_args:
            chk.error("csv-metadata-total", msite, "the categories asked of read_metadata are not a literal list: the metadata classes (category absent, item absent) are not evaluated")
    else:
        classes = [("all", None, "every category present")] + [("no category", c_, f"category `{c_}` absent (read_metadata gives [] for it)") for c_ in cats] + [("no category", None, "no category at all (a PDB-format file: every category is [])"), ("no item", None, "the rows lack the items asked for")]
        bad_meta: List[Tuple[str, Any]] = []
        unread_meta = None
        for kind, which, label in classes:
            try:
                run_ = MainEval(repo, mn, L, "/out/«csv».csv", False, meta_class=(kind, which))
            except Raised as ex:
                bad_meta.append((f"with {label} main raises {ex.what}: the CSV is left with its header only, no clash is written", ex.node))
                continue
            except (Unknown, RecursionError, TypeError, AttributeError, NotConst) as ex:
                unread_meta = f"with {label}: {str(ex)[:100]}"
                continue
            got_rows = []
            for cells, occ, row in parse_rows(run_.cap.rows):
                pairs_ = [(rs, at) for rs, at in cells if len(rs) == 1 and len(at) == 1]
                if len(pairs_) == 2 and occ:
                    pr_ = tuple(sorted(p_[1][0] for p_ in pairs_))
                    got_rows.append((pr_, pick(pr_, occ)))
            if sorted(got_rows) != want:
                bad_meta.append((f"with {label} the CSV holds {len(got_rows)} rows for {len(want)} clashes", None))
        if unread_meta and not bad_meta:
            chk.error("csv-metadata-total", msite, f"main not evaluable {unread_meta}")
        else:
            node_ = next((nd for _, nd in bad_meta if nd is not None), None)
            chk.expect(not bad_meta, "csv-metadata-total", mn.site(node_) if node_ is not None else msite, f"the CSV rows are exactly the clashes in each of the {len(classes)} metadata classes (every category present; {', '.join('`%s`' % c_ for c_ in cats)} absent; no category at all; rows without the items)", bad_meta[0][0] if bad_meta else "", _K(mn, "csv-metadata"), found=[m_ for m_, _ in bad_meta[:4]] or None)
    # ---- obligations ---------------------------------------------------------------------------------------------------
    n = len(L)
    chk.expect("report-clashes" not in problems, "report-clashes", site, f"main evaluated on {n} representative clashes: the printed atom lines and the CSV rows are exactly the clashes found (no CSV without --csv, nothing for an empty list)", problems.get("report-clashes", [""])[0], _K(mn, "report-clashes"))
    chk.expect("report-grouping" not in problems, "report-grouping", site, f"every listed atom is attributed to its own residue and chain pair in the report and in the CSV, also when the residues of a clash are in the opposite of their sort order ({filed} filed records: the k-th residue of the key is the residue of the k-th atom)", problems.get("report-grouping", [""])[0], _K(mn, "grouping"), found=problems.get("report-grouping", [])[:4] or None)
    chk.expect("report-maxima" not in problems, "report-maxima", mn.site(maxima_site[0]) if maxima_site[0] is not None else site, f"each of the {n_heads} headings prints the maximum of the occupancy sums listed below it (maxima placed first, in the middle and last)", problems.get("report-maxima", [""])[0], _K(mn, "maxima"))
    chk.expect("report-loops" not in problems, "report-loops", site, "the printed report and the CSV list the clashes in the same order, and neither depends on the iteration order of a set", problems.get("report-loops", [""])[0], _K(mn, "loops"))
    return None
