"""C18 - torsion angles follow the IUPAC convention in both implementations.

A12: the arguments of the final atan2(y, x) of both torsion functions are brought to polynomial normal form over the
coordinates of the four points and compared with the IUPAC closed form  y_ref = |b2| det(b1,b2,b3),
x_ref = (b1 x b2).(b2 x b3).  Range, reversal symmetry, mirror antisymmetry and rigid invariance then follow from the
closed form.  Plus: degenerate guards are collinearity tests only, the value returned is the atan2 in radians, the
users pass the right atoms in the right order and keep units consistent.

Round 4: a torsion function whose angle is NOT made by one plain atan2 (acos with a sign, copysign, a conditional, two
atan2 ...) is read on the whole circle (sa/circle.py): sine / cosine terms are identified by polynomial identities and the
rest of the function is evaluated symbolically on the eight cells phi = 0, pi/2, pi, -pi/2 and the open quadrants; it must
return phi on every cell (so `sign(s) * acos(c)`, which gives 0 at phi = pi, is a violation, `copysign(acos(c), s)` is not).
The inter-stem torsion is evaluated on stub stems (rule interstem-points: neighbour, end, end, neighbour about the closest
pair of stem ends) and tertiary_v2's find_atom / Atom.coordinates on stub frames over call histories (rule
lookup-current-state: a lookup after a change of the coordinates sees the change).

Round 5: the algebra reads bond vectors built by zip / comprehensions, module-level helpers with guard clauses
(`_normalized(v)`), two-way assignment blocks and any() / all() guards; the clip is decided as a fact (the clipped quantity
is k * cos(phi) with k a monomial in bond lengths and sines of bond angles whose supremum over the property's domain must
not exceed 1 - a common scale |b2| for all three bonds gives k up to 9.77); rule borrowed-array-write (sa/alias.py): no
in-place numpy operation on a name that aliases an array kept by an atom (`acc = atoms[0].coordinates; acc += ...`).
"""
from __future__ import annotations

import ast
import math

from checks.c03 import K
from checks.c08 import flat
from sa import astq
from sa.consteval import Folder
from sa.defuse import Inliner
from sa.model import norm
from sa.polyalg import AlgebraError
from sa import torsion as TA
from sa import circle as CI

T1, T2, AN = "tertiary", "tertiary_v2", "annotator"
EPS_MAX = 1e-3


def closed_form_verdict(chk, fi, res, module: str, qual: str) -> None:
    """One plain atan2(y, x): y / x against the IUPAC ratio, as polynomials."""
    ok = res["same_ratio"] and res["x_positive_multiple"]
    if res["negated_ratio"] and res["x_positive_multiple"]:
        why = "y/x is the exact negation of the IUPAC ratio (x a positive multiple of x_ref): the function returns -phi"
    elif res["same_ratio"] and res["x_negative_multiple"]:
        why = "x and y are both negated: the function returns phi +- pi"
    elif not res["same_ratio"]:
        why = "y * x_ref != x * y_ref as polynomials: the angle is not the IUPAC dihedral (wrong vectors, swapped atan2 arguments or a missing |b2|)"
    else:
        why = "the sign of x could not be related to x_ref"
    chk.expect(
        ok,
        "torsion-closed-form",
        fi.site(res["atan2"]),
        f"atan2 arguments satisfy y * x_ref = x * y_ref and x is a positive multiple of x_ref ({res['norm_atoms']} norm atoms): the value is the IUPAC dihedral for all non-degenerate inputs",
        f"{qual}: {why}",
        key=f"{module}:{qual}:sign" if res["negated_ratio"] else f"{module}:{qual}:closed-form",
        expected="atan2(|b2| b1.(b2 x b3), (b1 x b2).(b2 x b3))",
        found={k: res[k] for k in ("same_ratio", "negated_ratio", "x_positive_multiple", "x_negative_multiple")},
    )


def circle_verdict(chk, fi, res, module: str, qual: str) -> None:
    """The angle is made by something else than one plain atan2 (acos with a sign, copysign, a conditional, two atan2 ...): the
    value returned is decided on every cell of the circle (sa/circle.py) and must be phi on all of them - including phi = 0 and
    phi = pi, where the sine term vanishes, and phi = +-pi/2, where the cosine term does."""
    cells = res["cells"]
    site = fi.site(res["first"])
    first_txt = norm(res["first"])[:90]
    not_angle = [o for _, _, o in cells if o[0] == "not-angle"]
    undecided = [(c, o) for c, _, o in cells if o[0] == "undecided"]
    key = f"{module}:{qual}:closed-form"
    if not_angle:
        chk.violation("torsion-closed-form", site, f"{qual}: {not_angle[0][1]}", key, expected="phi on the whole circle (-pi, pi]")
        return
    if undecided:
        c, o = undecided[0]
        chk.error("torsion-closed-form", site, f"the value returned for {c[0]} cannot be decided on the partition of the circle: {o[1]}")
        return
    val = lambda c, o: CI.value_at(o[1], c) if o[0] == "value" else o[1]
    wrong = [(c, g, o) for c, g, o in cells if not (o[0] == "value" and CI.is_phi(o[1], c))]
    table = {c[0]: val(c, o) for c, _, o in cells}
    if not wrong:
        chk.ok("torsion-closed-form", site, f"from `{first_txt}` on, the function is evaluated symbolically on the {len(cells)} cells of the circle (phi = 0, pi/2, pi, -pi/2 and the four open quadrants; sine / cosine terms identified by polynomial identities, {res['norm_atoms']} norm atoms): it returns phi on every cell, i.e. the IUPAC dihedral on the whole of (-pi, pi]")
        chk.ok("torsion-returned", fi.where, "the whole-circle reading covers every statement up to the return: the value is in radians and unchanged")
        return
    # -phi everywhere (pi = -pi as angles)?
    negated = all(o[0] == "value" and (CI.is_phi(o[1], c, -1) or (c[1] == c[2] and abs(c[1]) == 1 and CI.is_phi(o[1], c, 1))) for c, _, o in cells)
    if negated:
        chk.violation("torsion-closed-form", site, f"{qual}: the function returns -phi on every cell of the circle (mirror-image sign convention)", f"{module}:{qual}:sign", expected="phi", found=table)
        return
    names = [c[0] for c, _, _ in wrong]
    if all(o[0] == "value" and o[1].deg for _, _, o in wrong):
        hint = "the value is converted to degrees before it is returned: the torsion functions return radians"
    elif all(n in ("phi = 0", "phi = pi") for n in names):
        hint = "the value is lost where the sine term vanishes: a closed form has to give phi at the ends of the half circles too (phi = pi is the closed end of (-pi, pi]), not only where the sine has a sign"
    elif all(n in ("phi = pi/2", "phi = -pi/2") for n in names):
        hint = "the value is lost where the cosine term vanishes"
    elif all(c[1] < 0 or c[2] < 0 for c, _, _ in wrong):
        hint = "the sign of the sine term does not reach the result: negative angles are wrong"
    else:
        hint = "the combination of the sine and cosine terms is not the angle of the point (cos phi, sin phi)"
    shown = []
    for c, g, o in wrong[:3]:
        notes = ("; ".join(o[2][:3])) if len(o) > 2 and o[2] else ""
        shown.append(f"for {c[0]}{' (' + g + ')' if g else ''} it returns {val(c, o)}" + (f" [{notes}]" if notes else ""))
    chk.violation(
        "torsion-closed-form",
        site,
        f"{qual} does not return phi on the whole circle (-pi, pi]: " + "; ".join(shown) + f"; phi is returned on {len(cells) - len(wrong)} of the {len(cells)} cells. {hint[0].upper() + hint[1:]}",
        key,
        expected="phi on every cell of the circle",
        found=table,
    )


def check_function(chk, module: str, qual: str) -> None:
    repo = chk.repo
    fi = repo.func(module, qual)
    chk.note_function(fi)
    fold = Folder(repo, module)
    # undecorated module-level functions the torsion function may call (a `_normalized(v)` helper ...): interpreted by the algebra
    helpers = {name: f.node for name, f in repo.module(module).funcs.items() if "." not in name and isinstance(f.node, ast.FunctionDef) and not f.node.decorator_list and f.node is not fi.node}
    try:
        res = TA.analyse(fi.node, fold.fold, helpers)
    except TA.NotOneAtan2 as ex0:
        # not a single plain atan2(y, x): the part from the first inverse trigonometric / sign function on is read on the whole circle
        try:
            res = CI.analyse_circle(fi.node, fold.fold, helpers)
        except AlgebraError as ex:
            chk.error("torsion-closed-form", fi.where, f"function body is outside the straight-line vector algebra: {ex} ({ex0})")
            return
    except AlgebraError as ex:
        chk.error("torsion-closed-form", fi.where, f"function body is outside the straight-line vector algebra: {ex}")
        return
    if res.get("circle"):
        circle_verdict(chk, fi, res, module, qual)
    else:
        closed_form_verdict(chk, fi, res, module, qual)
    # degenerate guards: every early return before the atan2 fires only where a cross product (or a bond) is (nearly) zero.
    # The condition is brought to facts `Q < c` (Q a monomial in norms, c folded numerically) whatever its spelling.
    for g, genv, gdefs in res["guards"]:
        gkey = K(fi, f"guard:{norm(g.test)[:50]}")
        try:
            tree = TA.guard_tree(g.test, genv, res["alg"], gdefs)
        except TA.NotAThreshold as ex:
            chk.error("degenerate-guard", fi.site(g), f"condition of the early return is not readable as bounds on norms: {ex}")
            continue

        def atom_status(a):
            """'ok' a degeneracy test within the tolerance | 'bad' | 'never' | 'always'  (+ text)"""
            if not a["monomial"]:
                return ("always", f"`{a['text']}` compares two constants and is always true: every input gets the fallback value") if a.get("holds") else ("never", "")
            if a.get("never"):
                return ("never", "")  # a norm below a non-positive number
            kind, desc = TA.classify(a["monomial"], res["quantities"], res["alg"])
            c = a["c"]
            if kind == "other":
                return ("bad", f"`{a['text']}` bounds {desc}: geometries that are not degenerate get the fallback value instead of phi")
            if not (0 < c <= EPS_MAX):
                extra = ""
                if kind == "sine" and 0 < c < 1:
                    lo = math.degrees(math.asin(c))
                    extra = f": every quadruple with a bond angle below {lo:.1f} or above {180 - lo:.1f} degrees gets the fallback value"
                elif kind == "sine" and c >= 1:
                    extra = ": every quadruple gets the fallback value"
                return ("bad", f"`{a['text']}` accepts {desc} up to {c:.4g}, far beyond a collinearity tolerance of {EPS_MAX}{extra}")
            return ("ok", f"{desc} < {c:.3g}")

        def status(t):
            """(verdict, facts, problems) of a sub-condition: `or` fires where any child fires, `and` only where all do."""
            if t[0] == "atom":
                v, txt = atom_status(t[1])
                return v, ([txt] if v == "ok" else []), ([txt] if v in ("bad", "always") else [])
            subs = [status(c) for c in t[1]]
            vs = [x[0] for x in subs]
            facts = [f for x in subs for f in x[1]]
            probs = [p for x in subs for p in x[2]]
            if t[0] == "or":
                if "bad" in vs or "always" in vs:
                    return "bad" if "bad" in vs else "always", facts, probs
                return ("ok" if "ok" in vs else "never"), facts, probs
            if "never" in vs:
                return "never", [], []
            if "ok" in vs:
                return "ok", facts, []  # the conjunction fires only inside the region of its tight member
            return ("always" if all(v == "always" for v in vs) else "bad"), facts, probs

        verdict, facts, problems = status(tree)
        found = [{"quantity": TA.classify(a["monomial"], res["quantities"], res["alg"])[1] if a["monomial"] else "constant", "bound": a["c"]} for a in TA.tree_atoms(tree)][:4]
        if verdict in ("bad", "always"):
            chk.violation("degenerate-guard", fi.site(g), "early return under `" + norm(g.test)[:80] + "` is not a collinearity test with a tolerance <= " + str(EPS_MAX) + ": " + "; ".join(problems[:2]), gkey, expected=f"|b_i x b_j| (or the sine of the bond angle) < c with c <= {EPS_MAX}", found=found)
        elif verdict == "never":
            chk.error("degenerate-guard", fi.site(g), f"early return under `{norm(g.test)[:80]}` bounds no norm from above by a positive number: not readable as a degeneracy test")
        else:
            chk.ok("degenerate-guard", fi.site(g), "early return only when the geometry is degenerate: " + " or ".join(facts))
    # numpy.clip(c, -1, 1) is read as the identity by the algebra: that needs |c| <= 1, i.e. c is a dot product of vectors of length <= 1
    inl = Inliner(fi.node)
    from sa.flow import FlowMap

    fmc = FlowMap(fi.node)

    def unit_status(e: ast.AST, at, depth: int = 6):
        """('le1', None) when the vector has length <= 1 by construction; ('no', reason) when it is v / |w| with another w; ('?', text) unknown."""
        if depth == 0:
            return ("?", norm(e))
        if isinstance(e, ast.Name):
            d = inl.reaching(e.id, at)
            if d is None:
                return ("?", e.id)
            return unit_status(d, inl.stmt_of_value(d) or at, depth - 1)
        if isinstance(e, ast.IfExp):
            a = unit_status(e.body, at, depth - 1)
            # else-branch `v` is taken only when |v| <= eps
            m = astq.match(e.test, "N_ > E_")
            small = False
            if m:
                nn = m["N_"]
                if isinstance(nn, ast.Name):
                    nd = inl.reaching(nn.id, at)
                    nn = nd if nd is not None else nn
                mm = astq.match(nn, "numpy.linalg.norm(V_)") or astq.match(nn, "np.linalg.norm(V_)")
                eps = Folder(repo, module).try_fold(m["E_"])
                small = bool(mm) and norm(mm["V_"]) == norm(e.orelse) and isinstance(eps, float) and eps <= 1.0
            if a[0] == "le1" and small:
                return ("le1", None)
            return a if a[0] != "le1" else ("?", norm(e))
        if isinstance(e, ast.BinOp) and isinstance(e.op, ast.Div):
            den = e.right
            if isinstance(den, ast.Name):
                dd = inl.reaching(den.id, at)
                den = dd if dd is not None else den
            mm = astq.match(den, "numpy.linalg.norm(V_)") or astq.match(den, "np.linalg.norm(V_)")
            if mm:
                if norm(mm["V_"]) == norm(e.left):
                    return ("le1", None)
                return ("no", f"`{norm(e)}` divides {norm(e.left)} by the length of {norm(mm['V_'])}")
            return ("?", norm(e))
        if isinstance(e, ast.Call) and astq.callee_name(e) == "cross" and len(e.args) == 2:
            a, b = unit_status(e.args[0], at, depth - 1), unit_status(e.args[1], at, depth - 1)
            for x in (a, b):
                if x[0] != "le1":
                    return x
            return ("le1", None)
        return ("?", norm(e))

    for c in [n for n in ast.walk(fi.node) if isinstance(n, ast.Call) and astq.callee_name(n) == "clip"]:
        st = fmc.stmt_of(c)
        arg = c.args[0] if c.args else None
        if isinstance(arg, ast.Name):
            d = inl.reaching(arg.id, st)
            arg_at = inl.stmt_of_value(d) if d is not None else st
            arg = d if d is not None else arg
        else:
            arg_at = st
        lohi = [Folder(repo, module).try_fold(a) for a in c.args[1:3]]
        # fact first: the clipped quantity is, as a polynomial identity, exactly cos(phi) or sin(phi) (a dot product divided by the two lengths ...)
        top = next((t for t, _ in res.get("envs", []) if any(n is c for n in ast.walk(t))), None)
        if top is not None and c.args and len(lohi) == 2 and all(isinstance(v, (int, float)) for v in lohi) and lohi[0] <= -1.0 and lohi[1] >= 1.0:
            env_before = next(e for t, e in res["envs"] if t is top)
            try:
                leaves = res.get("leaves") or CI.Leaves(res["alg"], res["pts"])
                q = res["alg"].ev(c.args[0], env_before)
                v = None if isinstance(q, TA.Vec) else leaves.classify(q, norm(c.args[0]))
            except (AlgebraError, CI.Undecided):
                v = None
            if isinstance(v, CI.Trig) and v.unit:
                chk.ok("clip-noop", fi.site(c), f"the clipped quantity equals {v.text()} as a polynomial identity (|b1 x b2| |b2 x b3| times it is the {'cosine' if v.kind == 'c' else 'sine'} term): it lies in [-1, 1], the clip only removes round-off")
                continue
            rng = leaves.factor_range(v.kappa) if isinstance(v, CI.Trig) and v.kappa is not None and v.unit is not None else None
            if rng is not None:
                # the clipped quantity is k * cos(phi) (or k * sin(phi)) with k a monomial in bond lengths and sines of the bond angles
                lo_k, hi_k, ktext, at = rng
                trig = "cos(phi)" if v.kind == "c" else "sin(phi)"
                if hi_k <= 1.0 + 1e-12:
                    chk.ok("clip-noop", fi.site(c), f"the clipped quantity is k * {trig} with k = {ktext} <= {hi_k:.3g} on the whole domain (bond lengths 0.8-2.5 A, bond angles 20-160 degrees): it lies in [-1, 1], the clip only removes round-off")
                else:
                    where = ", ".join(f"{ {'l1': '|b1|', 'l2': '|b2|', 'l3': '|b3|', 's1': 'sin(theta1)', 's2': 'sin(theta2)'}[q]} = {x:g}" for q, x in at.items())
                    chk.violation(
                        "clip-noop",
                        fi.site(c),
                        f"`{norm(c)[:60]}` clips k * {trig} with k = {ktext}, which is not bounded by 1: it reaches {hi_k:.3g} on the domain of the property ({where}). Wherever k |{trig}| > 1 the clip changes this argument of the atan2 "
                        "while the other one keeps its scale, so the value returned is not phi and depends on the bond lengths and bond angles (the torsion must be independent of them)",
                        K(fi, "clip"),
                        expected="a clipped quantity inside [-1, 1] on the whole domain (a product of unit vectors)",
                        found={"k": ktext, "sup": round(hi_k, 4), "at": at},
                    )
                continue
        if not (isinstance(arg, ast.Call) and astq.callee_name(arg) == "dot" and len(arg.args) == 2 and lohi == [-1.0, 1.0]):
            chk.error("clip-noop", fi.site(c), f"`{norm(c)[:60]}`: clipped quantity is not a dot product clipped to [-1, 1]")
            continue
        sts = [unit_status(a, arg_at or st) for a in arg.args]
        bad = [x for x in sts if x[0] == "no"]
        unk = [x for x in sts if x[0] == "?"]
        if bad:
            chk.violation("clip-noop", fi.site(c), f"{bad[0][1]}: the vector is not of unit length, so the dot product clipped to [-1, 1] can exceed 1 and the clip changes the cosine term while the sine term keeps its scale - the angle is wrong whenever the two bond lengths differ enough", K(fi, "clip"))
        elif unk:
            chk.error("clip-noop", fi.site(c), f"length bound of `{unk[0][1][:60]}` not established")
        else:
            chk.ok("clip-noop", fi.site(c), "the clipped dot product is between vectors of length <= 1: the clip only removes round-off")
    # after the atan2: the value is returned unchanged (radians) on every path
    from checks import c18e

    if not res.get("circle"):
        c18e.check_returned(chk, fi, res, module)


def check_users(chk) -> None:
    repo = chk.repo
    ta = repo.func(T1, "torsion_angle")
    chk.note_function(ta)
    from checks import c03, c11, c18e

    if not c18e.check_wrapper(chk, ta):
        rets = [r for r in ta.node.body if isinstance(r, ast.Return)]
        chk.expect(len(rets) == 1 and flat(rets[0].value) == flat("calculate_torsion_angle_coords(a1.coordinates, a2.coordinates, a3.coordinates, a4.coordinates)"), "torsion-wrapper", ta.where, "torsion_angle passes the four atoms' coordinates in order", "torsion_angle does not pass (a1, a2, a3, a4).coordinates in order", K(ta, "wrapper"))

    # chi of both implementations, the torsion table of tertiary_v2 (evaluated on stub residues / segments; pinned form only as a fallback)
    c18e.check_chi(chk)
    # the coordinates the table is computed from are the current ones (no answer remembered across a change of the frame)
    c18e.check_lookup_current(chk)
    # ... and are never written in place by code that merely borrowed the array (atom.coordinates is one array per atom)
    c18e.check_borrowed_arrays(chk)
    c03.check_cis_trans(chk)
    c11.check_bph(chk)
    # chi_class: radians against radians, evaluated on one chi per cell
    c18e.check_chi_class(chk)
    # inter-stem torsion: (neighbour, end, end, neighbour) about the closest pair of stem ends; radians in, degrees out (evaluated; pinned form as fallback)
    if c18e.check_interstem(chk):
        return
    ci = repo.func(T1, "Mapping2D3D.calculate_inter_stem_parameters")
    chk.note_function(ci)
    tr = astq.first_assign(ci.node, "torsion_radians")
    ok = tr is not None and norm(tr) == "calculate_torsion_angle_coords(s1p1, s1p2, s2p1, s2p2)"
    outs = [v for d in ast.walk(ci.node) if isinstance(d, ast.Dict) for k, v in zip(d.keys, d.values) if isinstance(k, ast.Constant) and k.value == "torsion_angle"]
    ok = ok and len(outs) == 1 and norm(outs[0]) == "math.degrees(torsion_radians)"
    pdf = [c for c in astq.calls(ci.node, "pdf") if norm(c.args[0]) == "torsion_radians"] if tr is not None else []
    chk.expect(ok and len(pdf) == 1, "interstem-units", ci.where, "inter-stem torsion is computed in radians, scored in radians, reported in degrees", "inter-stem torsion units changed (radians into the von Mises pdf, degrees out)", K(ci, "units"))


def run(chk) -> None:
    chk.explanation = (
        "Polynomial normal forms (exact rational arithmetic, positive norm symbols with norm^2 -> v.v) of the two atan2 arguments of each torsion function, obtained by reading the function body "
        "statement by statement (new module-level helpers inlined, unpacked comprehensions written out), are compared with the IUPAC closed form: y * x_ref - x * y_ref must be the zero polynomial and x a "
        "positive multiple of x_ref. That decides the value for every non-degenerate quadruple at once (hence range, reversal symmetry, mirror antisymmetry, rigid invariance). Every early return before the "
        "atan2 is brought to bounds Q < c on monomials in norms (thresholds folded numerically, through np.sin / arcsin / degrees / min / not): Q must be the norm of a cross product of consecutive bonds, the sine "
        "of a bond angle or a bond length, and c <= 1e-3. The statements after the atan2 are evaluated on representative values and proved to return the value unchanged. Users are decided by evaluation of "
        "the fragments on stubs: chi of Residue3D on 12 one-letter names x 11 sets of atoms, chi_class on one chi per cell, the tertiary_v2 torsion table on five stub-segment scenarios, against the IUPAC atom "
        "table; the inter-stem torsion on stub stems (which pair of stem ends is closest x stem lengths: the four points are neighbour, end, end, neighbour; radians scored, degrees reported); "
        "tertiary_v2.Residue.find_atom / Atom.coordinates on stub frames (what was looked up before x in-place change of the coordinates / replaced frame: a lookup answers from the current frame); "
        "cis/trans and BPh splits as before. A torsion function that is not one plain atan2 is evaluated symbolically on the eight cells of the circle (acos / asin / atan2 / sign / copysign / "
        "conditionals over the sine and cosine terms) and must return phi on every cell, phi = 0 and phi = pi included. "
        "A clip of an atan2 argument is decided as a bound: the clipped quantity is k * cos(phi) with k a monomial in the bond lengths and the sines of the bond angles, and sup k over the domain "
        "(0.8-2.5 A, 20-160 degrees) must be <= 1. In-place numpy operations (+=, [..] =, out=, fill ...) on names that alias an array kept per object (cached_property / field) or an array parameter of a torsion "
        "function are found package-wide by an origin analysis (sa/alias.py)."
    )
    chk.trusted = ["CPython ast", "numpy cross/dot/norm/arctan2 semantics", "IUPAC-IUB torsion table (spec/iupac_torsions.json)"]
    chk.assumptions = [
        "non-degenerate input (no three consecutive points collinear)",
        "floating-point error is not decided",
        "input in the domain of the property (bond lengths 0.8-2.5 A, bond angles 20-160 degrees): a conditional normalisation `v / |v| if |v| > eps else v` whose threshold is below half the smallest value of that norm on the domain takes its first branch; any other conditional stays 'a positive multiple of the same vector'",
    ]
    chk.robust |= {"torsion-closed-form", "clip-noop", "chi-atoms", "chi-agree", "chi-bases", "backbone-atoms", "cis-trans", "cis-trans-atoms", "bph-split", "bph-class-table", "chi-class-units", "chi-dispatch", "degenerate-guard", "torsion-returned", "torsion-wrapper", "interstem-points", "lookup-current-state", "borrowed-array-write"}
    check_function(chk, T1, "calculate_torsion_angle_coords")
    check_function(chk, T2, "calculate_torsion_angle")
    check_users(chk)
    chk.floor("torsion-closed-form", 2)
    chk.floor("degenerate-guard", 2)


MANIFEST_ENTRY = {
    "text": "Exact algebraic decision on the current source: for both torsion implementations the atan2 arguments, as polynomials in the 12 coordinates (with positive norm symbols), satisfy y * x_ref = x * y_ref "
    "with x a positive multiple of x_ref, where (y_ref, x_ref) is the IUPAC closed form - a proof over all non-degenerate point quadruples, which constructed-angle sampling can only approximate. "
    "tertiary.py = IUPAC; tertiary_v2.py = exact negation (known finding F18, pinned by a test, reported as KNOWN-FINDING). Degenerate guards are decided as bounds on norm monomials with numerically folded thresholds; "
    "the returned value, the atom quadruples of chi / the backbone table, the units of chi_class, the four points of the inter-stem torsion and the freshness of the coordinates a lookup returns are decided by "
    "evaluating the fragments on input-class representatives (stub residues, segments, stems, frames with a call history). Closed forms other than one atan2 (acos with a sign, copysign, conditionals) are decided "
    "symbolically on the eight cells of the circle.",
    "note": "Trusted: numpy primitives; the algebra engine (sa/polyalg.py). Not decided: degenerate branches (0.0 vs NaN), floating-point error, signed zeros; whether the mean angle mu of each inter-stem arrangement is the right one (a datum).",
    "technique": "static analysis: abstract interpretation of straight-line vector code into polynomial normal forms + polynomial identity check against the IUPAC closed form",
}
