"""C18 - torsion angles follow the IUPAC convention in both implementations.

A12: the arguments of the final atan2(y, x) of both torsion functions are brought to polynomial normal form over the
coordinates of the four points and compared with the IUPAC closed form  y_ref = |b2| det(b1,b2,b3),
x_ref = (b1 x b2).(b2 x b3).  Range, reversal symmetry, mirror antisymmetry and rigid invariance then follow from the
closed form.  Plus: degenerate guards are collinearity tests only, the value returned is the atan2 in radians, the
users pass the right atoms in the right order and keep units consistent.
"""
from __future__ import annotations

import ast
from typing import Any, Dict, List

from checks.c03 import K, spec
from checks.c08 import flat
from sa import astq, intervals
from sa.consteval import Folder
from sa.defuse import Inliner
from sa.model import AnalysisError, norm
from sa.polyalg import AlgebraError, analyse_torsion

T1, T2, AN = "tertiary", "tertiary_v2", "annotator"
EPS_MAX = 1e-3


def check_function(chk, module: str, qual: str) -> None:
    repo = chk.repo
    fi = repo.func(module, qual)
    chk.note_function(fi)
    try:
        res = analyse_torsion(fi.node)
    except AlgebraError as ex:
        chk.error("torsion-closed-form", fi.where, f"function body is outside the straight-line vector algebra: {ex}")
        return
    ok = res["same_ratio"] and res["x_positive_multiple"]
    if res["negated_ratio"] and res["x_positive_multiple"]:
        why = "y/x is the exact negation of the IUPAC ratio (x a positive multiple of x_ref): the function returns -phi"
    elif res["same_ratio"] and res["x_negative_multiple"]:
        why = "x and y are both negated: the function returns phi +- pi"
    elif not res["same_ratio"]:
        why = "y * x_ref != x * y_ref as polynomials: the angle is not the IUPAC dihedral (wrong vectors, swapped atan2 arguments or a missing |b2|)"
    else:
        why = "the sign of x could not be related to x_ref"
    chk.expect(
        ok,
        "torsion-closed-form",
        fi.site(res["atan2"]),
        f"atan2 arguments satisfy y * x_ref = x * y_ref and x is a positive multiple of x_ref ({res['norm_atoms']} norm atoms): the value is the IUPAC dihedral for all non-degenerate inputs",
        f"{qual}: {why}",
        key=f"{module}:{qual}:sign" if res["negated_ratio"] else f"{module}:{qual}:closed-form",
        expected="atan2(|b2| b1.(b2 x b3), (b1 x b2).(b2 x b3))",
        found={k: res[k] for k in ("same_ratio", "negated_ratio", "x_positive_multiple", "x_negative_multiple")},
    )
    # degenerate guards: collinearity tests with a tiny tolerance only
    fold = Folder(repo, module)
    for g in res["guards"]:
        consts = [fold.try_fold(c) for n in ast.walk(g.test) if isinstance(n, ast.Compare) for c in n.comparators]
        norms = [n for n in ast.walk(g.test) if isinstance(n, ast.Compare)]
        shape_ok = all(isinstance(n.ops[0], (ast.Lt, ast.LtE)) and len(n.ops) == 1 for n in norms) and all(isinstance(c, (int, float)) and 0 < c <= EPS_MAX for c in consts) and len(consts) >= 1
        lefts = [norm(n.left) for n in norms]
        left_ok = all(l.endswith("_norm") or "linalg.norm(" in l for l in lefts)
        too_wide = [c for c in consts if isinstance(c, (int, float)) and c > EPS_MAX] and all(isinstance(n.ops[0], (ast.Lt, ast.LtE)) and len(n.ops) == 1 for n in norms)
        chk.expect(
            shape_ok and left_ok,
            "degenerate-guard" if too_wide else "degenerate-guard-form",
            fi.site(g),
            f"early return only when a cross product is (nearly) zero: `{norm(g.test)[:70]}`",
            f"early return under `{norm(g.test)[:80]}` is not a collinearity test with a tolerance <= {EPS_MAX}: non-degenerate geometries get the fallback value instead of phi",
            K(fi, f"guard:{norm(g.test)[:50]}"),
        )
    # numpy.clip(c, -1, 1) is read as the identity by the algebra: that needs |c| <= 1, i.e. c is a dot product of vectors of length <= 1
    inl = Inliner(fi.node)
    from sa.flow import FlowMap

    fmc = FlowMap(fi.node)

    def unit_status(e: ast.AST, at, depth: int = 6):
        """('le1', None) when the vector has length <= 1 by construction; ('no', reason) when it is v / |w| with another w; ('?', text) unknown."""
        if depth == 0:
            return ("?", norm(e))
        if isinstance(e, ast.Name):
            d = inl.reaching(e.id, at)
            if d is None:
                return ("?", e.id)
            return unit_status(d, inl.stmt_of_value(d) or at, depth - 1)
        if isinstance(e, ast.IfExp):
            a = unit_status(e.body, at, depth - 1)
            # else-branch `v` is taken only when |v| <= eps
            m = astq.match(e.test, "N_ > E_")
            small = False
            if m:
                nn = m["N_"]
                if isinstance(nn, ast.Name):
                    nd = inl.reaching(nn.id, at)
                    nn = nd if nd is not None else nn
                mm = astq.match(nn, "numpy.linalg.norm(V_)") or astq.match(nn, "np.linalg.norm(V_)")
                eps = Folder(repo, module).try_fold(m["E_"])
                small = bool(mm) and norm(mm["V_"]) == norm(e.orelse) and isinstance(eps, float) and eps <= 1.0
            if a[0] == "le1" and small:
                return ("le1", None)
            return a if a[0] != "le1" else ("?", norm(e))
        if isinstance(e, ast.BinOp) and isinstance(e.op, ast.Div):
            den = e.right
            if isinstance(den, ast.Name):
                dd = inl.reaching(den.id, at)
                den = dd if dd is not None else den
            mm = astq.match(den, "numpy.linalg.norm(V_)") or astq.match(den, "np.linalg.norm(V_)")
            if mm:
                if norm(mm["V_"]) == norm(e.left):
                    return ("le1", None)
                return ("no", f"`{norm(e)}` divides {norm(e.left)} by the length of {norm(mm['V_'])}")
            return ("?", norm(e))
        if isinstance(e, ast.Call) and astq.callee_name(e) == "cross" and len(e.args) == 2:
            a, b = unit_status(e.args[0], at, depth - 1), unit_status(e.args[1], at, depth - 1)
            for x in (a, b):
                if x[0] != "le1":
                    return x
            return ("le1", None)
        return ("?", norm(e))

    for c in [n for n in ast.walk(fi.node) if isinstance(n, ast.Call) and astq.callee_name(n) == "clip"]:
        st = fmc.stmt_of(c)
        arg = c.args[0] if c.args else None
        if isinstance(arg, ast.Name):
            d = inl.reaching(arg.id, st)
            arg_at = inl.stmt_of_value(d) if d is not None else st
            arg = d if d is not None else arg
        else:
            arg_at = st
        lohi = [Folder(repo, module).try_fold(a) for a in c.args[1:3]]
        if not (isinstance(arg, ast.Call) and astq.callee_name(arg) == "dot" and len(arg.args) == 2 and lohi == [-1.0, 1.0]):
            chk.error("clip-noop", fi.site(c), f"`{norm(c)[:60]}`: clipped quantity is not a dot product clipped to [-1, 1]")
            continue
        sts = [unit_status(a, arg_at or st) for a in arg.args]
        bad = [x for x in sts if x[0] == "no"]
        unk = [x for x in sts if x[0] == "?"]
        if bad:
            chk.violation("clip-noop", fi.site(c), f"{bad[0][1]}: the vector is not of unit length, so the dot product clipped to [-1, 1] can exceed 1 and the clip changes the cosine term while the sine term keeps its scale - the angle is wrong whenever the two bond lengths differ enough", K(fi, "clip"))
        elif unk:
            chk.error("clip-noop", fi.site(c), f"length bound of `{unk[0][1][:60]}` not established")
        else:
            chk.ok("clip-noop", fi.site(c), "the clipped dot product is between vectors of length <= 1: the clip only removes round-off")
    # every other statement before the atan2 was interpreted; after it: the value is returned (radians)
    rets = [r for r in astq.walk_no_nested(fi.node) if isinstance(r, ast.Return) and r.value is not None]
    final = [r for r in rets if r.lineno >= res["atan2_stmt"].lineno]
    tgt = res["atan2_stmt"].targets[0].id if isinstance(res["atan2_stmt"], ast.Assign) and isinstance(res["atan2_stmt"].targets[0], ast.Name) else None
    ok = len(final) == 1 and (norm(final[0].value) in (tgt, f"{tgt} if not math.isnan({tgt}) else 0.0", f"float({tgt})") or final[0] is res["atan2_stmt"])
    chk.expect(ok, "torsion-returned", fi.where, "the atan2 value (radians, in (-pi, pi]) is what the function returns", "the function does not return the atan2 value unchanged (unit conversion, negation or offset after the atan2)", K(fi, "returned"), found=[norm(r.value) for r in final])
    extra_ifs = [s for s in fi.node.body if isinstance(s, ast.If) and s not in res["guards"]]
    chk.expect(not extra_ifs, "degenerate-guard", fi.where, "no branch after the closed form", f"additional branch after the closed form: `{norm(extra_ifs[0].test)[:60]}`" if extra_ifs else "", K(fi, "late-branch"))


def check_users(chk) -> None:
    repo = chk.repo
    ta = repo.func(T1, "torsion_angle")
    chk.note_function(ta)
    rets = [r for r in ta.node.body if isinstance(r, ast.Return)]
    chk.expect(len(rets) == 1 and flat(rets[0].value) == flat("calculate_torsion_angle_coords(a1.coordinates, a2.coordinates, a3.coordinates, a4.coordinates)"), "torsion-wrapper", ta.where, "torsion_angle passes the four atoms' coordinates in order", "torsion_angle does not pass (a1, a2, a3, a4).coordinates in order", K(ta, "wrapper"))
    from checks import c03, c11, c15

    c15.check_chi(chk)
    c03.check_cis_trans(chk)
    c11.check_bph(chk)
    # chi_class: radians against radians
    cc = repo.func(T1, "Residue3D.chi_class")
    chk.note_function(cc)
    tests = [s for s in cc.node.body if isinstance(s, ast.If) and "self.chi" in norm(s.test) and "isnan" not in norm(s.test)]
    if len(tests) != 1:
        chk.error("chi-class-units", cc.where, "syn/anti test not found")
    else:
        try:
            reg = intervals.region(tests[0].test, [((lambda n: norm(n) == "self.chi"), "rad")], Folder(repo, T1).fold, extra_thresholds=(-30.0, 120.0, -180.0, 180.0))
            bad = {k: v for k, v in reg.items() if -180 <= k[0] <= 180 and v != (-30 < k[0] < 120)}
            chk.expect(not bad and norm(tests[0].body[0]) == "return GlycosidicBond.syn", "chi-class-units", cc.site(tests[0]), "syn iff -30 < chi < 120 degrees, compared in radians", f"`{norm(tests[0].test)}` does not compare the radian-valued chi with -30..120 degrees converted to radians", K(cc, "units"), found={str(k): v for k, v in list(bad.items())[:4]})
        except intervals.NotThreshold as ex:
            chk.error("chi-class-units", cc.site(tests[0]), str(ex))
    # inter-stem torsion: radians in, degrees out
    ci = repo.func(T1, "Mapping2D3D.calculate_inter_stem_parameters")
    chk.note_function(ci)
    tr = astq.first_assign(ci.node, "torsion_radians")
    ok = tr is not None and norm(tr) == "calculate_torsion_angle_coords(s1p1, s1p2, s2p1, s2p2)"
    outs = [v for d in ast.walk(ci.node) if isinstance(d, ast.Dict) for k, v in zip(d.keys, d.values) if isinstance(k, ast.Constant) and k.value == "torsion_angle"]
    ok = ok and len(outs) == 1 and norm(outs[0]) == "math.degrees(torsion_radians)"
    pdf = [c for c in astq.calls(ci.node, "pdf") if norm(c.args[0]) == "torsion_radians"] if tr is not None else []
    chk.expect(ok and len(pdf) == 1, "interstem-units", ci.where, "inter-stem torsion is computed in radians, scored in radians, reported in degrees", "inter-stem torsion units changed (radians into the von Mises pdf, degrees out)", K(ci, "units"))
    # tertiary_v2 users call the second implementation with coordinates in definition order
    st = repo.func(T2, "Structure.torsion_angles")
    chk.note_function(st)
    bb = [c for c in astq.calls(st.node, "calculate_torsion_angle") if flat(c) == flat("calculate_torsion_angle(atoms[0], atoms[1], atoms[2], atoms[3])")]
    chk.expect(len(bb) == 1, "torsion-wrapper", st.where, "backbone torsions pass the four atoms in definition order", "backbone torsions do not pass atoms[0..3] in order", K(st, "backbone-call"))
    app = [s for s in ast.walk(st.node) if isinstance(s, ast.Expr) and norm(s.value) == "atoms.append(atom.coordinates)"]
    chk.expect(len(app) == 1, "torsion-wrapper", st.where, "atoms are collected in the order of the definition", "atom coordinates are not appended in definition order", K(st, "backbone-order"))


def run(chk) -> None:
    chk.explanation = (
        "Polynomial normal forms (exact rational arithmetic, positive norm symbols with norm^2 -> v.v) of the two atan2 arguments of each torsion function, obtained by reading the function body "
        "statement by statement, are compared with the IUPAC closed form: y * x_ref - x * y_ref must be the zero polynomial and x a positive multiple of x_ref. That decides the value for every "
        "non-degenerate quadruple at once (hence range, reversal symmetry, mirror antisymmetry, rigid invariance). Degenerate guards must be collinearity tests with a tolerance <= 1e-3; the "
        "atan2 value must be returned unchanged; users (chi, cis/trans, BPh splits, chi class, inter-stem, backbone tables) pass IUPAC atom quadruples in order with consistent units."
    )
    chk.trusted = ["CPython ast", "numpy cross/dot/norm/arctan2 semantics", "IUPAC-IUB torsion table (spec/iupac_torsions.json)"]
    chk.assumptions = ["non-degenerate input (no three consecutive points collinear)", "floating-point error is not decided"]
    chk.robust |= {"torsion-closed-form", "clip-noop", "chi-atoms", "chi-agree", "backbone-atoms", "cis-trans", "cis-trans-atoms", "bph-split", "bph-class-table", "chi-class-units", "chi-dispatch", "degenerate-guard"}
    check_function(chk, T1, "calculate_torsion_angle_coords")
    check_function(chk, T2, "calculate_torsion_angle")
    check_users(chk)
    chk.floor("torsion-closed-form", 2)
    chk.floor("degenerate-guard-form", 2)


MANIFEST_ENTRY = {
    "text": "Exact algebraic decision on the current source: for both torsion implementations the atan2 arguments, as polynomials in the 12 coordinates (with positive norm symbols), satisfy y * x_ref = x * y_ref "
    "with x a positive multiple of x_ref, where (y_ref, x_ref) is the IUPAC closed form - a proof over all non-degenerate point quadruples, which constructed-angle sampling can only approximate. "
    "tertiary.py = IUPAC; tertiary_v2.py = exact negation (known finding F18, pinned by a test, reported as KNOWN-FINDING). Degenerate guards, returned value, users' atom quadruples and units are checked structurally.",
    "note": "Trusted: numpy primitives; the algebra engine (sa/polyalg.py). Not decided: degenerate branches (0.0 vs NaN), floating-point error.",
    "technique": "static analysis: abstract interpretation of straight-line vector code into polynomial normal forms + polynomial identity check against the IUPAC closed form",
}
