"""C06 - 3D-to-2D mapping gives a valid matching and faithful text for any pair list.

Decided on tertiary.Mapping2D3D: the matching typestate of every list handed to __generate_bpseq (which overwrites
partners silently otherwise), removal only under conflict, pair lifting with guarded reverse duplication, BPSEQ
numbering, sibling agreement of the two gap-placeholder rules and of the two nucleotide lists, consecutive per-strand
slices, row/strand pairing, extended rows.
"""
from __future__ import annotations

import ast
from typing import Any, Dict, List, Optional, Tuple

from checks.c03 import K
from checks.c08 import flat
from sa import astq
from sa.flow import FlowMap, always_exits, facts
from sa.model import AnalysisError, FuncInfo, norm

T3 = "tertiary"
CLS = "Mapping2D3D"


def conflict_loop_is_matching(fi: FuncInfo, lst: str) -> Tuple[bool, str]:
    """`lst` leaves a `while True` whose only exit is the else of a for that breaks whenever some residue still has
    more than one pair after removing one - so on exit every residue has at most one pair."""
    whiles = [w for w in fi.node.body if isinstance(w, ast.While) and norm(w.test) == "True"]
    if len(whiles) != 1:
        return False, "no `while True` resolution loop"
    w = whiles[0]
    body = w.body
    if len(body) != 3:
        return False, f"resolution loop has {len(body)} statements, expected 3 (index, collect, resolve)"
    if flat(body[0]) != flat("matches = defaultdict(set)"):
        return False, "the per-residue index is not rebuilt (matches = defaultdict(set)) in every round"
    col = body[1]
    if not (isinstance(col, ast.For) and norm(col.iter) == lst and [flat(s) for s in col.body] == [flat(f"matches[{norm(col.target)}.nt1_3d].add({norm(col.target)})"), flat(f"matches[{norm(col.target)}.nt2_3d].add({norm(col.target)})")]):
        return False, "pairs are not indexed under both of their residues"
    res = body[2]
    if not (isinstance(res, ast.For) and norm(res.iter) == "matches.values()" and [norm(s) for s in res.orelse] == ["break"]):
        return False, "the loop is not left through the else of `for pairs in matches.values()`"
    v = norm(res.target)
    if not (len(res.body) == 1 and isinstance(res.body[0], ast.If) and norm(res.body[0].test) in (f"len({v}) > 1", f"len({v}) >= 2")):
        return False, "conflict test is not len(pairs) > 1"
    inner = [norm(s) for s in res.body[0].body]
    if not (len(inner) == 3 and inner[0] == f"{v} = sorted({v}, key=pair_scoring_function)" and inner[1] == f"{lst}.remove({v}[-1])" and inner[2] == "break"):
        return False, f"a conflict is not resolved by removing the worst-scored pair and re-examining: {inner}"
    return True, "while True / for ... if len(pairs) > 1: remove worst; break / else: break"


def check_bpseq_matching(chk) -> None:
    repo = chk.repo
    for q in (f"{CLS}._generated_bpseq_data", f"{CLS}.bpseq"):
        fi = repo.func(T3, q)
        chk.note_function(fi)
        can = astq.first_assign(fi.node, "canonical")
        ok = can is not None and flat(can) == flat("[base_pair for base_pair in self.base_pairs if base_pair.is_canonical and base_pair.nt1 < base_pair.nt2]")
        chk.expect(ok, "canonical-candidates", fi.where, "candidates = canonical pairs with nt1 < nt2 (each pair once)", "the candidate list is not [bp for bp in self.base_pairs if bp.is_canonical and bp.nt1 < bp.nt2]", K(fi, "candidates"), found=norm(can) if can is not None else None)
        m, why = conflict_loop_is_matching(fi, "canonical")
        chk.expect(m, "matching-typestate", fi.where, f"`canonical` is a matching when the loop is left ({why})", f"`canonical` is not shown to be a matching after conflict resolution: {why}", K(fi, "resolution"))
        # the only removal is inside the conflict guard
        rem = astq.calls(fi.node, "remove")
        chk.expect(len(rem) == 1, "removal-under-conflict", fi.where, "pairs are removed only inside the conflict branch", f"{len(rem)} removal sites: a pair can be dropped without a conflict", K(fi, "removals"))
    g = repo.func(T3, f"{CLS}._generated_bpseq_data")
    rets = [r for r in g.node.body if isinstance(r, ast.Return)]
    chk.expect(len(rets) == 1 and norm(rets[0].value) == "self.__generate_bpseq(canonical)", "matching-typestate", g.where, "__generate_bpseq receives the resolved matching", "__generate_bpseq is not called with the resolved `canonical` list", K(g, "call"))
    b = repo.func(T3, f"{CLS}.bpseq")
    rets = [r for r in b.node.body if isinstance(r, ast.Return)]
    chk.expect(len(rets) == 1 and norm(rets[0].value) == "self._generated_bpseq_data[0]", "bpseq-source", b.where, "bpseq is the first component of the generated data", "bpseq does not return self._generated_bpseq_data[0]", K(b, "result"))
    im = repo.func(T3, f"{CLS}.bpseq_index_to_residue_map")
    rets = [r for r in im.node.body if isinstance(r, ast.Return)]
    chk.expect(len(rets) == 1 and norm(rets[0].value) == "self._generated_bpseq_data[1]", "bpseq-source", im.where, "index map is the second component of the same data", "index map does not return self._generated_bpseq_data[1]", K(im, "result"))
    # scoring key total on the residues (shared with C14's exception)
    for q in (f"{CLS}._generated_bpseq_data", f"{CLS}.bpseq"):
        fi = repo.func(T3, q)
        sc = [n for n in ast.walk(fi.node) if isinstance(n, ast.FunctionDef) and n.name == "pair_scoring_function"]
        ok = False
        if len(sc) == 1:
            rets = [r.value for r in ast.walk(sc[0]) if isinstance(r, ast.Return)]
            ok = all(isinstance(r, ast.Tuple) and len(r.elts) == 3 and norm(r.elts[1]) == "pair.nt1" and norm(r.elts[2]) == "pair.nt2" and isinstance(r.elts[0], ast.Constant) for r in rets) and len(rets) == 4
            ranks = [r.elts[0].value for r in rets if isinstance(r, ast.Tuple)]
            ok = ok and sorted(ranks) == [0, 0, 1, 1]
        chk.expect(ok, "conflict-score", fi.where, "score = (0 for Watson-Crick G-C/A-U(T), 1 otherwise, nt1, nt2): the worst-scored pair of a conflict is removed", "the conflict score is not (rank, nt1, nt2) with rank 0 for XIX/XX resp. AU/AT/CG and 1 otherwise", K(fi, "score"))


def check_lifting(chk) -> None:
    repo = chk.repo
    for q, ctor, src in ((f"{CLS}.base_pairs", "BasePair3D", "self.base_pairs2d"), (f"{CLS}.stackings", "Stacking3D", "self.stackings2d")):
        fi = repo.func(T3, q)
        chk.note_function(fi)
        loops = [l for l in fi.node.body if isinstance(l, ast.For)]
        if len(loops) != 1 or norm(loops[0].iter) != src:
            chk.error("lifting", fi.where, f"loop over {src} not found")
            continue
        loop = loops[0]
        x = norm(loop.target)
        d = {norm(s.targets[0]): flat(s.value) for s in loop.body if isinstance(s, ast.Assign)}
        ok = d.get("nt1") == flat(f"self.structure3d.find_residue({x}.nt1.label, {x}.nt1.auth)") and d.get("nt2") == flat(f"self.structure3d.find_residue({x}.nt2.label, {x}.nt2.auth)")
        chk.expect(ok, "lifting-resolve", fi.site(loop), "both ends are resolved in the structure by (label, auth)", "residues of an entry are not resolved by find_residue(label, auth) of their own end", K(fi, "resolve"))
        gi = [s for s in loop.body if isinstance(s, ast.If)]
        ok = len(gi) == 1 and norm(gi[0].test) == "nt1 is not None and nt2 is not None" and not gi[0].orelse
        chk.expect(ok, "lifting-dangling", fi.site(loop), "entries naming an absent residue are skipped", "dangling entries are not skipped by `nt1 is not None and nt2 is not None`", K(fi, "dangling"))
        if not ok:
            continue
        body = gi[0].body
        v = norm(body[0].targets[0]) if body and isinstance(body[0], ast.Assign) else None
        rest = [flat(s) for s in body[1:]]
        want = [flat(f"if {v} not in used:\n    result.append({v})\n    used.add({v})"), flat(f"if {v}.reverse not in used:\n    result.append({v}.reverse)\n    used.add({v}.reverse)")]
        chk.expect(
            rest == want,
            "lifting-guarded-insert",
            fi.site(gi[0]),
            "each entry contributes itself and its reverse, each at most once (test and insert on the same `used` set with the same key)",
            "the guarded insert of a pair and of its reverse is broken (a value appended without being added to `used`, or tested under another key): duplicates or losses in the lifted list",
            K(fi, "guarded-insert"),
            expected=want,
            found=rest,
        )
        if ctor == "BasePair3D":
            chk.expect(body and flat(body[0].value) == flat(f"BasePair3D({x}.nt1, {x}.nt2, {x}.lw, {x}.saenger, nt1, nt2)"), "lifting-record", fi.site(gi[0]), "BasePair3D(nt1, nt2, lw, saenger, residue1, residue2)", "the lifted pair does not carry (nt1, nt2, lw, saenger, nt1_3d, nt2_3d) of its entry", K(fi, "record"))
        u = astq.first_assign(fi.node, "used")
        chk.expect(u is not None and norm(u) == "set()" and len(astq.assignments(fi.node, "used")) == 1, "lifting-guarded-insert", fi.where, "`used` starts empty, once", "`used` is not one set initialised before the loop", K(fi, "used-init"))
    rv = repo.func(T3, "BasePair3D.reverse")
    chk.note_function(rv)
    rets = [r for r in rv.node.body if isinstance(r, ast.Return)]
    chk.expect(len(rets) == 1 and flat(rets[0].value) == flat("BasePair3D(self.nt2, self.nt1, self.lw.reverse, self.saenger, self.nt2_3d, self.nt1_3d)"), "lifting-reverse", rv.where, "reverse swaps both residues (2D and 3D) and reverses the class", "BasePair3D.reverse does not swap nt1/nt2, nt1_3d/nt2_3d and reverse lw", K(rv, "reverse"))


def gap_rule(fi: FuncInfo) -> Optional[Dict[str, Any]]:
    """Guard atoms and count expression of the gap-placeholder loop in fi."""
    fm = FlowMap(fi.node)
    for l in ast.walk(fi.node):
        if isinstance(l, ast.For) and isinstance(l.iter, ast.Call) and norm(l.iter.func) == "range" and "number" in norm(l.iter):
            # guards between the enclosing residue loop and this loop
            outer = [x for x in fm.of(l).loops]
            gs = facts(fm.guards_within(l, outer[-1]) if outer else fm.of(l).guards)
            atoms = set()
            for g in gs:
                t = norm(g.test)
                atoms.add(("not " if not g.polarity else "") + t)
            return {"count": norm(l.iter.args[0]) if len(l.iter.args) == 1 else norm(l.iter), "atoms": atoms, "loop": l}
    return None


def check_numbering(chk) -> None:
    repo = chk.repo
    fi = repo.func(T3, f"{CLS}.__generate_bpseq")
    ss = repo.func(T3, f"{CLS}.strands_sequences")
    chk.note_function(fi)
    chk.note_function(ss)
    # nucleotide lists agree
    n1, n2 = astq.first_assign(fi.node, "nucleotides"), astq.first_assign(ss.node, "nucleotides")
    want = flat("list(filter(lambda r: r.is_nucleotide, self.structure3d.residues))")
    chk.expect(n1 is not None and n2 is not None and flat(n1) == flat(n2) == want, "nucleotides-agree", fi.where, "BPSEQ and strand sequences enumerate the same nucleotides: residues with is_nucleotide, in file order", "the nucleotide lists of __generate_bpseq and strands_sequences differ (or are not the is_nucleotide residues in file order): sequence and matching drift apart", K(fi, "nucleotides"))
    # gap rules agree
    g1, g2 = gap_rule(fi), gap_rule(ss)
    if g1 is None or g2 is None:
        chk.error("gap-rule-agree", fi.where, "gap placeholder loop not found in one of the two functions")
    else:
        def canon(atoms):
            out = set()
            for a in atoms:
                if a in ("self.find_gaps and j > 0", "self.find_gaps"):
                    out.add("find_gaps")
                elif a in ("j > 0", "i > 0"):
                    continue  # `previous` exists: the other site starts its loop at 1
                elif a in ("not previous.is_connected(residue) and previous.chain == residue.chain",):
                    out |= {"not previous.is_connected(residue)", "same chain"}
                elif a == "not previous.is_connected(residue)":
                    out.add(a)
                elif a in ("not residue.chain != previous.chain", "previous.chain == residue.chain", "residue.chain == previous.chain"):
                    out.add("same chain")
                else:
                    out.add(a)
            return out
        a1, a2 = canon(g1["atoms"]), canon(g2["atoms"])
        wanted = {"find_gaps", "not previous.is_connected(residue)", "same chain"}
        chk.expect(a1 == a2 == wanted and g1["count"] == g2["count"] == "residue.number - previous.number - 1", "gap-rule-agree", fi.site(g1["loop"]), "both places insert `number - previous.number - 1` placeholders iff find_gaps, same chain and the previous residue is not connected to this one", "the gap-placeholder rules of __generate_bpseq and strands_sequences disagree (guards or count): the BPSEQ sequence no longer matches the strand sequences", K(fi, "gap-rule"), expected=sorted(wanted), found={"bpseq": sorted(a1) + [g1["count"]], "strands": sorted(a2) + [g2["count"]]})
        prev1 = [norm(v) for s, v in astq.assignments(fi.node, "previous") if v is not None]
        prev2 = [norm(v) for s, v in astq.assignments(ss.node, "previous") if v is not None]
        chk.expect(prev1 == ["nucleotides[j - 1]"] and prev2 == ["nucleotides[i - 1]"], "gap-rule-agree", fi.where, "`previous` is the preceding nucleotide in both", "`previous` is not the preceding nucleotide", K(fi, "previous"))
    # numbering
    init = astq.first_assign(fi.node, "i")
    loops = [l for l in fi.node.body if isinstance(l, ast.For)]
    ok = init is not None and norm(init) == "1" and len(loops) == 2 and norm(loops[0].iter) == "enumerate(nucleotides)"
    if ok:
        tail = [flat(s) for s in loops[0].body[-4:]]
        ok = tail == [flat("result[i] = [i, residue.one_letter_name, 0]"), flat("residue_map[residue] = i"), flat("index_to_residue_map[i] = residue"), flat("i += 1")]
        gl = g1["loop"] if g1 else None
        ok = ok and gl is not None and [flat(s) for s in gl.body] == [flat("result[i] = [i, '?', 0]"), flat("i += 1")]
    chk.expect(ok, "numbering", fi.where, "entries are numbered 1, 2, ... in order; every stored entry (residue or '?') is followed by i += 1 and keyed by its own number", "BPSEQ numbering changed: every entry must be stored as result[i] = [i, name, 0] followed by i += 1, starting from 1", K(fi, "numbering"))
    if len(loops) == 2:
        pl = loops[1]
        x = norm(pl.target)
        want = [flat(f"j = residue_map.get({x}.nt1_3d, None)"), flat(f"k = residue_map.get({x}.nt2_3d, None)"), flat("if j is None or k is None:\n    continue"), flat("result[j][2] = k"), flat("result[k][2] = j")]
        chk.expect(norm(pl.iter) == fi.node.args.args[1].arg and [flat(s) for s in pl.body] == want, "symmetric-pairs", fi.site(pl), "every pair of the matching is written symmetrically; pairs with an unnumbered residue are skipped", "pairs are not written as result[j][2] = k and result[k][2] = j for the numbers of their two residues", K(fi, "pairs"))
    rets = [r for r in fi.node.body if isinstance(r, ast.Return)]
    ok = len(rets) == 1 and flat(rets[0].value) == flat("(BpSeq([Entry(index_, sequence, pair) for index_, sequence, pair in result.values()]), index_to_residue_map)")
    chk.expect(ok, "numbering", fi.where, "entries are emitted in numbering order as Entry(index, name, pair)", "the BPSEQ is not built from result.values() as Entry(index_, sequence, pair)", K(fi, "result"))
    # strands_sequences shape
    t = {norm(s.targets[0]): norm(s.value) for s in ss.node.body if isinstance(s, ast.Assign)}
    ok = t.get("result") == "[(nucleotides[0].chain, [nucleotides[0].one_letter_name])]"
    loops = [l for l in ss.node.body if isinstance(l, ast.For)]
    ok = ok and len(loops) == 1 and norm(loops[0].iter) == "range(1, len(nucleotides))"
    if ok:
        i0 = [s for s in loops[0].body if isinstance(s, ast.If)]
        ok = len(i0) == 1 and norm(i0[0].test) == "residue.chain != previous.chain" and [flat(s) for s in i0[0].body] == [flat("result.append((residue.chain, [residue.one_letter_name]))")] and flat(i0[0].orelse[-1]) == flat("result[-1][1].append(residue.one_letter_name)")
    rets = [r for r in ss.node.body if isinstance(r, ast.Return) and r.value is not None and not isinstance(r.value, ast.List)]
    ok = ok and len(rets) == 1 and flat(rets[0].value) == flat("[(chain, ''.join(sequence)) for chain, sequence in result]")
    chk.expect(ok, "strand-sequences", ss.where, "a new strand starts at every chain change; every nucleotide (and placeholder) is appended to the current strand", "strands_sequences no longer appends every nucleotide to the strand of its chain (new strand exactly at a chain change)", K(ss, "shape"))


def check_slicing(chk) -> None:
    repo = chk.repo
    fi = repo.func(T3, f"{CLS}.__generate_dot_bracket_per_strand")
    chk.note_function(fi)
    body = [flat(s) for s in fi.node.body]
    want = [flat("dbn = dbn_structure"), flat("i = 0"), flat("result = []"), flat("for _, sequence in self.strands_sequences:\n    result.append(''.join(dbn[i:i + len(sequence)]))\n    i += len(sequence)"), flat("return result")]
    chk.expect(body == want, "strand-slices", fi.where, "strand t gets dbn[i : i + len(sequence_t)] with i advancing by len(sequence_t): consecutive half-open slices covering the notation", "per-strand slices are not consecutive half-open intervals of the strand lengths starting at 0", K(fi, "slices"), expected=want, found=body)
    for q, src in ((f"{CLS}.dot_bracket", "self.bpseq.dot_bracket.structure"), (f"{CLS}.all_dot_brackets", "dot_bracket.structure")):
        g = repo.func(T3, q)
        chk.note_function(g)
        d = [norm(v) for s, v in astq.assignments(g.node, "dbns") if v is not None]
        chk.expect(d == [f"self.__generate_dot_bracket_per_strand({src})"], "strand-rows", g.where, f"rows are cut from {src}", f"rows are not cut from {src}", K(g, "source"), found=d)
        loops = [l for l in ast.walk(g.node) if isinstance(l, ast.For) and norm(l.iter) == "enumerate(self.strands_sequences)"]
        ok = len(loops) == 1 and flat(loops[0].target) == "i,pair"
        if ok:
            b = [flat(s) for s in loops[0].body]
            ok = b[:4] == [flat("chain, sequence = pair"), flat("result.append(f'>strand_{chain}')"), flat("result.append(sequence)"), flat("result.append(dbns[i])")]
        chk.expect(ok, "strand-rows", g.where, "row i (header, sequence, notation) pairs strand i with slice i", "header/sequence/notation rows are not paired by the enumerate index of the strands", K(g, "rows"))
    ad = repo.func(T3, f"{CLS}.all_dot_brackets")
    outer = [l for l in ad.node.body if isinstance(l, ast.For)]
    chk.expect(len(outer) == 1 and norm(outer[0].iter) == "self.bpseq.all_dot_brackets", "strand-rows", ad.where, "one text per member of BpSeq.all_dot_brackets, in its order", "Mapping2D3D.all_dot_brackets does not iterate self.bpseq.all_dot_brackets", K(ad, "members"))


def check_extended(chk) -> None:
    repo = chk.repo
    fi = repo.func(T3, f"{CLS}.extended_dot_bracket")
    chk.note_function(fi)
    fm = FlowMap(fi.node)
    res = astq.first_assign(fi.node, "result")
    chk.expect(res is not None and flat(res) == flat("[[f'    >strand_{chain}', f'seq {sequence}'] for chain, sequence in self.strands_sequences]"), "extended-header", fi.where, "one block per strand: header and sequence", "extended notation header rows changed", K(fi, "header"))
    lw = [l for l in fi.node.body if isinstance(l, ast.For) and norm(l.iter) == "LeontisWesthof"]
    if len(lw) != 1:
        chk.error("extended-rows", fi.where, "loop over LeontisWesthof not found")
        return
    lw = lw[0]
    c = norm(lw.target)
    # rows: every append of a pair to a row is a guarded insert; a new row registers both residues
    pl = [l for l in lw.body if isinstance(l, ast.For) and norm(l.iter) == "self.base_pairs"]
    if len(pl) != 1 or not isinstance(pl[0].target, ast.Name):
        chk.error("matching-typestate", fi.site(lw), "loop over self.base_pairs not found")
        return
    x = pl[0].target.id
    sel = [g for g in ast.walk(pl[0]) if isinstance(g, ast.If) and flat(g.test) == flat(f"{x}.lw == {c} and {x}.nt1 < {x}.nt2")]
    chk.expect(len(sel) == 1, "extended-select", fi.site(pl[0]), "a class row set takes the pairs of that class with nt1 < nt2 (each distinct pair once)", "pairs are not selected by `lw == class and nt1 < nt2`", K(fi, "select"))
    n_app = 0
    for a in astq.calls(pl[0], "append"):
        if not a.args:
            continue
        arg = a.args[0]
        st = fm.stmt_of(a)
        blk = None
        for n in ast.walk(pl[0]):
            for fld in ("body", "orelse"):
                b = getattr(n, fld, None)
                if isinstance(b, list) and st in b:
                    blk = b
        sib = [flat(s2) for s2 in (blk or [])]
        if isinstance(arg, ast.Name) and arg.id == x:
            n_app += 1
            fs = facts(fm.guards_within(st, pl[0]))
            sets = set()
            for g in fs:
                m = astq.match(g.test, f"{x}.nt1 not in U_") if g.polarity else astq.match(g.test, f"{x}.nt1 in U_")
                if m:
                    sets.add(norm(m["U_"]))
            ok = False
            for u in sets:
                both = any((astq.match(g.test, f"{x}.nt2 not in {u}") is not None and g.polarity) or (astq.match(g.test, f"{x}.nt2 in {u}") is not None and not g.polarity) for g in fs)
                adds = flat(f"{u}.add({x}.nt1)") in sib and flat(f"{u}.add({x}.nt2)") in sib
                ok = ok or (both and adds)
            chk.expect(ok, "matching-typestate", fi.site(a), f"`{norm(a)}` is a guarded insert: both residues tested against, and added to, one set", f"`{norm(a)}` puts a pair into a row without testing both of its residues against the row's used-set (and recording them): the row is not a matching, __generate_bpseq overwrites partners and pairs vanish", K(fi, f"append:{norm(a.func.value)}"))
        elif isinstance(arg, ast.List) and len(arg.elts) == 1 and norm(arg.elts[0]) == x:
            n_app += 1
            ok = any(t2.startswith(flat("used_per_row.append(")) and flat(f"{x}.nt1") in t2 and flat(f"{x}.nt2") in t2 for t2 in sib) or any(".append{" in t2 and flat(f"{x}.nt1") in t2 and flat(f"{x}.nt2") in t2 for t2 in sib)
            chk.expect(ok, "matching-typestate", fi.site(a), "a new row starts with its pair and a used-set holding both residues", f"a new row `{norm(a)}` is opened without registering both residues of its first pair", K(fi, "new-row"))
    if n_app == 0:
        chk.error("matching-typestate", fi.site(pl[0]), "no append of a pair to a row found (row construction idiom not recognised)")
    rl = [l for l in lw.body if isinstance(l, ast.For) and any(isinstance(c2, ast.Call) and astq.callee_name(c2).endswith("__generate_bpseq") for c2 in ast.walk(l))]
    ok = False
    if len(rl) == 1 and isinstance(rl[0].target, ast.Name):
        body = rl[0].body
        if len(body) == 1 and isinstance(body[0], ast.If) and norm(body[0].test) == norm(rl[0].target):
            body = body[0].body
        t = [flat(s2) for s2 in body]
        r = norm(rl[0].target)
        ok = t == [flat(f"bpseq, _ = self.__generate_bpseq({r})"), flat("dbns = self.__generate_dot_bracket_per_strand(bpseq.dot_bracket.structure)"), flat(f"for i in range(len(self.strands_sequences)):\n    result[i].append(f'{{{c}.value}} {{dbns[i]}}')")]
    chk.expect(ok, "extended-rows", fi.site(lw), "every row becomes one notation line per strand, labelled with its class, cut by the shared slicer", "a row is not rendered as `<class> <slice i>` for every strand i from its own BPSEQ", K(fi, "render"))
    rets = [r for r in fi.node.body if isinstance(r, ast.Return)]
    chk.expect(len(rets) == 1 and flat(rets[0].value) == flat("'\\n'.join(['\\n'.join(r) for r in result])"), "extended-rows", fi.where, "blocks are joined in strand order", "the extended notation is not the join of the per-strand blocks", K(fi, "join"))


def run(chk) -> None:
    chk.explanation = (
        "Static rules on tertiary.Mapping2D3D: a matching typestate (a list is a matching iff every append is dominated by not-in tests of both residues against a set that receives both, or it leaves "
        "the conflict-resolution loop whose only exit certifies at most one pair per residue) is required of every argument of __generate_bpseq; removal only under conflict; lifting with guarded insert of "
        "each pair and its reverse; numbering (start 1, +1 after every stored entry, key = own number, symmetric pair fields); sibling agreement of the two gap-placeholder rules and the two nucleotide lists; "
        "consecutive half-open per-strand slices; row i paired with strand i; extended rows rendered per class."
    )
    chk.trusted = ["CPython ast", "BpSeq.dot_bracket is lossless (C01/C02/C13)"]
    chk.assumptions = ["which pair survives a conflict is not decided beyond the scoring key", "text equality end to end is not decided"]
    check_lifting(chk)
    check_bpseq_matching(chk)
    check_numbering(chk)
    check_slicing(chk)
    check_extended(chk)
    for rule, n in (("matching-typestate", 5), ("lifting-guarded-insert", 4), ("gap-rule-agree", 2), ("numbering", 2), ("strand-slices", 1), ("symmetric-pairs", 1)):
        chk.floor(rule, n)


MANIFEST_ENTRY = {
    "text": "Static decision on the current source of Mapping2D3D: every list handed to __generate_bpseq is a matching by construction (typestate rule), pairs are removed only under conflict, each input pair is lifted once with "
    "its reverse, numbering is 1..N with symmetric partner fields, the gap-placeholder rule and the nucleotide list are identical in the two places that must agree, strand slices are consecutive and paired with their "
    "strands, extended rows are matchings rendered per class. Multiplets and multi-strand slicing are combinatorial; these facts hold for every pair list because they are properties of the construction.",
    "note": "Trusted: losslessness of BpSeq.dot_bracket (C01). Not decided: that the survivor of a conflict is the 'right' one; end-to-end text equality.",
    "technique": "static analysis: typestate of pair lists (guarded-insert / certified loop exit), sibling agreement of duplicated rules, affine slice shape rules over the ast",
}
