"""C06 - 3D-to-2D mapping gives a valid matching and faithful text for any pair list.

Decided on tertiary.Mapping2D3D: the matching typestate of every list handed to __generate_bpseq (which overwrites
partners silently otherwise), removal only under conflict, pair lifting with guarded reverse duplication, BPSEQ
numbering, sibling agreement of the two gap-placeholder rules and of the two nucleotide lists, consecutive per-strand
slices, row/strand pairing, extended rows.
"""
from __future__ import annotations

import ast
from typing import Any, Dict, List, Optional, Tuple

from checks.c03 import K
from checks.c08 import flat
from sa import astq
from sa.flow import FlowMap, always_exits, facts
from sa.model import AnalysisError, FuncInfo, norm

T3 = "tertiary"
CLS = "Mapping2D3D"


def conflict_loop_is_matching(fi: FuncInfo, lst: str) -> Tuple[bool, str]:
    """`lst` leaves a `while True` whose only exit is the else of a for that breaks whenever some residue still has
    more than one pair after removing one - so on exit every residue has at most one pair."""
    whiles = [w for w in fi.node.body if isinstance(w, ast.While) and norm(w.test) == "True"]
    if len(whiles) != 1:
        return False, "no `while True` resolution loop"
    w = whiles[0]
    body = w.body
    if len(body) < 3:
        return False, f"resolution loop has {len(body)} statements, expected at least 3 (index, collect, resolve)"
    if flat(body[0]) not in (flat("matches = defaultdict(set)"), flat("matches = defaultdict(list)")):
        return False, "the per-residue index is not rebuilt (matches = defaultdict(set) / defaultdict(list)) in every round"
    col = body[1]
    as_set = flat(body[0]) == flat("matches = defaultdict(set)")
    ok_index = False
    if isinstance(col, ast.For) and norm(col.iter) == lst and isinstance(col.target, ast.Name):
        x = col.target.id
        if as_set:
            # sets: both residues index the pair
            ok_index = [flat(s) for s in col.body] == [flat(f"matches[{x}.nt1_3d].add({x})"), flat(f"matches[{x}.nt2_3d].add({x})")]
        elif len(col.body) == 1 and isinstance(col.body[0], ast.For) and isinstance(col.body[0].target, ast.Name):
            # lists in input order (since /repo d067541): for residue in (x.nt1_3d, x.nt2_3d): if x not in matches[residue]: matches[residue].append(x)
            inner = col.body[0]
            r = inner.target.id
            ok_index = flat(inner.iter) == flat(f"({x}.nt1_3d, {x}.nt2_3d)") and [flat(s) for s in inner.body] == [flat(f"if {x} not in matches[{r}]:\n    matches[{r}].append({x})")]
    if not ok_index:
        return False, "pairs are not indexed (once) under both of their residues"
    rest = body[2:]
    res = rest[0]
    if isinstance(res, ast.For) and len(rest) == 1:
        if not (norm(res.iter) == "matches.values()" and [norm(s) for s in res.orelse] == ["break"]):
            return False, "the loop is not left through the else of `for pairs in matches.values()`"
        v = norm(res.target)
        if not (len(res.body) == 1 and isinstance(res.body[0], ast.If) and norm(res.body[0].test) in (f"len({v}) > 1", f"len({v}) >= 2")):
            return False, "conflict test is not len(pairs) > 1"
        inner = [norm(s) for s in res.body[0].body]
        if not (len(inner) == 3 and inner[0] == f"{v} = sorted({v}, key=pair_scoring_function)" and inner[1] == f"{lst}.remove({v}[-1])" and inner[2] == "break"):
            return False, f"a conflict is not resolved by removing the worst-scored pair and re-examining: {inner}"
        return True, "while True / for ... if len(pairs) > 1: remove worst; break / else: break"
    # second idiom: conflicted = next((p for p in matches.values() if len(p) > 1), None); if conflicted is None: break; remove worst
    if isinstance(res, ast.Assign) and isinstance(res.targets[0], ast.Name) and isinstance(res.value, ast.Call) and astq.callee_name(res.value) == "next" and len(res.value.args) == 2 and norm(res.value.args[1]) == "None":
        c = res.targets[0].id
        gen = res.value.args[0]
        if not (isinstance(gen, (ast.GeneratorExp, ast.ListComp)) and len(gen.generators) == 1 and norm(gen.generators[0].iter) == "matches.values()" and isinstance(gen.generators[0].target, ast.Name)):
            return False, "the conflicted set is not searched over matches.values()"
        p = gen.generators[0].target.id
        if not (norm(gen.elt) == p and [norm(x) for x in gen.generators[0].ifs] in ([f"len({p}) > 1"], [f"len({p}) >= 2"])):
            return False, "conflict test is not len(pairs) > 1"
        if not (len(rest) >= 2 and isinstance(rest[1], ast.If) and norm(rest[1].test) == f"{c} is None" and [norm(x) for x in rest[1].body] == ["break"] and not rest[1].orelse):
            return False, "the loop is not left exactly when no residue has more than one pair"
        tail = rest[2:]
        if any(isinstance(n, (ast.Break, ast.Continue, ast.Return)) for t in tail for n in ast.walk(t)):
            return False, "another exit after the conflict was found"
        rem = [n for t in tail for n in ast.walk(t) if isinstance(n, ast.Call) and isinstance(n.func, ast.Attribute) and n.func.attr == "remove" and norm(n.func.value) == lst]
        if len(rem) != 1:
            return False, f"{len(rem)} removals after a conflict was found, expected one"
        from sa.defuse import Inliner

        arg = Inliner(fi.node).inline(rem[0].args[0], [t for t in tail if any(n is rem[0] for n in ast.walk(t))][0], stop=(c,))
        if norm(arg) not in (f"sorted({c}, key=pair_scoring_function)[-1]", f"max({c}, key=pair_scoring_function)"):
            return False, f"the removed pair `{norm(arg)}` is not the worst-scored member of the conflicted set"
        return True, "while True / conflicted = next(sets with more than one pair, None); none -> break; remove worst"
    return False, f"resolution step not recognised: {[norm(x)[:40] for x in rest]}"


def check_bpseq_matching(chk) -> None:
    repo = chk.repo
    for q in (f"{CLS}._generated_bpseq_data", f"{CLS}.bpseq"):
        fi = repo.func(T3, q)
        chk.note_function(fi)
        can = astq.first_assign(fi.node, "canonical")
        ok = can is not None and flat(can) == flat("[base_pair for base_pair in self.base_pairs if base_pair.is_canonical and base_pair.nt1 < base_pair.nt2]")
        chk.expect(ok, "canonical-candidates-form", fi.where, "candidates = canonical pairs with nt1 < nt2 (each pair once)", "the candidate list is not [bp for bp in self.base_pairs if bp.is_canonical and bp.nt1 < bp.nt2]", K(fi, "candidates"), found=norm(can) if can is not None else None)
        m, why = conflict_loop_is_matching(fi, "canonical")
        chk.expect(m, "matching-typestate", fi.where, f"`canonical` is a matching when the loop is left ({why})", f"`canonical` is not shown to be a matching after conflict resolution: {why}", K(fi, "resolution"))
        # the only removal is inside the conflict guard
        rem = astq.calls(fi.node, "remove")
        chk.expect(len(rem) == 1, "removal-under-conflict", fi.where, "pairs are removed only inside the conflict branch", f"{len(rem)} removal sites: a pair can be dropped without a conflict", K(fi, "removals"))
    g = repo.func(T3, f"{CLS}._generated_bpseq_data")
    rets = [r for r in g.node.body if isinstance(r, ast.Return)]
    chk.expect(len(rets) == 1 and norm(rets[0].value) == "self.__generate_bpseq(canonical)", "matching-typestate", g.where, "__generate_bpseq receives the resolved matching", "__generate_bpseq is not called with the resolved `canonical` list", K(g, "call"))
    b = repo.func(T3, f"{CLS}.bpseq")
    rets = [r for r in b.node.body if isinstance(r, ast.Return)]
    chk.expect(len(rets) == 1 and norm(rets[0].value) == "self._generated_bpseq_data[0]", "bpseq-source", b.where, "bpseq is the first component of the generated data", "bpseq does not return self._generated_bpseq_data[0]", K(b, "result"))
    im = repo.func(T3, f"{CLS}.bpseq_index_to_residue_map")
    rets = [r for r in im.node.body if isinstance(r, ast.Return)]
    chk.expect(len(rets) == 1 and norm(rets[0].value) == "self._generated_bpseq_data[1]", "bpseq-source", im.where, "index map is the second component of the same data", "index map does not return self._generated_bpseq_data[1]", K(im, "result"))
    # scoring key total on the residues (shared with C14's exception)
    for q in (f"{CLS}._generated_bpseq_data", f"{CLS}.bpseq"):
        fi = repo.func(T3, q)
        sc = [n for n in ast.walk(fi.node) if isinstance(n, ast.FunctionDef) and n.name == "pair_scoring_function"]
        ok = False
        if len(sc) == 1:
            rets = [r.value for r in ast.walk(sc[0]) if isinstance(r, ast.Return)]
            ok = all(isinstance(r, ast.Tuple) and len(r.elts) == 3 and norm(r.elts[1]) == "pair.nt1" and norm(r.elts[2]) == "pair.nt2" and isinstance(r.elts[0], ast.Constant) for r in rets) and len(rets) == 4
            ranks = [r.elts[0].value for r in rets if isinstance(r, ast.Tuple)]
            ok = ok and sorted(ranks) == [0, 0, 1, 1]
        chk.expect(ok, "conflict-score", fi.where, "score = (0 for Watson-Crick G-C/A-U(T), 1 otherwise, nt1, nt2): the worst-scored pair of a conflict is removed", "the conflict score is not (rank, nt1, nt2) with rank 0 for XIX/XX resp. AU/AT/CG and 1 otherwise", K(fi, "score"))


def check_lifting(chk, decided: bool = False) -> None:
    """decided = the lifting mechanism was decided at fact level (checks/c06e.py): the for-all-inputs path rule still runs,
    but a shape it cannot read is a note, not an error, and the pinned forms are not consulted."""
    repo = chk.repo
    if decided:
        real_error = chk.error
        chk.error = lambda rule, site, detail: chk.ok(rule, site, f"path form not read ({detail[:100]}); the behaviour is decided by rule `lifting-fact` on the current code")  # type: ignore
        try:
            _check_lifting(chk, decided)
        finally:
            chk.error = real_error  # type: ignore
    else:
        _check_lifting(chk, decided)


def _check_lifting(chk, decided: bool) -> None:
    repo = chk.repo
    for q, ctor, src in ((f"{CLS}.base_pairs", "BasePair3D", "self.base_pairs2d"), (f"{CLS}.stackings", "Stacking3D", "self.stackings2d")):
        fi = repo.func(T3, q)
        chk.note_function(fi)
        loops = [l for l in fi.node.body if isinstance(l, ast.For)]
        if len(loops) != 1 or norm(loops[0].iter) != src:
            chk.error("lifting", fi.where, f"loop over {src} not found")
            continue
        loop = loops[0]
        x = norm(loop.target)
        d = {norm(s.targets[0]): flat(s.value) for s in loop.body if isinstance(s, ast.Assign)}
        ok = decided or (d.get("nt1") == flat(f"self.structure3d.find_residue({x}.nt1.label, {x}.nt1.auth)") and d.get("nt2") == flat(f"self.structure3d.find_residue({x}.nt2.label, {x}.nt2.auth)"))
        chk.expect(ok, "lifting-resolve", fi.site(loop), "both ends are resolved in the structure by (label, auth)", "residues of an entry are not resolved by find_residue(label, auth) of their own end", K(fi, "resolve"))
        _lifting_paths(chk, fi, loop, x, ctor, decided)
    check_lw_reverse(chk)
    if decided:
        return
    rv = repo.func(T3, "BasePair3D.reverse")
    chk.note_function(rv)
    rets = [r for r in rv.node.body if isinstance(r, ast.Return)]
    chk.expect(len(rets) == 1 and flat(rets[0].value) == flat("BasePair3D(self.nt2, self.nt1, self.lw.reverse, self.saenger, self.nt2_3d, self.nt1_3d)"), "lifting-reverse", rv.where, "reverse swaps both residues (2D and 3D) and reverses the class", "BasePair3D.reverse does not swap nt1/nt2, nt1_3d/nt2_3d and reverse lw", K(rv, "reverse"))


def _lifting_paths(chk, fi: FuncInfo, loop: ast.For, x: str, ctor: str, by_fact: bool = False) -> None:
    """Every path through the body of the lifting loop: a value is appended to the result only after a `not in` test against
    the seen-set and is recorded there on the same path; the entry and its reverse both get their turn."""
    from sa import paths as P
    from sa.defuse import Inliner

    rets = [r for r in fi.node.body if isinstance(r, ast.Return) and r.value is not None]
    if len(rets) != 1 or not isinstance(rets[0].value, ast.Name):
        chk.error("lifting", fi.where, "the lifted list is not returned by name")
        return
    R = rets[0].value.id
    sets = [norm(t) for st, v in ((st, v) for n in [fi.node] for st, v in []) for t in []]
    seen_names = [st.targets[0].id for st in fi.node.body if isinstance(st, (ast.Assign,)) and isinstance(st.targets[0], ast.Name) and norm(st.value) in ("set()",)] + [st.target.id for st in fi.node.body if isinstance(st, ast.AnnAssign) and isinstance(st.target, ast.Name) and st.value is not None and norm(st.value) == "set()"]
    if len(seen_names) != 1:
        chk.error("lifting-guarded-insert", fi.where, f"expected one seen-set initialised to set() before the loop, found {seen_names}")
        return
    U = seen_names[0]
    if any(any(st is n for n in ast.walk(loop)) for st, _ in astq.assignments(fi.node, U)) or len(astq.assignments(fi.node, U)) != 1:
        chk.violation("lifting-guarded-insert", fi.site(loop), f"`{U}` is re-initialised inside the loop: duplicates across entries are no longer recognised", K(fi, "used-init"))
        return
    chk.ok("lifting-guarded-insert", fi.where, f"`{U}` starts empty, once")
    body = P.unroll_literal_loops(loop.body)
    all_paths = P.paths(body)
    # the lifted value: the constructor call assigned in the body
    ctor_defs = [s for s in ast.walk(loop) if isinstance(s, ast.Assign) and isinstance(s.targets[0], ast.Name) and isinstance(s.value, ast.Call) and astq.callee_name(s.value) == ctor]
    if len(ctor_defs) != 1:
        chk.error("lifting", fi.site(loop), f"expected one `{ctor}(...)` per entry")
        return
    v = ctor_defs[0].targets[0].id
    wanted_vals = {v, f"{v}.reverse"}
    problems = []
    appended_somewhere = set()
    n_paths = 0
    dangling_ok = True
    for events, exit_ in all_paths:
        decided = {}
        none_facts = {}
        for k, ev in enumerate(events):
            if ev[0] == "test":
                t = ev[1]
                for neg, op in ((False, f" in {U}"), (True, f" not in {U}")):
                    if t.endswith(op):
                        decided[t[: -len(op)]] = (ev[2] != neg, k)
                for nm in ("nt1", "nt2"):
                    if t in (f"{nm} is not None", f"{nm} is None"):
                        none_facts[nm] = (ev[2] == (t.endswith("is not None")))
        apps = [(norm(a.args[0]), a) for a in P.calls_on(events, R, "append") if a.args]
        adds = [norm(a.args[0]) for a in P.calls_on(events, U, "add") if a.args]
        if apps:
            n_paths += 1
            if none_facts.get("nt1") is not True or none_facts.get("nt2") is not True:
                dangling_ok = False
        for val, a in apps:
            appended_somewhere.add(val)
            if val not in decided or decided[val][0] is not False:
                problems.append((a, f"`{R}.append({val})` on a path where `{val} not in {U}` was not established: the value can be lifted twice", f"unguarded:{val}"))
            if val not in adds:
                problems.append((a, f"`{val}` is appended to `{R}` but not added to `{U}` on the same path: when the same pair occurs again (e.g. listed from its other end) it is lifted a second time", f"unrecorded:{val}"))
        for val in adds:
            if val not in [x2 for x2, _ in apps]:
                problems.append((loop, f"`{U}.add({val})` on a path that does not append `{val}`: the value is blocked without ever being lifted", f"phantom:{val}"))
    miss = wanted_vals - appended_somewhere
    if n_paths == 0:
        chk.error("lifting-guarded-insert", fi.site(loop), "no path appends to the result")
        return
    for m2 in sorted(miss):
        problems.append((loop, f"`{m2}` is never appended: {'the reverse orientation of an entry is lost' if m2.endswith('.reverse') else 'the entry itself is lost'}", f"missing:{m2}"))
    extra_vals = appended_somewhere - wanted_vals
    for e2 in sorted(extra_vals):
        problems.append((loop, f"unexpected value `{e2}` appended to the lifted list", f"extra:{e2}"))
    seen = set()
    for node, msg, key in problems:
        if key in seen:
            continue
        seen.add(key)
        chk.violation("lifting-guarded-insert", fi.site(node), msg, K(fi, f"guarded-insert:{key}"))
    if not problems:
        chk.ok("lifting-guarded-insert", fi.site(loop), f"{len(all_paths)} paths: each entry contributes itself and its reverse, each only after `not in {U}` and recorded in `{U}` on the same path")
    chk.expect(dangling_ok, "lifting-dangling", fi.site(loop), "entries naming an absent residue are skipped (appends only when both residues were found)", "a value is lifted on a path where one of the two residues was not established to be present", K(fi, "dangling"))
    if ctor == "BasePair3D" and not by_fact:
        chk.expect(flat(ctor_defs[0].value) == flat(f"BasePair3D({x}.nt1, {x}.nt2, {x}.lw, {x}.saenger, nt1, nt2)"), "lifting-record", fi.site(ctor_defs[0]), "BasePair3D(nt1, nt2, lw, saenger, residue1, residue2)", "the lifted pair does not carry (nt1, nt2, lw, saenger, nt1_3d, nt2_3d) of its entry", K(fi, "record"))


def check_lw_reverse(chk) -> None:
    """LeontisWesthof.reverse evaluated on all 18 members: the class read from the other nucleotide swaps the two edges."""
    import copy

    from sa.consteval import Folder

    repo = chk.repo
    fi = repo.func("common", "LeontisWesthof.reverse")
    chk.note_function(fi)
    rets = [r for r in astq.walk_no_nested(fi.node) if isinstance(r, ast.Return) and r.value is not None]
    if len(rets) != 1:
        chk.error("lw-reverse", fi.where, "LeontisWesthof.reverse is not a single return expression")
        return

    class _E:
        def __init__(s2, m):
            s2.name = m
            s2.value = m

        def __str__(s2):
            return s2.name

        def __eq__(s2, o):
            return str(o) == s2.name

        def __hash__(s2):
            return hash(s2.name)

    class _Sub(ast.NodeTransformer):
        def visit_Subscript(s2, n):
            if isinstance(n.value, ast.Name) and n.value.id == "LeontisWesthof":
                return s2.visit(n.slice)
            return s2.generic_visit(n)

        def visit_Call(s2, n):
            if isinstance(n.func, ast.Name) and n.func.id == "LeontisWesthof" and len(n.args) == 1:
                return s2.visit(n.args[0])
            return s2.generic_visit(n)

    e = ast.fix_missing_locations(_Sub().visit(copy.deepcopy(rets[0].value)))
    members = repo.enum_members("common", "LeontisWesthof")
    wrong = {}
    try:
        for m in members:
            got = Folder(repo, "common", {"self": _E(m)}).fold(e)
            want = m[0] + m[2] + m[1]
            if str(got) != want:
                wrong[m] = str(got)
    except Exception as ex:
        chk.error("lw-reverse", fi.site(rets[0]), f"`{norm(rets[0].value)[:80]}` not evaluable on the members: {ex}")
        return
    chk.expect(not wrong, "lw-reverse", fi.site(rets[0]), f"reverse swaps the two edge letters on all {len(members)} classes", f"LeontisWesthof.reverse does not swap the edges for {sorted(wrong)} (gives {wrong}): the pair read from the other nucleotide keeps the wrong class and extended/lifted pairs disagree", K(fi, "lw-reverse"), expected={m: m[0] + m[2] + m[1] for m in wrong}, found=wrong)


def gap_rule(fi: FuncInfo) -> Optional[Dict[str, Any]]:
    """Guard atoms and count expression of the gap-placeholder loop in fi."""
    fm = FlowMap(fi.node)
    for l in ast.walk(fi.node):
        if isinstance(l, ast.For) and isinstance(l.iter, ast.Call) and norm(l.iter.func) == "range" and "number" in norm(l.iter):
            # guards between the enclosing residue loop and this loop
            outer = [x for x in fm.of(l).loops]
            gs = facts(fm.guards_within(l, outer[-1]) if outer else fm.of(l).guards)
            atoms = set()
            for g in gs:
                t = norm(g.test)
                atoms.add(("not " if not g.polarity else "") + t)
            return {"count": norm(l.iter.args[0]) if len(l.iter.args) == 1 else norm(l.iter), "atoms": atoms, "loop": l}
    return None


def check_numbering(chk) -> None:
    repo = chk.repo
    fi = repo.func(T3, f"{CLS}.__generate_bpseq")
    ss = repo.func(T3, f"{CLS}.strands_sequences")
    chk.note_function(fi)
    chk.note_function(ss)
    # nucleotide lists agree
    n1, n2 = astq.first_assign(fi.node, "nucleotides"), astq.first_assign(ss.node, "nucleotides")
    want = flat("list(filter(lambda r: r.is_nucleotide, self.structure3d.residues))")
    ok1 = n1 is not None and flat(n1) == want
    # the finding is reported at the function whose list is not the pinned one: the form reading abstains where that function was rewritten
    chk.expect(ok1 and n2 is not None and flat(n2) == want, "nucleotides-agree", fi.where if not ok1 else ss.where, "BPSEQ and strand sequences enumerate the same nucleotides: residues with is_nucleotide, in file order", "the nucleotide lists of __generate_bpseq and strands_sequences differ (or are not the is_nucleotide residues in file order): sequence and matching drift apart", K(fi, "nucleotides"))
    # gap rules agree
    g1, g2 = gap_rule(fi), gap_rule(ss)
    if g1 is None or g2 is None:
        chk.error("gap-rule-agree", fi.where, "gap placeholder loop not found in one of the two functions")
    else:
        def canon(atoms):
            """-> (recognised atoms, connectivity findings, unknown atoms)"""
            out, wrong, unknown = set(), [], []
            for a in atoms:
                if a == "self.find_gaps":
                    out.add("find_gaps")
                elif a in ("j > 0", "i > 0", "previous is not None", "not previous is None", "previous"):
                    continue  # `previous` exists
                elif a == "not previous.is_connected(residue)":
                    out.add(a)
                elif a in ("not residue.is_connected(previous)", "previous.is_connected(residue)", "residue.is_connected(previous)"):
                    wrong.append(a)
                elif a in ("not residue.chain != previous.chain", "previous.chain == residue.chain", "residue.chain == previous.chain", "not previous.chain != residue.chain"):
                    out.add("same chain")
                elif a in ("residue.chain != previous.chain", "previous.chain != residue.chain", "not previous.chain == residue.chain", "not residue.chain == previous.chain"):
                    wrong.append(a)
                else:
                    unknown.append(a)
            return out, wrong, unknown

        wanted = {"find_gaps", "not previous.is_connected(residue)", "same chain"}
        for tag, g, f2 in (("BPSEQ", g1, fi), ("strand sequences", g2, ss)):
            a, wrong, unknown = canon(g["atoms"])
            if unknown:
                chk.error("gap-rule-agree", f2.site(g["loop"]), f"{tag}: conditions {unknown} of the gap placeholders not understood")
                continue
            if wrong:
                chk.violation("gap-rule-agree", f2.site(g["loop"]), f"{tag}: gap placeholders are inserted under `{wrong[0]}`: O3'-P connectivity is directional, the test must be `not previous.is_connected(residue)` within one chain, as in the sibling rule", K(f2, "gap-rule"), expected=sorted(wanted), found=sorted(g["atoms"]))
                continue
            chk.expect(a == wanted, "gap-rule-agree", f2.site(g["loop"]), f"{tag}: placeholders iff find_gaps, same chain and the previous residue is not connected to this one", f"{tag}: the gap placeholders are not guarded by all of find_gaps / same chain / not previous.is_connected(residue) (missing: {sorted(wanted - a)}): the BPSEQ sequence no longer matches the strand sequences", K(f2, "gap-rule"), expected=sorted(wanted), found=sorted(a))
            chk.expect(g["count"] == "residue.number - previous.number - 1", "gap-rule-agree", f2.site(g["loop"]), f"{tag}: `number - previous.number - 1` placeholders", f"{tag}: the number of placeholders is `{g['count']}`, not residue.number - previous.number - 1", K(f2, "gap-count"), found=g["count"])
        # `previous` is the preceding nucleotide
        for f2, idx in ((fi, "j"), (ss, "i")):
            defs = [(st, v) for st, v in astq.assignments(f2.node, "previous") if v is not None]
            texts = sorted(norm(v) for _, v in defs)
            lp = [l for l in f2.node.body if isinstance(l, ast.For)]
            ok = texts == [f"nucleotides[{idx} - 1]"] or texts == [f"nucleotides[{idx} - 1] if {idx} > 0 else None"]
            if not ok and sorted(texts) == ["None", "residue"] and lp:
                # carried variable: initialised to None before the loop, set to the current residue as the last statement of every round
                l0 = lp[0]
                last = l0.body[-1]
                ok = norm(last) == "previous = residue" and not any(isinstance(n, ast.Continue) for n in ast.walk(l0)) and norm(l0.iter) in ("nucleotides", "enumerate(nucleotides)")
            chk.expect(ok, "gap-rule-agree", f2.where, "`previous` is the preceding nucleotide", f"`previous` ({texts}) is not the preceding nucleotide", K(f2, "previous"))
    # numbering
    init = astq.first_assign(fi.node, "i")
    loops = [l for l in fi.node.body if isinstance(l, ast.For)]
    ok = init is not None and norm(init) == "1" and len(loops) == 2 and norm(loops[0].iter) in ("enumerate(nucleotides)", "nucleotides")
    if ok:
        tail = [flat(s) for s in loops[0].body if flat(s) != flat("previous = residue")][-4:]
        ok = tail == [flat("result[i] = [i, residue.one_letter_name, 0]"), flat("residue_map[residue] = i"), flat("index_to_residue_map[i] = residue"), flat("i += 1")]
        gl = g1["loop"] if g1 else None
        ok = ok and gl is not None and [flat(s) for s in gl.body] == [flat("result[i] = [i, '?', 0]"), flat("i += 1")]
    chk.expect(ok, "numbering", fi.where, "entries are numbered 1, 2, ... in order; every stored entry (residue or '?') is followed by i += 1 and keyed by its own number", "BPSEQ numbering changed: every entry must be stored as result[i] = [i, name, 0] followed by i += 1, starting from 1", K(fi, "numbering"))
    if len(loops) == 2:
        pl = loops[1]
        x = norm(pl.target)
        want = [flat(f"j = residue_map.get({x}.nt1_3d, None)"), flat(f"k = residue_map.get({x}.nt2_3d, None)"), flat("if j is None or k is None:\n    continue"), flat("result[j][2] = k"), flat("result[k][2] = j")]
        chk.expect(norm(pl.iter) == fi.node.args.args[1].arg and [flat(s) for s in pl.body] == want, "symmetric-pairs", fi.site(pl), "every pair of the matching is written symmetrically; pairs with an unnumbered residue are skipped", "pairs are not written as result[j][2] = k and result[k][2] = j for the numbers of their two residues", K(fi, "pairs"))
    rets = [r for r in fi.node.body if isinstance(r, ast.Return)]
    ok = len(rets) == 1 and flat(rets[0].value) == flat("(BpSeq([Entry(index_, sequence, pair) for index_, sequence, pair in result.values()]), index_to_residue_map)")
    chk.expect(ok, "numbering", fi.where, "entries are emitted in numbering order as Entry(index, name, pair)", "the BPSEQ is not built from result.values() as Entry(index_, sequence, pair)", K(fi, "result"))
    # strands_sequences shape
    t = {norm(s.targets[0]): norm(s.value) for s in ss.node.body if isinstance(s, ast.Assign)}
    ok = t.get("result") == "[(nucleotides[0].chain, [nucleotides[0].one_letter_name])]"
    loops = [l for l in ss.node.body if isinstance(l, ast.For)]
    ok = ok and len(loops) == 1 and norm(loops[0].iter) == "range(1, len(nucleotides))"
    if ok:
        i0 = [s for s in loops[0].body if isinstance(s, ast.If)]
        ok = len(i0) == 1 and norm(i0[0].test) == "residue.chain != previous.chain" and [flat(s) for s in i0[0].body] == [flat("result.append((residue.chain, [residue.one_letter_name]))")] and flat(i0[0].orelse[-1]) == flat("result[-1][1].append(residue.one_letter_name)")
    rets = [r for r in ss.node.body if isinstance(r, ast.Return) and r.value is not None and not isinstance(r.value, ast.List)]
    ok = ok and len(rets) == 1 and flat(rets[0].value) == flat("[(chain, ''.join(sequence)) for chain, sequence in result]")
    chk.expect(ok, "strand-sequences", ss.where, "a new strand starts at every chain change; every nucleotide (and placeholder) is appended to the current strand", "strands_sequences no longer appends every nucleotide to the strand of its chain (new strand exactly at a chain change)", K(ss, "shape"))


def check_slicing(chk) -> None:
    repo = chk.repo
    fi = repo.func(T3, f"{CLS}.__generate_dot_bracket_per_strand")
    chk.note_function(fi)
    body = [flat(s) for s in fi.node.body]
    want = [flat("dbn = dbn_structure"), flat("i = 0"), flat("result = []"), flat("for _, sequence in self.strands_sequences:\n    result.append(''.join(dbn[i:i + len(sequence)]))\n    i += len(sequence)"), flat("return result")]
    chk.expect(body == want, "strand-slices", fi.where, "strand t gets dbn[i : i + len(sequence_t)] with i advancing by len(sequence_t): consecutive half-open slices covering the notation", "per-strand slices are not consecutive half-open intervals of the strand lengths starting at 0", K(fi, "slices"), expected=want, found=body)
    for q, src in ((f"{CLS}.dot_bracket", "self.bpseq.dot_bracket.structure"), (f"{CLS}.all_dot_brackets", "dot_bracket.structure")):
        g = repo.func(T3, q)
        chk.note_function(g)
        d = [norm(v) for s, v in astq.assignments(g.node, "dbns") if v is not None]
        chk.expect(d == [f"self.__generate_dot_bracket_per_strand({src})"], "strand-rows", g.where, f"rows are cut from {src}", f"rows are not cut from {src}", K(g, "source"), found=d)
        loops = [l for l in ast.walk(g.node) if isinstance(l, ast.For) and norm(l.iter) == "enumerate(self.strands_sequences)"]
        ok = len(loops) == 1 and flat(loops[0].target) == "i,pair"
        if ok:
            b = [flat(s) for s in loops[0].body]
            ok = b[:4] == [flat("chain, sequence = pair"), flat("result.append(f'>strand_{chain}')"), flat("result.append(sequence)"), flat("result.append(dbns[i])")]
        chk.expect(ok, "strand-rows", g.where, "row i (header, sequence, notation) pairs strand i with slice i", "header/sequence/notation rows are not paired by the enumerate index of the strands", K(g, "rows"))
    ad = repo.func(T3, f"{CLS}.all_dot_brackets")
    outer = [l for l in ad.node.body if isinstance(l, ast.For)]
    chk.expect(len(outer) == 1 and norm(outer[0].iter) == "self.bpseq.all_dot_brackets", "strand-rows", ad.where, "one text per member of BpSeq.all_dot_brackets, in its order", "Mapping2D3D.all_dot_brackets does not iterate self.bpseq.all_dot_brackets", K(ad, "members"))


def check_extended(chk) -> None:
    repo = chk.repo
    fi = repo.func(T3, f"{CLS}.extended_dot_bracket")
    chk.note_function(fi)
    fm = FlowMap(fi.node)
    res = astq.first_assign(fi.node, "result")
    chk.expect(res is not None and flat(res) == flat("[[f'    >strand_{chain}', f'seq {sequence}'] for chain, sequence in self.strands_sequences]"), "extended-header", fi.where, "one block per strand: header and sequence", "extended notation header rows changed", K(fi, "header"))
    lw = [l for l in fi.node.body if isinstance(l, ast.For) and norm(l.iter) == "LeontisWesthof"]
    if len(lw) != 1:
        chk.error("extended-rows", fi.where, "loop over LeontisWesthof not found")
        return
    lw = lw[0]
    c = norm(lw.target)
    # rows: every append of a pair to a row is a guarded insert; a new row registers both residues
    pl = [l for l in lw.body if isinstance(l, ast.For) and norm(l.iter) == "self.base_pairs"]
    if len(pl) != 1 or not isinstance(pl[0].target, ast.Name):
        chk.error("row-typestate", fi.site(lw), "loop over self.base_pairs not found")
        return
    x = pl[0].target.id
    sel = [g for g in ast.walk(pl[0]) if isinstance(g, ast.If) and flat(g.test) == flat(f"{x}.lw == {c} and {x}.nt1 < {x}.nt2")]
    chk.expect(len(sel) == 1, "extended-select", fi.site(pl[0]), "a class row set takes the pairs of that class with nt1 < nt2 (each distinct pair once)", "pairs are not selected by `lw == class and nt1 < nt2`", K(fi, "select"))
    n_app = 0
    for a in astq.calls(pl[0], "append"):
        if not a.args:
            continue
        arg = a.args[0]
        st = fm.stmt_of(a)
        blk = None
        for n in ast.walk(pl[0]):
            for fld in ("body", "orelse"):
                b = getattr(n, fld, None)
                if isinstance(b, list) and st in b:
                    blk = b
        sib = [flat(s2) for s2 in (blk or [])]
        if isinstance(arg, ast.Name) and arg.id == x:
            n_app += 1
            fs = facts(fm.guards_within(st, pl[0]))
            sets = set()
            for g in fs:
                m = astq.match(g.test, f"{x}.nt1 not in U_") if g.polarity else astq.match(g.test, f"{x}.nt1 in U_")
                if m:
                    sets.add(norm(m["U_"]))
            ok = False
            for u in sets:
                both = any((astq.match(g.test, f"{x}.nt2 not in {u}") is not None and g.polarity) or (astq.match(g.test, f"{x}.nt2 in {u}") is not None and not g.polarity) for g in fs)
                adds = flat(f"{u}.add({x}.nt1)") in sib and flat(f"{u}.add({x}.nt2)") in sib
                ok = ok or (both and adds)
            chk.expect(ok, "row-typestate", fi.site(a), f"`{norm(a)}` is a guarded insert: both residues tested against, and added to, one set", f"`{norm(a)}` puts a pair into a row without testing both of its residues against the row's used-set (and recording them): the row is not a matching, __generate_bpseq overwrites partners and pairs vanish", K(fi, f"append:{norm(a.func.value)}"))
        elif isinstance(arg, ast.List) and len(arg.elts) == 1 and norm(arg.elts[0]) == x:
            n_app += 1
            ok = any(t2.startswith(flat("used_per_row.append(")) and flat(f"{x}.nt1") in t2 and flat(f"{x}.nt2") in t2 for t2 in sib) or any(".append{" in t2 and flat(f"{x}.nt1") in t2 and flat(f"{x}.nt2") in t2 for t2 in sib)
            chk.expect(ok, "row-typestate", fi.site(a), "a new row starts with its pair and a used-set holding both residues", f"a new row `{norm(a)}` is opened without registering both residues of its first pair", K(fi, "new-row"))
    if n_app == 0:
        chk.error("row-typestate", fi.site(pl[0]), "no append of a pair to a row found (row construction idiom not recognised)")
    rl = [l for l in lw.body if isinstance(l, ast.For) and any(isinstance(c2, ast.Call) and astq.callee_name(c2).endswith("__generate_bpseq") for c2 in ast.walk(l))]
    ok = False
    if len(rl) == 1 and isinstance(rl[0].target, ast.Name):
        body = rl[0].body
        if len(body) == 1 and isinstance(body[0], ast.If) and norm(body[0].test) == norm(rl[0].target):
            body = body[0].body
        t = [flat(s2) for s2 in body]
        r = norm(rl[0].target)
        ok = t == [flat(f"bpseq, _ = self.__generate_bpseq({r})"), flat("dbns = self.__generate_dot_bracket_per_strand(bpseq.dot_bracket.structure)"), flat(f"for i in range(len(self.strands_sequences)):\n    result[i].append(f'{{{c}.value}} {{dbns[i]}}')")]
    chk.expect(ok, "extended-rows", fi.site(lw), "every row becomes one notation line per strand, labelled with its class, cut by the shared slicer", "a row is not rendered as `<class> <slice i>` for every strand i from its own BPSEQ", K(fi, "render"))
    rets = [r for r in fi.node.body if isinstance(r, ast.Return)]
    chk.expect(len(rets) == 1 and flat(rets[0].value) == flat("'\\n'.join(['\\n'.join(r) for r in result])"), "extended-rows", fi.where, "blocks are joined in strand order", "the extended notation is not the join of the per-strand blocks", K(fi, "join"))


def run(chk) -> None:
    chk.explanation = (
        "The methods of tertiary.Mapping2D3D (with Structure3D.find_residue/__post_init__, BasePair3D.reverse/is_canonical, LeontisWesthof.reverse) are read from the ast and interpreted - nothing is "
        "imported or run - on small models that hold one representative of every class of input the statement names (sa/objeval.py: dataclass records with their declared equality/order, Enum tables, "
        "insertion-ordered sets; geometry, BpSeq and Entry are rule stubs). Decided on the models, with expectations computed from the statement: lifting (forward / reversed / duplicate / 3'-only / "
        "author-only / label-only entries and five kinds of dangling entries), conflict resolution (matching, sub-list of the canonical candidates, unconflicted pairs kept, Watson-Crick beats wobble; "
        "stars of three and four, chains, separate conflicts), numbering with gap placeholders and the index map, strand sequences, per-strand text, extended rows (multiplet, 3'-only class, both-ends "
        "listing, inter-chain pair). The candidate filter is evaluated on a pair and its mirror image. For all inputs, not only the models: LeontisWesthof.reverse on all 18 members and the path rule "
        "'append only after a not-in test and recorded on the same path' of the lifting loops. A mechanism whose code leaves the interpreted fragment falls back to the pinned-form rules "
        "(typestate of the conflict loop, sibling agreement of the two gap rules, slice shapes)."
    )
    chk.trusted = ["CPython ast", "BpSeq.dot_bracket is lossless (C01/C02/C13)", "the interpreter of sa/objeval.py models the Python fragment it accepts faithfully"]
    chk.assumptions = ["which pair survives a conflict is not decided beyond: a matching results, unconflicted pairs stay, Watson-Crick survives wobble in a two-way conflict", "inputs outside the model classes (listed in the evidence) are covered only by the for-all rules named above", "text equality end to end is not decided"]
    chk.robust |= {"lifting-guarded-insert", "lifting-dangling", "lw-reverse", "gap-rule-agree", "removal-under-conflict", "row-typestate"}
    # fact-level rules first (checks/c06e.py: the methods interpreted on models of the statement's input classes); the pinned-form
    # rules are only the fallback for a mechanism whose code is outside the interpreted fragment
    from checks import c06e

    chk.robust |= {"mapping-input-fact", "canonical-candidates", "lifting-fact", "resolution-fact", "numbering-fact", "strands-fact", "strand-text-fact", "extended-fact"}
    decided = c06e.check(chk)
    check_lifting(chk, decided.get("lifting", False))
    floors = {"lw-reverse": 1, "mapping-input-fact": 4}
    if decided.get("lifting"):
        floors["lifting-fact"] = 5
    else:
        floors["lifting-guarded-insert"] = 4
    if decided.get("resolution"):
        floors["resolution-fact"] = 7
    else:
        check_bpseq_matching(chk)
        floors["matching-typestate"] = 2
    if decided.get("numbering"):
        floors.update({"numbering-fact": 6, "strands-fact": 2})
    else:
        check_numbering(chk)
        floors.update({"gap-rule-agree": 4, "numbering": 2, "symmetric-pairs": 1})
    if decided.get("text"):
        floors["strand-text-fact"] = 4
    else:
        check_slicing(chk)
        floors["strand-slices"] = 1
    if decided.get("extended"):
        floors["extended-fact"] = 5
    else:
        check_extended(chk)
        floors["row-typestate"] = 2
    for rule, n in floors.items():
        chk.floor(rule, n)


MANIFEST_ENTRY = {
    "text": "Static decision on the current source of Mapping2D3D by class-level fragment evaluation: the methods are interpreted from their ast (nothing imported or executed) on rule-built models holding one "
    "representative per class of input named in the statement - duplicated, reversed, 3'-only, differently named and dangling entries; conflicts of degree two, three and four, chains of conflicts; gaps, "
    "numbering jumps over bonded links, chain changes, non-nucleotides; multiplets per class - and the results are compared with what the statement prescribes: each input pair lifted once with its mirror image and "
    "nothing for dangling entries, a matching out of the canonical candidates with unconflicted pairs kept, numbering 1..N with '?' for exactly the missing numbers and symmetric partners, strand sequences and "
    "per-strand text concatenating to the BPSEQ, extended rows that are matchings and hold every distinct pair once under the class read from its 5' nucleotide. LeontisWesthof.reverse is evaluated on all 18 members; "
    "the lifting loops are also proved path by path. Multiplets and multi-strand slicing are combinatorial and absent from the suite; the models contain them by construction.",
    "note": "Trusted: losslessness of BpSeq.dot_bracket (C01); the small interpreter sa/objeval.py. Bounded: the verdict speaks about the model classes (listed in the evidence) plus the for-all rules; if a method leaves "
    "the interpreted fragment the pinned-form rules of the previous round decide that mechanism. Not decided: that the survivor of a conflict is the 'right' one; end-to-end text equality.",
    "technique": "static analysis: abstract interpretation of the class's methods over record/Enum/ordered-set models (fragment evaluation on input-class representatives), path enumeration of the lifting loops, evaluation of an Enum property on all members",
}
