"""C20, fact level: the three anchors of transformer.py evaluated as whole functions on stub documents.

The rules of checks/c20.py used to compare statements of copy_from_to / replace_value / main with the form they have at
the pinned commit.  Here the same behaviour is *decided* on whatever shape the code has: the function body (and every
helper of the module it calls, read from the ast - sa/blockeval.py, DESIGN 1.2 item 4) is evaluated on one
representative per class of its input partition, in a closed stub world:

* a file system that is a dict (open / NamedTemporaryFile with buffering: a write is visible through the path only after
  flush/seek/close; opening for writing truncates at once),
* a model of the mmcif objects the module is handed (IoAdapterPy.readFile/writeFile, container, DataCategory - written
  from the documented behaviour of mmcif.api.DataCategory/PdbxContainers: getValueOrDefault returns the default for
  '.', '?' and None, DataCategory(...) deep-copies its arguments, container.replace installs an object only under a
  name the container already has),
* an argparse model (add_argument / parse_args / print_help / error, FileType opens while arguments are parsed),
* for the CLI the two library functions are rule-supplied stubs that return a text naming the arguments they received,
  so "what the tool writes is what the library returns for the content of the input file" is decided independently of
  what the library does; the option values of the representative command lines are chosen so that every usual
  normalisation (sorting, de-duplication, case folding, stripping) of a value on its way to the library is visible,
* sets of the evaluated program iterate in one fixed arbitrary order (HSet): a result that depends on set order is the
  same in every run of the check, whatever PYTHONHASHSEED is,
* laziness as in the language: a generator function returns a generator object whose body is interpreted only while
  it is consumed (GenStub, hand-over thread), generator expressions and zip / map / filter / enumerate / reversed are
  lazy too - an edit that happens only inside a lazy object happens as far as the object is consumed, not where it is
  written,
* state: the calls of a sequence are evaluated in one world (memoising decorators and module-level containers live in
  it) and compared with the same calls in fresh worlds; mutable parts of a result are emptied by the 'caller' between
  the calls.  Tests and handlers that were taken are recorded as events - used only to explain a violation (the test
  that separates the wrong rows, the handler that swallowed an exception), never to decide one.

Nothing of rnapolis is imported or executed; only literals, operators, builtins on folded values and the stubs are
interpreted.  A construct outside the supported fragment ends the evaluation as 'not evaluable' (the caller then falls
back to the pinned-form rules), never as a verdict.  Every statement of the evaluated functions must be reached by at
least one representative (coverage rule): a new branch that no class of the partition exercises is ANALYSIS-ERROR.
"""
from __future__ import annotations

import ast
import builtins
import copy
import inspect
import json
from typing import Any, Callable, Dict, List, Optional, Sequence, Tuple

from checks.c03 import K
from sa.blockeval import BlockEval, Unknown, _Stop
from sa.consteval import _BUILTINS, _MODULE_FUNCS, Folder, NotConst, _bind

M = "transformer"
MAGIC = "#stub-mmcif "


# ---------------------------------------------------------------------------------------------------------------------
# stub world
# ---------------------------------------------------------------------------------------------------------------------
class World:
    def __init__(self) -> None:
        self.files: Dict[str, str] = {}
        self.events: List[Tuple] = []
        self.n_tmp = 0
        self.memo: Dict[Any, Any] = {}
        self.lib_calls: List[Tuple[str, Dict[str, Any], Any, Any]] = []  # (function, bound arguments, text naming them, text returned)
        self.argv: Dict[str, Any] = {}
        self.handles: List[Any] = []
        self.globals: Dict[str, Any] = {}
        self.defaults_init: Dict[Tuple[str, int, str], Any] = {}  # mutable defaults as they were created (explanations)
        self.defaults: Dict[Tuple[str, int, str], Any] = {}  # default values of module-level functions: evaluated once per process, as `def` does
        self.line: Optional[int] = None  # line of the statement being evaluated (for sites)
        self.categories: List[Any] = []  # category objects the adapter handed out (explanations: whose list was edited)
        self.gens: List[Any] = []  # generator objects of the evaluated program (suspended ones are closed when the evaluation ends)

    def close_generators(self) -> None:
        for g in list(self.gens):
            try:
                g.close()
            except BaseException:
                pass
        self.gens = []

    def shutdown(self) -> None:
        """Interpreter exit: handles the program left open are flushed and closed."""
        for h in list(self.handles):
            try:
                h.close()
            except Exception:
                pass


class FileStub:
    """Text/binary file handle over World.files with the buffering of io: written text reaches the path on flush/seek/tell/read/close."""

    _folder_stub = True

    def __init__(self, world: World, path: Any, mode: str = "r", temporary: bool = False):
        if isinstance(path, FileStub):
            raise TypeError("expected str, bytes or os.PathLike object, not TextIOWrapper")
        if isinstance(path, PathStub):
            path = path.path
        if not isinstance(path, str):
            raise TypeError(f"expected str, bytes or os.PathLike object, not {type(path).__name__}")
        if not isinstance(mode, str) or not set(mode) <= set("rwxabt+") or sum(c in mode for c in "rwxa") != 1:
            raise ValueError(f"invalid mode: {mode!r}")
        self.world, self.name, self.mode = world, path, mode
        self.readable_ = "r" in mode or "+" in mode
        self.writable_ = any(c in mode for c in "wxa+")
        self.binary = "b" in mode
        self.temporary, self.closed = temporary, False
        self.pending: List[str] = []
        if "w" in mode:
            world.files[path] = ""
            world.events.append(("truncate", path, world.line))
        elif "x" in mode:
            if path in world.files:
                raise FileExistsError(path)
            world.files[path] = ""
        elif "a" in mode:
            world.files.setdefault(path, "")
        elif path not in world.files:
            raise FileNotFoundError(f"No such file or directory: {path!r}")
        self.append = "a" in mode
        self.pos = len(world.files[path]) if self.append else 0
        world.events.append(("open", path, mode))
        world.handles.append(self)

    def _check(self) -> None:
        if self.closed:
            raise ValueError("I/O operation on closed file.")

    def write(self, s):
        self._check()
        if not self.writable_:
            raise OSError("not writable")
        if self.binary:
            if not isinstance(s, (bytes, bytearray)):
                raise TypeError(f"a bytes-like object is required, not '{type(s).__name__}'")
            s = s.decode("latin-1")
        elif not isinstance(s, str):
            raise TypeError(f"write() argument must be str, not {type(s).__name__}")
        self.pending.append(s)
        return len(s)

    def writelines(self, lines):
        for s in list(lines):
            self.write(s)

    def flush(self):
        self._check()
        for s in self.pending:
            cur = self.world.files.get(self.name, "")
            if self.append:
                self.pos = len(cur)
            cur = cur[: self.pos].ljust(self.pos, "\0") + s + cur[self.pos + len(s) :]
            self.pos += len(s)
            self.world.files[self.name] = cur
            self.world.events.append(("write", self.name, s))
        self.pending = []

    def seek(self, offset, whence=0):
        self.flush()
        cur = self.world.files.get(self.name, "")
        self.pos = offset if whence == 0 else (self.pos + offset if whence == 1 else len(cur) + offset)
        return self.pos

    def tell(self):
        self.flush()
        return self.pos

    def read(self, size=-1):
        self._check()
        if not self.readable_:
            raise OSError("not readable")
        self.flush()
        cur = self.world.files.get(self.name, "")
        out = cur[self.pos :] if size is None or size < 0 else cur[self.pos : self.pos + size]
        self.pos += len(out)
        self.world.events.append(("read", self.name))
        return out.encode("latin-1") if self.binary else out

    def readlines(self):
        return self.read().splitlines(True)

    def close(self):
        if self.closed:
            return
        self.flush()
        self.closed = True
        self.world.events.append(("close", self.name))
        if self.temporary:
            self.world.files.pop(self.name, None)

    def _enter(self):
        self._check()
        return self

    def _exit(self):
        self.close()


class FileTypeStub:
    """argparse.FileType(mode): the argument string is opened while the arguments are parsed."""

    _folder_stub = True

    def __init__(self, world: World, mode: str = "r"):
        self.world, self.mode = world, mode

    def __call__(self, path):
        return FileStub(self.world, path, self.mode)


class TempfileStub:
    _folder_stub = True

    def __init__(self, world: World):
        self.world = world

    def NamedTemporaryFile(self, mode="w+b", buffering=-1, encoding=None, newline=None, suffix=None, prefix=None, dir=None, delete=True):
        self.world.n_tmp += 1
        path = f"/tmp/{prefix or 'tmp'}stub{self.world.n_tmp}{suffix or ''}"
        self.world.files[path] = ""
        return FileStub(self.world, path, mode, temporary=bool(delete))


class CategoryStub:
    """Model of mmcif.api.DataCategory (the operations a row editor can use)."""

    _folder_stub = True

    def __init__(self, name, attributeNameList=None, rowList=None, raiseExceptions=True, copyInputData=True):
        self._name = name
        if copyInputData:
            self._attributeNameList = copy.deepcopy(attributeNameList) if attributeNameList is not None else []
        else:
            self._attributeNameList = attributeNameList if attributeNameList is not None else []
        if rowList is None or (isinstance(rowList, list) and not rowList):
            self.data = []
        elif isinstance(rowList, list) and isinstance(rowList[0], (list, tuple)):
            self.data = copy.deepcopy(rowList) if copyInputData else rowList
        elif isinstance(rowList, list) and isinstance(rowList[0], dict):
            self.data = [[r[k] if k in r else None for k in self._attributeNameList] for r in rowList]
        else:
            if raiseExceptions:
                raise ValueError
            self.data = []
        self._raiseExceptions, self._copyInputData = raiseExceptions, copyInputData
        self._world: Optional[World] = None

    # UserList behaviour
    def __iter__(self):
        return iter(self.data)

    def __len__(self):
        return len(self.data)

    def __getitem__(self, i):
        return self.data[i]

    def __setitem__(self, i, v):
        self.data[i] = v

    def getName(self):
        return self._name

    def get(self):
        return (self._name, self._attributeNameList, self.data)

    def getAttributeList(self):
        return self._attributeNameList

    def getAttributeCount(self):
        return len(self._attributeNameList)

    def getAttributeIndex(self, attributeName):
        try:
            return self._attributeNameList.index(attributeName)
        except Exception:
            return -1

    def getIndex(self, attributeName):
        return self.getAttributeIndex(attributeName)

    def getAttributeIndexDict(self):
        return {a: i for i, a in enumerate(self._attributeNameList)}

    def hasAttribute(self, attributeName):
        return attributeName in self._attributeNameList

    def getRowList(self):
        return self.data

    def getRowCount(self):
        return len(self.data)

    def getRow(self, index):
        try:
            return self.data[index]
        except Exception:
            if self._raiseExceptions:
                raise
        return []

    def getFullRow(self, index):
        try:
            n = len(self._attributeNameList)
            if len(self.data[index]) < n:
                for _ in range(n - len(self.data[index])):
                    self.data[index].append("?")
            return self.data[index]
        except Exception:
            pass
        return ["?" for _ in range(len(self._attributeNameList))]

    def getColumn(self, index):
        try:
            return [row[index] for row in self.data]
        except Exception:
            if self._raiseExceptions:
                raise
        return []

    def getAttributeValueList(self, attributeName):
        try:
            idx = self.getAttributeIndex(attributeName)
            return [row[idx] for row in self.data]
        except Exception:
            if self._raiseExceptions:
                raise
        return []

    def getRowAttributeDict(self, index):
        rD = {}
        try:
            for ii, v in enumerate(self.data[index]):
                rD[self._attributeNameList[ii]] = v
            return rD
        except Exception:
            if self._raiseExceptions:
                raise
        return rD

    def getValue(self, attributeName=None, rowIndex=None):
        rowI = 0 if rowIndex is None else rowIndex
        if isinstance(attributeName, str) and isinstance(rowI, int):
            try:
                return self.data[rowI][self._attributeNameList.index(attributeName)]
            except IndexError:
                if self._raiseExceptions:
                    raise IndexError
        if self._raiseExceptions:
            raise IndexError(attributeName)
        return None

    def getValueOrDefault(self, attributeName=None, rowIndex=None, defaultValue=""):
        rowI = 0 if rowIndex is None else rowIndex
        if isinstance(attributeName, str) and isinstance(rowI, int):
            try:
                tV = self.data[rowI][self._attributeNameList.index(attributeName)]
                if (tV is None) or (tV in [".", "?"]):
                    if self._world is not None and tV != defaultValue:
                        self._world.events.append(("defaulted", attributeName, rowI, tV, defaultValue, self._world.line))
                    return defaultValue
                return tV
            except Exception:
                pass
        elif self._raiseExceptions:
            raise ValueError
        return defaultValue

    def setValue(self, value, attributeName=None, rowIndex=None):
        rowI = 0 if rowIndex is None else rowIndex
        if isinstance(attributeName, str) and isinstance(rowI, int) and rowI >= 0:
            try:
                for _ in range(rowI + 1 - len(self.data)):
                    self.data.append([None for _ in range(len(self._attributeNameList))])
                ll = len(self.data[rowI])
                ind = self._attributeNameList.index(attributeName)
                if ind >= ll:
                    self.data[rowI].extend([None for _ in range(ind - (ll - 1))])
                self.data[rowI][ind] = value
                return True
            except IndexError:
                if self._raiseExceptions:
                    raise IndexError
            except ValueError:
                if self._raiseExceptions:
                    raise ValueError
        elif self._raiseExceptions:
            raise ValueError
        return False

    def appendAttribute(self, attributeName):
        low = {a.lower(): a for a in self._attributeNameList}
        if attributeName.lower() in low:
            self._attributeNameList[self._attributeNameList.index(low[attributeName.lower()])] = attributeName
        else:
            self._attributeNameList.append(attributeName)
        return len(self._attributeNameList)

    def appendAttributeExtendRows(self, attributeName, defaultValue="?"):
        low = {a.lower(): a for a in self._attributeNameList}
        if attributeName.lower() in low:
            self._attributeNameList[self._attributeNameList.index(low[attributeName.lower()])] = attributeName
        else:
            self._attributeNameList.append(attributeName)
            for row in self.data:
                row.append(defaultValue)
        return len(self._attributeNameList)

    def setRowList(self, rowList):
        self.data = copy.deepcopy(rowList) if self._copyInputData else rowList

    def setAttributeNameList(self, attributeNameList):
        self._attributeNameList = copy.deepcopy(attributeNameList) if self._copyInputData else attributeNameList

    def append(self, row):
        if isinstance(row, (list, tuple)):
            self.data.append(row)
            return True
        if isinstance(row, dict):
            self.data.append([row[k] if k in row else None for k in self._attributeNameList])
            return False
        if self._raiseExceptions:
            raise ValueError
        return False

    def replaceValue(self, oldValue, newValue, attributeName):
        n = 0
        if attributeName not in self._attributeNameList:
            return n
        ind = self._attributeNameList.index(attributeName)
        for row in self.data:
            if row[ind] == oldValue:
                row[ind] = newValue
                n += 1
        return n


class ContainerStub:
    """Model of mmcif.api.PdbxContainers.DataContainer: ordered name list + catalogue."""

    _folder_stub = True

    def __init__(self, name):
        self._cname = name
        self._names: List[Any] = []
        self._catalog: Dict[Any, Any] = {}

    def getName(self):
        return self._cname

    def getType(self):
        return "data"

    def exists(self, name):
        return name in self._catalog

    def getObj(self, name):
        return self._catalog.get(name) if name in self._catalog else None

    def getObjNameList(self):
        return self._names

    def append(self, obj):
        if obj.getName() is not None:
            if obj.getName() not in self._catalog:
                self._names.append(obj.getName())
            self._catalog[obj.getName()] = obj

    def replace(self, obj):
        if (obj.getName() is not None) and (obj.getName() in self._catalog):
            self._catalog[obj.getName()] = obj

    def remove(self, curName):
        if curName in self._catalog:
            del self._catalog[curName]
            self._names.remove(curName)
            return True
        return False


def serialise(containers, lastInOrder=None, selectOrder=None) -> str:
    doc = []
    for c in containers:
        cats = []
        names = list(c.getObjNameList())
        if lastInOrder:
            names = [n for n in names if n not in lastInOrder] + [n for n in names if n in lastInOrder]
        elif selectOrder:
            names = [n for n in selectOrder if c.exists(n)]
        for nm in names:
            o = c.getObj(nm)
            cats.append([nm, list(o.getAttributeList()), [list(r) for r in o.getRowList()]])
        doc.append([c.getName(), cats])
    return MAGIC + json.dumps(doc, default=lambda o: f"<{type(o).__name__}>") + "\n"


def text_of(doc) -> str:
    return MAGIC + json.dumps(doc) + "\n"  # like a real file the text ends with a newline: stripping it is a change


def parse(text) -> Optional[list]:
    if not isinstance(text, str) or not text.startswith(MAGIC):
        return None
    try:
        return json.loads(text[len(MAGIC) :])
    except ValueError:
        return None


class AdapterStub:
    _folder_stub = True

    def __init__(self, world: World):
        self.world = world

    def readFile(self, inputFilePath, enforceAscii=False, selectList=None, excludeFlag=False, logFilePath=None, outDirPath=None, cleanUp=True, fmt="mmcif", timeout=None):
        if not isinstance(inputFilePath, str):
            raise TypeError("readFile: path expected")
        if fmt != "mmcif":
            raise NotConst("readFile(fmt=...) is not modelled")
        self.world.events.append(("parse", inputFilePath))
        if not self.world.files.get(inputFilePath):
            self.world.events.append(("parse-empty", inputFilePath, inputFilePath in self.world.files))
        doc = parse(self.world.files.get(inputFilePath))
        out = []
        for bname, cats in doc or []:
            c = ContainerStub(bname)
            for cname, attrs, rows in cats:
                if selectList and ((cname in selectList) == bool(excludeFlag)):
                    continue
                cat = CategoryStub(cname, attrs, rows)
                cat._world = self.world
                self.world.categories.append(cat)
                c.append(cat)
            out.append(c)
        return out

    def writeFile(self, outputFilePath, containerList, maxLineLength=900, enforceAscii=True, lastInOrder=None, selectOrder=None, columnAlignFlag=True, useStopTokens=False, formattingStep=None, fmt="mmcif"):
        if not isinstance(outputFilePath, str):
            raise TypeError("writeFile: path expected")
        if fmt != "mmcif":
            raise NotConst("writeFile(fmt=...) is not modelled")
        self.world.files[outputFilePath] = serialise(containerList, lastInOrder, selectOrder)
        self.world.events.append(("serialise", outputFilePath))
        return True


class PathStub:
    """pathlib.Path over the stub file system (the operations a CLI uses to read and write a text file)."""

    _folder_stub = True

    def __init__(self, world: World, path):
        if isinstance(path, PathStub):
            path = path.path
        if not isinstance(path, str):
            raise TypeError(f"expected str, bytes or os.PathLike object, not {type(path).__name__}")
        self.world, self.path, self.name = world, path, path.split("/")[-1]

    def read_text(self, encoding=None, errors=None):
        with_ = FileStub(self.world, self.path, "r")
        try:
            return with_.read()
        finally:
            with_.close()

    def write_text(self, data, encoding=None, errors=None, newline=None):
        if not isinstance(data, str):
            raise TypeError(f"data must be str, not {type(data).__name__}")
        h = FileStub(self.world, self.path, "w")
        try:
            return h.write(data)
        finally:
            h.close()

    def open(self, mode="r", buffering=-1, encoding=None, errors=None, newline=None):
        return FileStub(self.world, self.path, mode)

    def exists(self):
        return self.path in self.world.files

    def is_file(self):
        return self.path in self.world.files

    def unlink(self, missing_ok=False):
        if self.path not in self.world.files and not missing_ok:
            raise FileNotFoundError(self.path)
        self.world.files.pop(self.path, None)

    def __str__(self):
        return self.path


def _fspath(p) -> str:
    if isinstance(p, PathStub):
        return p.path
    if not isinstance(p, str):
        raise TypeError(f"expected str, bytes or os.PathLike object, not {type(p).__name__}")
    return p


class OsPathStub:
    _folder_stub = True

    def __init__(self, world: World):
        self.world = world

    def exists(self, p):
        return _fspath(p) in self.world.files

    def isfile(self, p):
        return _fspath(p) in self.world.files


class OsStub:
    _folder_stub = True

    def __init__(self, world: World):
        self.world = world
        self.path = OsPathStub(world)

    def replace(self, src, dst):
        src, dst = _fspath(src), _fspath(dst)
        if src not in self.world.files:
            raise FileNotFoundError(src)
        self.world.files[dst] = self.world.files.pop(src)
        self.world.events.append(("rename", src, dst))

    def rename(self, src, dst):
        self.replace(src, dst)

    def remove(self, p):
        p = _fspath(p)
        if p not in self.world.files:
            raise FileNotFoundError(p)
        del self.world.files[p]

    def unlink(self, p):
        self.remove(p)


class ShutilStub:
    _folder_stub = True

    def __init__(self, world: World):
        self.world = world

    def copyfile(self, src, dst):
        src, dst = _fspath(src), _fspath(dst)
        if src not in self.world.files:
            raise FileNotFoundError(src)
        if src == dst:
            raise OSError(f"{src!r} and {dst!r} are the same file")
        self.world.files[dst] = self.world.files[src]
        return dst

    def copy(self, src, dst):
        return self.copyfile(src, dst)

    def move(self, src, dst):
        OsStub(self.world).replace(src, dst)
        return dst


class NamespaceStub:
    _folder_stub = True

    def __repr__(self):
        return "Namespace(" + ", ".join(f"{k}={v!r}" for k, v in sorted(vars(self).items())) + ")"


class ParserStub:
    _folder_stub = True
    _KW = {"help", "metavar", "required", "default", "dest", "type", "action", "choices"}

    def __init__(self, world: World):
        self.world = world
        self.specs: List[Tuple[Tuple[str, ...], Dict[str, Any], Optional[int]]] = []

    def add_argument(self, *names, **kw):
        if not names or not all(isinstance(x, str) for x in names) or set(kw) - self._KW:
            raise NotConst(f"add_argument form not modelled: {names} {sorted(kw)}")
        if kw.get("action") not in (None, "store", "store_true", "store_false"):
            raise NotConst(f"argparse action {kw.get('action')!r} not modelled")
        self.specs.append((names, kw, self.world.line))

    def add_mutually_exclusive_group(self, required=False):
        return self

    def add_argument_group(self, *a, **k):
        return self

    def parse_args(self, args=None):
        if args is not None:
            raise NotConst("parse_args(<explicit list>)")
        ns = NamespaceStub()
        given = dict(self.world.argv)
        for names, kw, line in self.specs:
            positional = not names[0].startswith("-")
            long = [x for x in names if x.startswith("--")]
            dest = kw.get("dest") or (names[0] if positional else (long[0] if long else names[0]).lstrip("-")).replace("-", "_")
            action = kw.get("action")
            hit = [x for x in names if x in given]
            if positional and not hit:
                raise NotConst(f"positional argument `{names[0]}` is not one the rule knows")
            if hit:
                raw = given.pop(hit[0])
                if action in ("store_true", "store_false"):
                    val = action == "store_true"
                else:
                    ty = kw.get("type")
                    if kw.get("choices") is not None and raw not in kw["choices"]:
                        self.error(f"argument {names[0]}: invalid choice")
                    val = ty(raw) if ty is not None else raw
                    if ty is not None and (type(val) is not type(raw) or val != raw):
                        # the parser hands the program something else than the text on the command line
                        self.world.events.append(("converted", hit[0], raw, val, line, getattr(ty, "__name__", type(ty).__name__)))
            else:
                if kw.get("required"):
                    self.error(f"the following arguments are required: {names[0]}")
                val = (action == "store_false") if action in ("store_true", "store_false") else kw.get("default")
            setattr(ns, dest, val)
        if given:
            raise NotConst(f"option(s) {sorted(given)} are not declared by the parser")
        return ns

    def print_help(self, file=None):
        self.world.events.append(("help",))

    def print_usage(self, file=None):
        self.world.events.append(("help",))

    def error(self, message):
        self.world.events.append(("usage-error", str(message)))
        raise SystemExit(2)

    def exit(self, status=0, message=None):
        raise SystemExit(status)


class ArgparseStub:
    _folder_stub = True

    def __init__(self, world: World):
        self.world = world

    def ArgumentParser(self, prog=None, usage=None, description=None, epilog=None, formatter_class=None, add_help=True, allow_abbrev=True):
        return ParserStub(self.world)

    def FileType(self, mode="r", bufsize=-1, encoding=None, errors=None):
        return FileTypeStub(self.world, mode)


class StreamStub:
    """sys.stdout / sys.stderr: messages to the user are no part of the files the rules look at."""

    _folder_stub = True

    def __init__(self, world: World, name: str):
        self.world, self.name = world, name

    def write(self, s):
        if not isinstance(s, str):
            raise TypeError(f"write() argument must be str, not {type(s).__name__}")
        self.world.events.append(("message", self.name))
        return len(s)

    def flush(self):
        return None


class SysStub:
    _folder_stub = True

    def __init__(self, world: World):
        self.world = world
        self.stdout, self.stderr = StreamStub(world, "stdout"), StreamStub(world, "stderr")

    def exit(self, status=None):
        raise SystemExit(status)


# ---------------------------------------------------------------------------------------------------------------------
# evaluator: BlockEval + with / while / raise / try-as / calls of module functions / keywords / builtin methods
# ---------------------------------------------------------------------------------------------------------------------
def _arbitrary(x) -> str:
    import hashlib

    return hashlib.md5(repr(x).encode("utf-8", "replace")).hexdigest()


class HSet(set):
    """A set of the evaluated program.  The language leaves its iteration order open (for str elements it changes with
    PYTHONHASHSEED); here it is one fixed order that is neither the insertion order nor the sorted order, so that a result
    which depends on it is the same in every run of the check (deterministic evidence) and visibly not the 'natural' one."""

    def __iter__(self):
        return iter(sorted(set.__iter__(self), key=_arbitrary))


class HFrozenSet(frozenset):
    def __iter__(self):
        return iter(sorted(frozenset.__iter__(self), key=_arbitrary))


def _print(*args, sep=" ", end="\n", file=None, flush=False):
    """print: to a stream the program opened it is a write like any other; to the terminal it is a message."""
    if file is not None:
        if not hasattr(file, "write"):
            raise AttributeError(f"'{type(file).__name__}' object has no attribute 'write'")
        file.write(("" if sep is None else sep).join(str(x) if not getattr(x, "_folder_stub", False) else f"<{type(x).__name__}>" for x in args) + ("\n" if end is None else end))
        if flush:
            file.flush()
    return None


_XB: Dict[str, Any] = {
    "getattr": getattr,
    "hasattr": hasattr,
    "isinstance": isinstance,
    "print": lambda *a, **k: _print(*a, **k),
    "repr": repr,
    "iter": lambda x: list(x),
    "ord": ord,
    "chr": chr,
    "divmod": divmod,
    "type": type,
    "id": None,
}
_XB.update({n: getattr(builtins, n) for n in dir(builtins) if isinstance(getattr(builtins, n), type) and issubclass(getattr(builtins, n), BaseException)})
_XB.update({n: getattr(builtins, n) for n in ("list", "dict", "tuple", "set", "frozenset", "str", "int", "float", "bool", "bytes", "object")})
_PLAIN = (str, list, dict, set, tuple, frozenset, bytes, int, float, HSet, HFrozenSet)
_LAZY = ("zip", "range", "reversed", "enumerate", "filter", "map")  # lazy in the language: evaluated by the real builtin (keywords included), result materialised


def _real_builtin(name: str) -> Callable:
    real = getattr(builtins, name)
    if name == "iter":
        return lambda *a: iter(*a)
    if name == "next":
        def nxt(it, *default):
            if isinstance(it, list):  # a materialised lazy object (zip / map / filter / ...) asked for its first element
                if it:
                    return it[0]
                if default:
                    return default[0]
                raise StopIteration
            return next(it, *default)

        return nxt
    if name == "range":
        return lambda *a, **k: _bounded(real(*a, **k))
    return lambda *a, **k: _lazy_bounded(real(*a, **k))  # zip / map / filter / enumerate / reversed are lazy in the language: never consumed = never run


_BOUND = 100000


def _lazy_bounded(it):
    """The lazy object itself (elements are produced while it is consumed), cut at a bound so that an evaluation always ends."""
    try:
        for k, x in enumerate(it):
            if k > _BOUND:
                raise Unknown("unbounded iteration")
            yield x
    except NotConst as ex:
        raise Unknown(f"lazy iteration: {ex}")


def _bounded(it) -> list:
    import itertools

    out = list(itertools.islice(it, _BOUND + 1))
    if len(out) > _BOUND:
        raise NotConst("unbounded iteration")
    return out


def _itertools(name: str) -> Optional[Callable]:
    """Pure itertools functions; the infinite ones are cut at a bound so that an evaluation always ends."""
    import itertools

    if name in ("count", "cycle", "repeat"):
        real = getattr(itertools, name)
        return lambda *a, **k: (real(*a, **k) if name == "repeat" and (len(a) > 1 or "times" in k) else itertools.islice(real(*a, **k), _BOUND + 1))
    if name in ("chain", "islice", "zip_longest", "accumulate", "takewhile", "dropwhile", "starmap", "pairwise", "permutations"):
        return getattr(itertools, name)
    return None



class XFolder(Folder):
    def child(self, extra: Dict[str, Any]) -> "XFolder":
        return XFolder(self.repo, self.module, {**self.local, **extra}, self.cls)

    def fold(self, node: ast.AST) -> Any:
        v = Folder.fold(self, node)
        if type(v) is set:
            return HSet(v)
        if type(v) is frozenset:
            return HFrozenSet(v)
        return v

    def _f_GeneratorExp(self, n):
        """A generator expression is lazy: only its first iterable is evaluated where it is written; elements, conditions and
        inner iterables are evaluated while it is consumed (and see the names as they are bound then); never consumed = never run."""
        gens = n.generators
        first = iter(self.fold(gens[0].iter))

        def rec(i, env, src=None):
            if i == len(gens):
                yield self.child(env).fold(n.elt)
                return
            g = gens[i]
            for item in src if src is not None else iter(self.child(env).fold(g.iter)):
                env2 = dict(env)
                _bind(g.target, item, env2)
                s2 = self.child(env2)
                if all(s2.fold(c) for c in g.ifs):
                    for k in getattr(s2, "_walrus", ()):
                        env2[k] = s2.local[k]
                    yield from rec(i + 1, env2)

        def run():
            try:
                yield from rec(0, {}, first)
            except NotConst as ex:
                raise Unknown(f"`{norm_(n)}`: {ex}")

        return run()

    def _f_Name(self, n):
        if n.id not in self.local and n.id in _XB and _XB[n.id] is not None:
            try:
                return Folder._f_Name(self, n)
            except NotConst:
                return _XB[n.id]
        return Folder._f_Name(self, n)

    def _f_Attribute(self, n):
        if not isinstance(n.value, ast.Name) or n.value.id in self.local:
            base = self.fold(n.value)
            if getattr(base, "_folder_stub", False):
                if n.attr.startswith("_") or not hasattr(base, n.attr):
                    if isinstance(base, NamespaceStub):
                        raise AttributeError(f"'Namespace' object has no attribute '{n.attr}'")
                    raise NotConst(f"`{type(base).__name__}.{n.attr}` is not modelled")
                return getattr(base, n.attr)
            if isinstance(base, BaseException) and n.attr in ("args", "code"):
                return getattr(base, n.attr)
            if hasattr(base, "__dict__") and n.attr in vars(base):
                return getattr(base, n.attr)
            raise NotConst(f"attribute {norm_(n)}")
        if isinstance(n.value, ast.Name) and n.value.id in ("str", "list", "dict", "tuple", "set", "frozenset", "int", "float", "bytes") and not n.attr.startswith("_"):
            return getattr(_XB[n.value.id], n.attr)  # unbound method of a builtin type (type=str.strip, key=str.lower); AttributeError is the program's own
        return Folder._f_Attribute(self, n)

    @staticmethod
    def _invoke(fn, args, kw, label):
        if getattr(fn, "_folder_stub", False) or getattr(getattr(fn, "__self__", None), "_folder_stub", False):
            try:
                inspect.signature(fn).bind(*args, **kw)
            except TypeError as ex:
                raise NotConst(f"call of `{label}` does not match the modelled signature ({ex})")
            except ValueError:
                pass
        return fn(*args, **kw)

    def _f_Call(self, n):
        f = n.func
        if isinstance(f, ast.Attribute) and isinstance(f.value, ast.Name) and f.value.id not in self.local:
            if (f.value.id, f.attr) in _MODULE_FUNCS and not n.keywords:
                return _MODULE_FUNCS[(f.value.id, f.attr)](*self._elts(n.args))
            if f.value.id == "dict" and f.attr == "fromkeys" and not n.keywords:
                return dict.fromkeys(*self._elts(n.args))
            imp = self.repo.module(self.module).imports.get(f.value.id)
            if imp is not None and imp == ("itertools", None) and _itertools(f.attr) is not None:
                kw0 = {k.arg: self.fold(k.value) for k in n.keywords if k.arg is not None}
                return _itertools(f.attr)(*self._elts(n.args), **kw0)
        # callee first (as the language does), then arguments
        fn = recv = None
        if isinstance(f, ast.Name):
            if f.id in self.local:
                fn = self.local[f.id]
                if not callable(fn):
                    raise TypeError(f"'{type(fn).__name__}' object is not callable")
            elif f.id in ("next", "iter") or (f.id in _BUILTINS and f.id in _LAZY):
                fn = _real_builtin(f.id)
            elif f.id in _BUILTINS:
                fn = _BUILTINS[f.id]
            elif _XB.get(f.id) is not None:
                fn = _XB[f.id]
            else:
                raise NotConst(f"call of {f.id}")
        elif isinstance(f, ast.Attribute):
            recv = self.fold(f.value)
        else:
            fn = self.fold(f)
            if not callable(fn):
                raise NotConst("call")
        args = self._elts(n.args)
        kw: Dict[str, Any] = {}
        for k in n.keywords:
            if k.arg is None:
                kw.update(self.fold(k.value))
            else:
                kw[k.arg] = self.fold(k.value)
        if fn is not None:
            return self._invoke(fn, args, kw, norm_(f))
        if getattr(recv, "_folder_stub", False):
            m = getattr(recv, f.attr, None)
            if f.attr.startswith("_") or m is None or not callable(m):
                raise NotConst(f"`{type(recv).__name__}.{f.attr}()` is not modelled")
            return self._invoke(m, args, kw, f"{type(recv).__name__}.{f.attr}")
        if recv is copy and f.attr in ("copy", "deepcopy"):
            return getattr(copy, f.attr)(*args, **kw)
        if type(recv) in _PLAIN and not f.attr.startswith("_"):
            r = getattr(recv, f.attr)(*args, **kw)  # AttributeError / TypeError are the program's own
            if isinstance(recv, dict) and f.attr in ("keys", "values", "items"):
                r = list(r)
            return r
        if recv is None:
            raise AttributeError(f"'NoneType' object has no attribute '{f.attr}'")  # the program's own fault, e.g. an option that was not given
        raise NotConst(f"method {f.attr} of {type(recv).__name__}")


def _stubfn(f):
    f._folder_stub = True
    return f


def norm_(x: ast.AST) -> str:
    try:
        return ast.unparse(x)[:60]
    except Exception:
        return "?"


class Runtime:
    """One evaluation of one anchor on one representative: the world, the module's functions, coverage."""

    def __init__(self, repo, tree: ast.Module, world: World, overrides: Optional[Dict[str, Any]] = None, cov: Optional[set] = None, entered: Optional[dict] = None):
        self.repo, self.tree, self.world = repo, tree, world
        self.funcs = {s.name: s for s in tree.body if isinstance(s, ast.FunctionDef)}
        self.overrides = overrides or {}
        self.cov = cov if cov is not None else set()
        self.entered = entered if entered is not None else {}
        self.depth = 0
        self.steps = 0
        self.module_env = self._module_env()

    # names the module binds by import, resolved to stubs (anything else stays unbound -> not evaluable when used)
    def _import(self, src: str, orig: Optional[str]) -> Any:
        w = self.world
        if orig is None:
            return {"tempfile": TempfileStub(w), "argparse": ArgparseStub(w), "sys": SysStub(w), "os": OsStub(w), "shutil": ShutilStub(w), "copy": copy}.get(src)
        if src == "tempfile" and orig == "NamedTemporaryFile":
            return TempfileStub(w).NamedTemporaryFile
        if src == "argparse" and orig == "ArgumentParser":
            return ArgparseStub(w).ArgumentParser
        if src == "argparse" and orig == "FileType":
            return ArgparseStub(w).FileType
        if src.startswith("mmcif.") and orig in ("IoAdapterPy", "IoAdapterCore", "IoAdapter"):
            return _stubfn(lambda: AdapterStub(w))
        if src.startswith("mmcif.") and orig == "DataCategory":
            return CategoryStub
        if src.startswith("mmcif.") and orig == "DataContainer":
            return ContainerStub
        if src == "copy" and orig in ("deepcopy", "copy"):
            return getattr(copy, orig)
        if src == "pathlib" and orig == "Path":
            return _stubfn(lambda path: PathStub(w, path))
        if src == "os" and orig in ("replace", "rename", "remove", "unlink"):
            return getattr(OsStub(w), orig)
        if src == "os.path" and orig in ("exists", "isfile"):
            return getattr(OsPathStub(w), orig)
        if src == "shutil" and orig in ("copyfile", "copy", "move"):
            return getattr(ShutilStub(w), orig)
        return None

    def _module_env(self) -> Dict[str, Any]:
        env: Dict[str, Any] = {"open": _stubfn(lambda file, mode="r", buffering=-1, encoding=None, errors=None, newline=None: FileStub(self.world, file, mode))}
        for st in self.tree.body:
            if isinstance(st, ast.Import):
                for a in st.names:
                    v = self._import(a.name, None)
                    if v is not None and "." not in a.name:
                        env[a.asname or a.name] = v
            elif isinstance(st, ast.ImportFrom):
                for a in st.names:
                    v = self._import(st.module or "", a.name)
                    if v is not None:
                        env[a.asname or a.name] = v
        for name, fn in self.funcs.items():
            env[name] = self.overrides[name] if name in self.overrides else self.callable_of(fn)
        # module-level mutable containers are state of the process: one object per world, shared by every call made in it
        for st in self.tree.body:
            tgt = st.targets[0] if isinstance(st, ast.Assign) and len(st.targets) == 1 else (st.target if isinstance(st, ast.AnnAssign) and st.value is not None else None)
            if isinstance(tgt, ast.Name):
                if tgt.id not in self.world.globals:
                    try:
                        v = XFolder(self.repo, M, env).fold(st.value)
                    except Exception:
                        continue
                    if type(v) not in (list, dict, set, HSet):
                        continue
                    self.world.globals[tgt.id] = v
                env[tgt.id] = self.world.globals[tgt.id]
        return env

    def callable_of(self, fn: ast.FunctionDef, closure: Optional[Dict[str, Any]] = None) -> Callable:
        decs = [ast.unparse(d.func if isinstance(d, ast.Call) else d).split(".")[-1] for d in fn.decorator_list]
        memo = any(d in ("cache", "lru_cache") for d in decs)
        if [d for d in decs if d not in ("cache", "lru_cache")]:
            def bad(*a, **k):
                raise Unknown(f"decorator of {fn.name} is not modelled")
            return bad

        lazy = _is_generator(fn)

        def call(*args, **kw):
            if lazy and not memo:
                # a generator function: the call binds the arguments and runs nothing; the body runs while the result is iterated
                env = dict(self.module_env)
                env.update(closure or {})
                self.bind(fn, args, kw, env)
                g = GenStub(self, fn, args, kw, closure)
                self.world.gens.append(g)
                return g
            if lazy:
                raise Unknown(f"memoised generator function {fn.name}")
            if memo:
                key = (fn.name, args, tuple(sorted(kw.items())))
                hash(key)
                if key in self.world.memo:
                    self.world.events.append(("memo-hit", fn.name, fn.lineno, decs[0]))
                    return self.world.memo[key]
            r = self.call_function(fn, args, kw, closure)
            if memo:
                self.world.memo[key] = r
            return r

        call._interpreted = True  # type: ignore[attr-defined]
        call.__name__ = fn.name
        return call

    def bind(self, fn: ast.FunctionDef, args: Sequence[Any], kw: Dict[str, Any], env: Dict[str, Any]) -> Dict[str, Any]:
        a = fn.args
        if a.vararg or a.kwarg:
            raise Unknown(f"signature of {fn.name} (*args/**kwargs)")
        params = [x.arg for x in a.posonlyargs + a.args]
        if len(args) > len(params):
            raise TypeError(f"{fn.name}() takes {len(params)} positional arguments but {len(args)} were given")
        out = dict(zip(params, args))
        for k, v in kw.items():
            if k in out:
                raise TypeError(f"{fn.name}() got multiple values for argument '{k}'")
            if k not in params and k not in [x.arg for x in a.kwonlyargs]:
                raise TypeError(f"{fn.name}() got an unexpected keyword argument '{k}'")
            out[k] = v
        folder = XFolder(self.repo, M, env)
        defaults = dict(zip(params[len(params) - len(a.defaults) :], a.defaults))
        for x, d in zip(a.kwonlyargs, a.kw_defaults):
            if d is not None:
                defaults[x.arg] = d
        for p in params + [x.arg for x in a.kwonlyargs]:
            if p not in out:
                if p not in defaults:
                    raise TypeError(f"{fn.name}() missing required argument '{p}'")
                key = (fn.name, fn.lineno, p)
                shared = self.funcs.get(fn.name) is fn  # a module-level def runs once per process: every call gets the same default object
                if shared and key in self.world.defaults:
                    out[p] = self.world.defaults[key]
                    continue
                try:
                    out[p] = folder.fold(defaults[p])
                except NotConst as ex:
                    raise Unknown(f"default of {fn.name}({p}): {ex}")
                if shared:
                    self.world.defaults[key] = out[p]
                    if type(out[p]) in (dict, list, set, HSet):
                        self.world.defaults_init[key] = copy.deepcopy(out[p])
        return out

    def call_function(self, fn: ast.FunctionDef, args: Sequence[Any], kw: Dict[str, Any], closure: Optional[Dict[str, Any]] = None, gen: Any = None) -> Any:
        if self.depth > 12:
            raise Unknown("call depth")
        env = dict(self.module_env)
        env.update(closure or {})
        env.update(self.bind(fn, args, kw, env))
        self.entered[fn.name] = fn
        ev = FuncEval(self, env)
        ev.gen = gen
        self.depth += 1
        try:
            kind, val = ev.run(_body(fn))
        finally:
            self.depth -= 1
        if kind in ("continue", "break"):
            raise Unknown(f"`{kind}` outside a loop")
        return val if kind == "return" else None


def _is_generator(fn: ast.FunctionDef) -> bool:
    stack: List[ast.AST] = list(fn.body)
    while stack:
        n = stack.pop()
        if isinstance(n, (ast.Yield, ast.YieldFrom)):
            return True
        if isinstance(n, (ast.FunctionDef, ast.AsyncFunctionDef, ast.Lambda, ast.ClassDef)):
            continue
        stack.extend(ast.iter_child_nodes(n))
    return False


class _GenClose(BaseException):
    pass


class GenStub:
    """Generator object of the evaluated program, with the laziness of the language: nothing of the body runs before the
    first next(), the body is suspended at every `yield` until the consumer asks again, a generator that is never iterated
    never runs.  The body is interpreted in a thread of its own that runs only while the consumer waits in next() (strict
    hand-over, never two at a time), so effects of body and consumer interleave exactly as they do in the program."""

    def __init__(self, rt: "Runtime", fn: ast.FunctionDef, args, kw, closure):
        import threading

        self.rt, self.fn, self.args, self.kw, self.closure = rt, fn, args, kw, closure
        self.started = self.done = self.closing = False
        self.item: Any = None
        self.exc: Optional[BaseException] = None
        self.to_gen, self.to_consumer = threading.Semaphore(0), threading.Semaphore(0)

    def __iter__(self):
        return self

    def __next__(self):
        import threading

        if self.done:
            raise StopIteration
        if not self.started:
            self.started = True
            threading.Thread(target=self._run, daemon=True).start()
        else:
            self.to_gen.release()
        self.to_consumer.acquire()
        if self.exc is not None:
            e, self.exc = self.exc, None
            raise e
        if self.done:
            raise StopIteration
        return self.item

    def _run(self) -> None:
        try:
            self.rt.call_function(self.fn, self.args, self.kw, self.closure, gen=self)
        except _GenClose:
            pass
        except BaseException as ex:  # the program's exception (or 'not evaluable'): it surfaces in the consumer's next()
            self.exc = ex
        self.done = True
        self.to_consumer.release()

    def emit(self, v: Any) -> None:
        """`yield v` (runs in the generator's thread): hand the value over and wait for the next request."""
        self.item = v
        self.to_consumer.release()
        self.to_gen.acquire()
        if self.closing:
            raise _GenClose()

    def close(self) -> None:
        if self.started and not self.done:
            self.closing = True
            self.to_gen.release()
            self.to_consumer.acquire()
        self.done = True


def _body(fn: ast.FunctionDef) -> List[ast.stmt]:
    return [s for s in fn.body if not (isinstance(s, ast.Expr) and isinstance(s.value, ast.Constant))]


class FuncEval(BlockEval):
    def __init__(self, rt: Runtime, env: Dict[str, Any]):
        super().__init__(rt.repo, M, env, max_steps=20000)
        self.rt = rt
        self.exc: List[BaseException] = []
        self.gen: Any = None  # the generator object whose body this is

    def fold(self, e: ast.AST) -> Any:
        f = XFolder(self.repo, self.module, self.env)
        try:
            v = f.fold(e)
        except NotConst as ex:
            raise Unknown(f"`{norm_(e)}`: {ex}")
        except RecursionError:
            raise Unknown("recursion")
        for k in getattr(f, "_walrus", ()):
            self.env[k] = f.local[k]
        return v

    def _block(self, block: Sequence[ast.stmt]) -> None:
        for st in block:
            self.rt.steps += 1
            if self.rt.steps > 40000:
                raise Unknown("too many steps")
            self.rt.cov.add(st)
            self.rt.world.line = getattr(st, "lineno", None)
            self._stmt(st)

    def _assign(self, t: ast.AST, v: Any) -> None:
        if isinstance(t, ast.Subscript):
            base = self.fold(t.value)
            if type(base) not in (list, dict) and not isinstance(base, CategoryStub):
                raise Unknown(f"store into `{norm_(t.value)}`")
            if isinstance(t.slice, ast.Slice):
                if type(base) is not list:
                    raise Unknown("slice assignment")
                lo, hi, step = (self.fold(x) if x is not None else None for x in (t.slice.lower, t.slice.upper, t.slice.step))
                base[lo:hi:step] = list(v)
            else:
                base[self.fold(t.slice)] = v
        elif isinstance(t, ast.Attribute):
            base = self.fold(t.value)
            if isinstance(base, NamespaceStub):
                setattr(base, t.attr, v)
            else:
                raise Unknown(f"attribute store `{norm_(t)}`")
        elif isinstance(t, ast.Starred):
            raise Unknown("starred target")
        else:
            super()._assign(t, v)

    def _handler_matches(self, h: ast.ExceptHandler, ex: BaseException) -> bool:
        if h.type is None:
            return True
        for t in h.type.elts if isinstance(h.type, ast.Tuple) else [h.type]:
            name = ast.unparse(t).split(".")[-1]
            cls = getattr(builtins, name, None)
            if isinstance(cls, type) and issubclass(cls, BaseException):
                if isinstance(ex, cls):
                    return True
            elif type(ex).__name__ == name:
                return True
        return False

    def _stmt(self, st: ast.stmt) -> None:
        if isinstance(st, ast.Expr) and isinstance(st.value, (ast.Yield, ast.YieldFrom)):
            if self.gen is None:
                raise Unknown("`yield` outside a generator body")
            if isinstance(st.value, ast.Yield):
                self.gen.emit(self.fold(st.value.value) if st.value.value is not None else None)
            else:
                for v in self.fold(st.value.value):
                    self.gen.emit(v)
        elif isinstance(st, ast.With):
            mgrs = []
            try:
                for it in st.items:
                    m = self.fold(it.context_expr)
                    if not hasattr(m, "_enter"):
                        raise Unknown(f"context manager `{norm_(it.context_expr)}`")
                    v = m._enter()
                    mgrs.append(m)
                    if it.optional_vars is not None:
                        self._assign(it.optional_vars, v)
                self._block(st.body)
            finally:
                for m in reversed(mgrs):
                    m._exit()
        elif isinstance(st, ast.If):
            t = self.fold(st.test)
            self.rt.world.events.append(("if", st.lineno, bool(t), norm_(st.test)))  # trace for explanations, never for a verdict
            self._block(st.body if t else st.orelse)
        elif isinstance(st, ast.For):
            it = self.fold(st.iter)
            try:
                it = iter(it)
            except TypeError:
                raise TypeError(f"'{type(it).__name__}' object is not iterable")
            broke = False
            for item in it:
                self._assign(st.target, item)
                try:
                    self._block(st.body)
                except _Stop as s:
                    if s.kind == "continue":
                        continue
                    if s.kind == "break":
                        broke = True
                        break
                    raise
            if not broke:
                self._block(st.orelse)
        elif isinstance(st, ast.While):
            n = 0
            while self.fold(st.test):
                n += 1
                if n > 2000:
                    raise Unknown("while loop does not end")
                try:
                    self._block(st.body)
                except _Stop as s:
                    if s.kind == "continue":
                        continue
                    if s.kind == "break":
                        break
                    raise
            else:
                self._block(st.orelse)
        elif isinstance(st, ast.Raise):
            if st.exc is None:
                if not self.exc:
                    raise RuntimeError("No active exception to reraise")
                raise self.exc[-1]
            e = self.fold(st.exc)
            if isinstance(e, type) and issubclass(e, BaseException):
                e = e()
            if not isinstance(e, BaseException):
                raise Unknown(f"raise of `{norm_(st.exc)}`")
            raise e
        elif isinstance(st, ast.Assert):
            if not self.fold(st.test):
                raise AssertionError(norm_(st.test))
        elif isinstance(st, ast.Try):
            try:
                try:
                    self._block(st.body)
                except (_Stop, Unknown):
                    raise
                except BaseException as ex:
                    if isinstance(ex, (KeyboardInterrupt, RecursionError, MemoryError)):
                        raise
                    for h in st.handlers:
                        if self._handler_matches(h, ex):
                            self.rt.world.events.append(("caught", type(ex).__name__, _scrub(str(ex))[:80], self.rt.world.line, h.lineno, "except" + (" " + norm_(h.type) if h.type is not None else "")))
                            if h.name:
                                self.env[h.name] = ex
                            self.exc.append(ex)
                            try:
                                self._block(h.body)
                            finally:
                                self.exc.pop()
                            break
                    else:
                        raise
                else:
                    self._block(st.orelse)
            finally:
                if st.finalbody:
                    self._block(st.finalbody)
        elif isinstance(st, ast.Expr):
            if isinstance(st.value, ast.Call):
                f = st.value.func
                if ast.unparse(f).split(".")[0] in ("logging", "logger", "warnings") and ast.unparse(f).split(".")[0] not in self.env:
                    return
                self.fold(st.value)
            elif isinstance(st.value, (ast.Constant, ast.Name)):
                pass
            else:
                self.fold(st.value)
        elif isinstance(st, ast.FunctionDef):
            self.env[st.name] = self.rt.callable_of(st, closure=self.env)
        elif isinstance(st, ast.AugAssign) and not isinstance(st.target, ast.Name):
            if isinstance(st.target, ast.Subscript):
                load = copy.deepcopy(st.target)
                load.ctx = ast.Load()
                self._assign(st.target, self.fold(ast.fix_missing_locations(ast.BinOp(left=load, op=st.op, right=st.value))))
            else:
                raise Unknown("augmented assignment target")
        elif isinstance(st, ast.AugAssign):
            load = ast.Name(id=st.target.id, ctx=ast.Load())
            cur = self.env.get(st.target.id)
            if type(cur) is list and isinstance(st.op, (ast.Add, ast.Mult)):
                # in place, as the language does it: every alias of the list sees the change
                v = self.fold(st.value)
                if isinstance(st.op, ast.Add):
                    cur.extend(v)
                else:
                    cur[:] = cur * v
            elif type(cur) in (dict, set, HSet) and isinstance(st.op, (ast.BitOr, ast.BitAnd, ast.Sub, ast.BitXor)):
                v = self.fold(st.value)
                if isinstance(st.op, ast.BitOr):
                    cur.update(v)
                elif type(cur) is dict:
                    raise TypeError("unsupported operand type(s) for augmented assignment on dict")
                elif isinstance(st.op, ast.BitAnd):
                    cur.intersection_update(v)
                elif isinstance(st.op, ast.Sub):
                    cur.difference_update(v)
                else:
                    cur.symmetric_difference_update(v)
            else:
                self.env[st.target.id] = self.fold(ast.fix_missing_locations(ast.BinOp(left=load, op=st.op, right=st.value)))
        elif isinstance(st, ast.Assign) and len(st.targets) == 1 and isinstance(st.targets[0], ast.Name) and type(self.env.get(st.targets[0].id)) is list:
            old = self.env[st.targets[0].id]
            super()._stmt(st)
            new = self.env.get(st.targets[0].id)
            if new is not old and type(new) is list:
                self.rt.world.events.append(("rebound-list", st.targets[0].id, st.lineno, norm_(st), old))  # trace for explanations only
        elif isinstance(st, (ast.Import, ast.ImportFrom)):
            for a in st.names:
                v = self.rt._import(a.name if isinstance(st, ast.Import) else (st.module or ""), None if isinstance(st, ast.Import) else a.name)
                if v is None:
                    raise Unknown(f"import of {a.name}")
                self.env[(a.asname or a.name).split(".")[0]] = v
        elif isinstance(st, ast.Delete):
            for t in st.targets:
                if isinstance(t, ast.Subscript) and not isinstance(t.slice, ast.Slice):
                    base = self.fold(t.value)
                    if type(base) not in (list, dict):
                        raise Unknown(f"del `{norm_(t)}`")
                    del base[self.fold(t.slice)]
                elif isinstance(t, ast.Name) and t.id in self.env:
                    del self.env[t.id]
                else:
                    raise Unknown(f"del `{norm_(t)}`")
        elif isinstance(st, (ast.Global, ast.Nonlocal)):
            raise Unknown("global / nonlocal state")
        else:
            super()._stmt(st)


# ---------------------------------------------------------------------------------------------------------------------
# running one representative
# ---------------------------------------------------------------------------------------------------------------------
class Outcome:
    def __init__(self, kind: str, value: Any = None, world: Optional[World] = None):
        self.kind, self.value, self.world = kind, value, world  # kind: 'return' | 'raise' | 'exit' | 'unknown'
        self.hint_line: Optional[int] = None  # line of the construct an explanation points at

    def __repr__(self):
        return f"{self.kind}:{self.value!r}"


def evaluate(repo, tree: ast.Module, fname: str, args: Sequence[Any], kw: Dict[str, Any], world: World, cov: set, entered: dict, overrides: Optional[Dict[str, Any]] = None) -> Outcome:
    try:
        rt = Runtime(repo, tree, world, overrides, cov, entered)
        if fname not in rt.funcs:
            return Outcome("unknown", f"function {fname} not found", world)
        r = rt.module_env[fname](*args, **kw)  # through its decorators (a memoised anchor is called as its callers call it)
        if isinstance(r, GenStub):
            return Outcome("unknown", f"{fname} is a generator function", world)
        return Outcome("return", r, world)
    except Unknown as ex:
        return Outcome("unknown", str(ex), world)
    except SystemExit as ex:
        return Outcome("exit", ex.code, world)
    except RecursionError:
        return Outcome("unknown", "recursion", world)
    except Exception as ex:  # raised by the evaluated program (an interpreted builtin or a stub that models an error)
        return Outcome("raise", _scrub(f"{type(ex).__name__}: {ex}")[:160], world)
    finally:
        world.close_generators()


def _scrub(s: str) -> str:
    import re

    return re.sub(r" at 0x[0-9a-fA-F]+", "", s)


def uncovered(cov: set, fns: Sequence[ast.FunctionDef]) -> List[ast.stmt]:
    out = []
    for fn in fns:
        stack = list(_body(fn))
        while stack:
            st = stack.pop(0)
            if isinstance(st, (ast.Pass, ast.Global, ast.Nonlocal)) or (isinstance(st, ast.Expr) and isinstance(st.value, ast.Constant)):
                continue
            if st not in cov:
                out.append(st)
                continue  # the body of a statement that was never reached is not listed again
            # handlers are reached only by faults: not part of the coverage obligation
            for field in ("body", "orelse", "finalbody"):
                stack[0:0] = [s for s in getattr(st, field, []) if isinstance(s, ast.stmt) and not (isinstance(s, ast.Expr) and isinstance(s.value, ast.Constant))]
    return sorted(out, key=lambda s: s.lineno)


# ---------------------------------------------------------------------------------------------------------------------
# documents (representatives) and the definition the results are compared with
# ---------------------------------------------------------------------------------------------------------------------
def base_doc() -> list:
    return [
        ["B1", [
            ["head", ["x", "y"], [["1", "a"], ["2", "."]]],
            ["cat", ["a", "b", "c"], [["1", "p", "3"], ["4", ".", "6"], ["7", "?", "9"], ["8", "p", "two words"], ["5", "q", "it's"]]],
            ["tail", ["k"], [["v"]]],
        ]],
        ["B2", [["cat2", ["a", "b"], [["x", "y"]]]]],
    ]


def case_doc() -> list:
    """Names and values that differ only in letter case or by a surrounding blank: the library compares them exactly."""
    return [
        ["B1", [
            ["cat", ["a", "A", "b"], [["1", "2", "p"], ["3", "4", "P"], ["5", "6", " p"], ["7", "8", "p"], ["9", "0", "p "]]],
            ["Cat", ["a", "b"], [["x", "y"]]],
        ]],
    ]


def _find(doc, cat):
    if not doc:
        return None
    for c in doc[0][1]:
        if c[0] == cat:
            return c
    return None


def want_copy(doc, cat, src, dst):
    """None = the file is left untouched; else the edited document."""
    c = _find(doc, cat)
    if c is None or src not in c[1]:
        return None
    new = copy.deepcopy(doc)
    c = _find(new, cat)
    i = c[1].index(src)
    if dst not in c[1]:
        c[1].append(dst)
        for r in c[2]:
            r.append(r[i])
    else:
        j = c[1].index(dst)
        for r in c[2]:
            r[j] = r[i]
    return new


def want_replace(doc, cat, col, values):
    """None = untouched; else (edited document, mapping) or 'short' when the alphabet has too few symbols."""
    c = _find(doc, cat)
    if c is None or col not in c[1]:
        return None
    new = copy.deepcopy(doc)
    c = _find(new, cat)
    i = c[1].index(col)
    mapping: Dict[str, str] = {}
    for r in c[2]:
        if r[i] not in mapping:
            if len(mapping) >= len(values):
                return "short"
            mapping[r[i]] = values[len(mapping)]
        r[i] = mapping[r[i]]
    return new, mapping


def doc_diff(got, want, cat: str, src: Optional[str] = None, dst: Optional[str] = None) -> Optional[str]:
    """First difference between two documents, in words."""
    if got == want:
        return None
    if [b[0] for b in got] != [b[0] for b in want]:
        return f"data blocks become {[b[0] for b in got]} (expected {[b[0] for b in want]})"
    for (bn, gc), (_, wc) in zip(got, want):
        if [c[0] for c in gc] != [c[0] for c in wc]:
            return f"block {bn}: categories become {[c[0] for c in gc]} (expected {[c[0] for c in wc]})"
        for (cn, ga, gr), (_, wa, wr) in zip(gc, wc):
            here = "the edited category" if (cn == cat and bn == want[0][0]) else f"category `{cn}` of block {bn}, which must not change,"
            if ga != wa:
                return f"{here} has items {ga} (expected {wa})"
            if len(gr) != len(wr):
                return f"{here} has {len(gr)} rows (expected {len(wr)})"
            for k, (g, w) in enumerate(zip(gr, wr)):
                if g != w:
                    if len(g) != len(w):
                        return f"{here} row {k} becomes {g} (expected {w})"
                    for t, (x, y) in enumerate(zip(g, w)):
                        if x != y:
                            item = wa[t] if t < len(wa) else t
                            if cn == cat and item == dst and src is not None:
                                return f"row {k}: target item `{dst}` becomes {x!r} although the source item `{src}` holds {y!r}"
                            if cn == cat and item == dst:
                                return f"row {k}: item `{dst}` becomes {x!r} (expected {y!r})"
                            return f"{here} row {k}: item `{item}` becomes {x!r} (was {y!r}) - an item that is not the target changes"
    return "documents differ"


# ---------------------------------------------------------------------------------------------------------------------
# library rules
# ---------------------------------------------------------------------------------------------------------------------
def _tree(repo) -> ast.Module:
    return ast.parse(repo.module(M).source)


def _run_lib(repo, tree, fname, text, args, cov, entered, world=None) -> Outcome:
    return evaluate(repo, tree, fname, [text] + list(args), {}, world or World(), cov, entered)


def check_copy(chk, fi) -> Optional[str]:
    """copy_from_to evaluated on stub documents. Returns None when every representative could be evaluated, else why not."""
    repo = chk.repo
    tree = _tree(repo)
    cov: set = set()
    entered: dict = {}
    doc = base_doc()
    text = text_of(doc)
    why: Optional[str] = None
    # -- untouched classes ------------------------------------------------------------------------------------------
    exits = [
        ("the text holds no data block", "", ("cat", "a", "b")),
        ("the text holds no data block (blank)", "\n", ("cat", "a", "b")),
        ("the category is absent", text, ("nocat", "a", "b")),
        ("the source item is absent (target present)", text, ("cat", "zz", "b")),
        ("source and target items are absent", text, ("cat", "zz", "yy")),
        ("the category exists only with other letter case", text, ("CAT", "a", "b")),
        ("the source item exists only with other letter case", text, ("cat", "B", "a")),
    ]
    for tag, t, a in exits:
        o = _run_lib(repo, tree, fi.qualname, t, a, cov, entered)
        site = fi.where
        if o.kind == "unknown":
            why = why or f"{tag}: {o.value}"
            continue
        ok = o.kind == "return" and o.value == t
        chk.expect(ok, "early-exit-eval", site, f"{tag}: the input text itself is returned", f"{tag}: the file is not left untouched - " + (f"the call raises {o.value}" if o.kind != "return" else f"the result is {_short(o.value)} instead of the input text"), K(fi, f"exit-eval:{tag}"), found=_short(o.value))
    # -- edits ----------------------------------------------------------------------------------------------------------
    norows = [["B1", [["cat", ["a", "b"], []], ["tail", ["k"], [["v"]]]]]]
    edits = [
        ("existing target", doc, ("cat", "a", "c")),
        ("new target item; the source holds '.', '?' and repeated values", doc, ("cat", "b", "d")),
        ("existing target; the source holds '.' and '?'", doc, ("cat", "b", "a")),
        ("target before source; the source holds quoted / multi-word values", doc, ("cat", "c", "a")),
        ("source = target", doc, ("cat", "b", "b")),
        ("first category of the block", doc, ("head", "y", "x")),
        ("category without rows, new target", norows, ("cat", "a", "n")),
        ("categories and items that differ only in letter case", case_doc(), ("cat", "a", "A")),
        ("new target that differs from an item only in letter case", case_doc(), ("Cat", "b", "B")),
    ]
    for tag, d, a in edits:
        t = text_of(d)
        o = _run_lib(repo, tree, fi.qualname, t, a, cov, entered)
        if o.kind == "unknown":
            why = why or f"{tag}: {o.value}"
            continue
        want = want_copy(d, *a)
        bad = _judge_doc(o, want, a[0], a[1], a[2], t)
        chk.expect(bad is None, "edit-eval", _site(fi, (_event(o, "defaulted") or [None])[-1] or o.hint_line) if bad else fi.where, f"copy {a[1]} -> {a[2]} ({tag}): every row's target equals its source, nothing else changes, the written document contains the edit", f"copy {a[1]} -> {a[2]} in `{a[0]}` ({tag}): {bad}", K(fi, f"edit-eval:{tag}"), found=_short(o.value))
    # -- a second call in the same process starts from the text again ----------------------------------------------------------------
    seq = [
        ("copy a -> n1", ("cat", "a", "n1"), "a", "n1"),
        ("copy b -> n2 (another source)", ("cat", "b", "n2"), "b", "n2"),
        ("copy a -> n3 (the first source again, another target)", ("cat", "a", "n3"), "a", "n3"),
        ("copy a -> n1 (the first call again)", ("cat", "a", "n1"), "a", "n1"),
    ]
    why = why or _repeat_calls(chk, fi, repo, tree, text, seq, cov, entered)
    _coverage(chk, fi, tree, cov, entered, why)
    return why


def _disown(v: Any) -> None:
    """The caller owns what it was handed and may change it: mutable parts of a result are emptied after they were looked at."""
    for x in v if isinstance(v, tuple) else (v,):
        if type(x) in (dict, list, set, HSet):
            x.clear()


def _repeat_calls(chk, fi, repo, tree, text, seq, cov, entered) -> Optional[str]:
    """The calls of `seq` made one after the other in one process, on the same text; every call after the first is compared
    with the same call made as the only one of a fresh process: no state of an earlier call (a cache of parsed containers,
    a memoised result whose mutable part the caller changed, a module-level container) may reach a later one."""
    w = World()
    done: List[str] = []
    held: List[Any] = []
    for k, (label, args, src, dst) in enumerate(seq):
        n_ev = len(w.events)
        o = _run_lib(repo, tree, fi.qualname, text, args, cov, entered, w)
        if o.kind == "unknown":
            return f"repeated call: {o.value}"
        if k:
            fresh = _run_lib(repo, tree, fi.qualname, text, args, cov, entered)
            if fresh.kind == "unknown":
                return f"repeated call: {fresh.value}"
            hit = next((e for e in w.events[n_ev:] if e[0] == "memo-hit"), None)
            _repeat(chk, fi, o, fresh, "; ".join(done) + "; then " + label, args[0], src, dst, hit, k)
            _disown(fresh.value)
        held.append(o.value)
        if k == len(seq) - 2:
            # before the last call (the first call again) the caller changes what it was handed so far; until then it only keeps
            # the results, so both histories are seen: state that survives untouched results, and results that are shared
            for v in held:
                _disown(v)
        done.append(label)
    return None


def _repeat(chk, fi, second: Outcome, fresh: Outcome, what: str, cat, src, dst, hit: Optional[Tuple] = None, k: int = 1) -> None:
    """The same call as a later call of a process and as the only call of a fresh one: the results must agree."""
    same = second.kind == fresh.kind and second.value == fresh.value
    how = ""
    if not same:
        a, b = (second.value[0] if isinstance(second.value, tuple) and second.value else second.value), (fresh.value[0] if isinstance(fresh.value, tuple) and fresh.value else fresh.value)
        da, db = parse(a), parse(b)
        if a == b and isinstance(second.value, tuple) and isinstance(fresh.value, tuple) and len(second.value) == len(fresh.value) == 2:
            how = f"the document is the same but the returned mapping is {_short(second.value[1])} instead of {_short(fresh.value[1])}"
        else:
            how = (doc_diff(da, db, cat, src, dst) if da is not None and db is not None else None) or f"the result is {_short(second.value)} instead of {_short(fresh.value)}"
        if hit is not None:
            how += f" - the call gets the result of `{hit[1]}` (line {hit[2]}) from its `@{hit[3]}` instead of computing it again, and the object handed out the first time was changed since (the parsed containers are edited in place; a returned mapping belongs to the caller)"
        else:
            grown = [(k, v) for k, v in (second.world.defaults.items() if second.world is not None else []) if k in second.world.defaults_init and v != second.world.defaults_init[k]]
            if grown:
                (fname, line, par), v = grown[0]
                how += f" - the default value of parameter `{par}` of {fname} (line {line}) is one object per process (defaults are evaluated when the function is defined): it was changed by an earlier call and now holds {_short(v)} instead of {_short(second.world.defaults_init[(fname, line, par)])}"
                hit = ("default", fname, line)
            else:
                how += " - state of an earlier call (a cache, a module-level container) leaks into this one"
    chk.expect(same, "repeat-eval", _site(fi, hit[2]) if (hit is not None and not same) else fi.where, f"a call gives the same result late in a process as it gives in a fresh one ({what}): no state survives a call", f"calls with the same text in one process ({what}): the last call does not start from the text again - compared with the same call made in a fresh process, {how}", K(fi, f"repeat-eval:{k}"))


def _unchanged(o: Outcome, text: str) -> Optional[str]:
    """The function hands its input back although an edit is due: say so, and why when the events tell."""
    v = o.value[0] if isinstance(o.value, tuple) and o.value else o.value
    if o.kind != "return" or v != text:
        return None
    ev = [e[0] for e in o.world.events] if o.world is not None else []
    if "parse-empty" not in ev and "serialise" in ev:
        return None  # the document was parsed, edited and written again: the difference is in the edit itself
    why = ""
    for e in o.world.events if o.world is not None else []:
        if e[0] == "parse-empty":
            why = " - the adapter parsed an empty temporary file (the text was written but not flushed to the path before it was read)" if e[2] else " - the adapter was pointed at a temporary file that no longer exists (it is deleted when its `with` block ends)"
            break
    return "the input text is returned unchanged although the category and the item exist: the edit is not made" + why


def _judge_doc(o: Outcome, want, cat, src, dst, text: Optional[str] = None) -> Optional[str]:
    if o.kind != "return":
        return f"the call raises {o.value}"
    if text is not None and parse(text) != want and _unchanged(o, text):
        return _unchanged(o, text)
    got = parse(o.value)
    if got is None:
        return f"the result {_short(o.value)} is not the serialised document"
    d = doc_diff(got, want, cat, src, dst)
    if d is not None:
        d += _row_hint(o, got, want, cat) + _alias_hint(o, got, cat)
        e = _event(o, "defaulted")
        if e is not None:
            d += f" - DataCategory.getValueOrDefault('{e[1]}', {e[2]}) hands out its default {e[4]!r} for the stored value {e[3]!r}: it treats '.', '?' and None as missing values, so mmCIF null markers are rewritten on the way"
    return d


def _alias_hint(o: Outcome, got, cat) -> str:
    """Explanation only: the written category declares fewer items than its rows have values - an item was added to a list
    that is not the category's own."""
    g = _find(got, cat)
    if not g or o.world is None or not any(len(r) > len(g[1]) for r in g[2]):
        return ""
    out = f" - the rows of the written category have {max(len(r) for r in g[2])} values but only {len(g[1])} items are declared: the new item was added to a list that is not the category's own attribute list (only edits of the lists getAttributeList() / getRowList() hand out reach the writer; DataCategory(<object>, ...) with replace() installs nothing)"
    for e in o.world.events:
        if e[0] == "rebound-list" and any(e[4] is c._attributeNameList for c in o.world.categories):
            o.hint_line = e[2]
            out += f"; `{e[3]}` (line {e[2]}) binds `{e[1]}` to a new list, the category's list is no longer the one that is edited"
            break
    return out


def _row_hint(o: Outcome, got, want, cat) -> str:
    """Explanation only: a test that is evaluated once per row and separates exactly the rows that come out wrong from the others."""
    g, w = _find(got, cat), _find(want, cat)
    if not g or not w or len(g[2]) != len(w[2]) or o.world is None:
        return ""
    n = len(w[2])
    bad = [k for k in range(n) if g[2][k] != w[2][k]]
    if not bad or len(bad) == n:
        return ""
    by_test: Dict[Tuple[int, str], List[bool]] = {}
    for e in o.world.events:
        if e[0] == "if":
            by_test.setdefault((e[1], e[3]), []).append(e[2])
    for (line, src), outs in sorted(by_test.items()):
        if len(outs) == n and len({outs[k] for k in bad}) == 1 and all(outs[k] != outs[bad[0]] for k in range(n) if k not in bad):
            o.hint_line = line
            return f" - the rows that come out wrong ({', '.join(str(k) for k in bad)}) are exactly the rows for which `{src}` (line {line}) is {outs[bad[0]]}: the edit depends on the value of the row"
    return ""


def _event(o: Outcome, kind: str) -> Optional[Tuple]:
    return next((e for e in (o.world.events if o.world is not None else []) if e[0] == kind), None)


def _site(fi, line: Optional[int]) -> str:
    return f"{fi.module.relpath}:{line} {fi.qualname}" if line else fi.where


def _short(v: Any, limit: int = 90) -> str:
    import re

    s = re.sub(r" at 0x[0-9a-fA-F]+", "", re.sub(r"<checks\.c20e\.(\w+) object at 0x[0-9a-fA-F]+>", r"<\1>", repr(v)))
    return s if len(s) <= limit else s[: limit - 3] + "..."


def _coverage(chk, fi, tree, cov, entered, why) -> None:
    if why is not None:
        return
    fns = [s for s in tree.body if isinstance(s, ast.FunctionDef) and (s.name == fi.qualname or s.name in entered)]
    miss = uncovered(cov, fns)
    if miss:
        chk.error("eval-coverage", fi.site(miss[0]), f"`{norm_(miss[0])}` (and {len(miss) - 1} more statement(s)) is not reached by any representative of the input partition: that part of {fi.qualname} is not decided")
    else:
        chk.ok("eval-coverage", fi.where, f"every statement of {', '.join(sorted(f.name for f in fns))} is reached by at least one representative")


def check_replace(chk, fi) -> Optional[str]:
    repo = chk.repo
    tree = _tree(repo)
    cov: set = set()
    entered: dict = {}
    doc = base_doc()
    text = text_of(doc)
    why: Optional[str] = None
    exits = [
        ("the text holds no data block", "", ("cat", "b", "XYZ")),
        ("the category is absent", text, ("nocat", "b", "XYZ")),
        ("the item is absent", text, ("cat", "zz", "XYZ")),
        ("the category exists only with other letter case", text, ("Cat", "b", "XYZ")),
        ("the item exists only with other letter case", text, ("cat", "B", "XYZ")),
    ]
    for tag, t, a in exits:
        o = _run_lib(repo, tree, fi.qualname, t, a, cov, entered)
        if o.kind == "unknown":
            why = why or f"{tag}: {o.value}"
            continue
        ok = o.kind == "return" and isinstance(o.value, tuple) and len(o.value) == 2 and o.value[0] == t and o.value[1] == {}
        chk.expect(ok, "early-exit-eval", fi.where, f"{tag}: (the input text itself, empty mapping) is returned", f"{tag}: the file is not left untouched - " + (f"the call raises {o.value}" if o.kind != "return" else f"the result is {_short(o.value)} instead of (input text, {{}})"), K(fi, f"exit-eval:{tag}"), found=_short(o.value))
    edits = [
        ("repeated values, '.' and '?' are values like any other", doc, ("cat", "b", "WXYZ")),
        ("exactly as many symbols as distinct values", doc, ("cat", "a", "vwxyz")),
        ("alphabet not in code-point order: the symbols are handed out by position", doc, ("cat", "b", "zYx1")),
        ("first item of the first category", doc, ("head", "x", "0123")),
        ("a value equal to a symbol", [["B1", [["cat", ["a"], [["Y"], ["X"], ["Y"]]]]]], ("cat", "a", "XY")),
        ("category without rows", [["B1", [["cat", ["a", "b"], []]]]], ("cat", "a", "XY")),
        ("values that differ only in letter case or by a blank are distinct values", case_doc(), ("cat", "b", "WXYZ")),
        ("items that differ only in letter case", case_doc(), ("cat", "A", "0123456789")),
    ]
    for tag, d, a in edits:
        t = text_of(d)
        o = _run_lib(repo, tree, fi.qualname, t, a, cov, entered)
        if o.kind == "unknown":
            why = why or f"{tag}: {o.value}"
            continue
        want_doc, want_map = want_replace(d, *a)
        bad = _judge_replace(o, want_doc, want_map, a[0], a[1], t)
        chk.expect(bad is None, "edit-eval", _site(fi, o.hint_line) if bad else fi.where, f"replace `{a[1]}` with {a[2]!r} ({tag}): the item is the image of the first-seen mapping {want_map}, which is returned; nothing else changes", f"replace `{a[1]}` of `{a[0]}` with {a[2]!r} ({tag}): {bad}", K(fi, f"edit-eval:{tag}"), found=_short(o.value))
    # the default alphabet: as many distinct symbols as the signature promises, no blank
    try:
        rt = Runtime(repo, tree, World())
        b = rt.bind(rt.funcs[fi.qualname], ["t"], {}, rt.module_env)
        params = [x.arg for x in rt.funcs[fi.qualname].args.args]
        vals = [b[params[3]]] if len(params) > 3 and params[3] in b else []
        if vals:
            v = vals[0]
            ok = isinstance(v, str) and len(set(v)) == len(v) and len(v) > 0 and not any(ch.isspace() for ch in v)
            chk.expect(ok, "default-alphabet", fi.where, f"the default alphabet has {len(v)} distinct non-blank symbols", f"the default alphabet {v!r} has repeated or blank symbols: two values get the same image, or an image that is not one mmCIF token", K(fi, "default-alphabet"))
    except (Unknown, Exception) as ex:
        why = why or f"defaults: {ex}"
    # -- more distinct values than symbols: the call must fail, or the substitution must still be total and injective ---------
    short = [
        ("more distinct values than symbols", doc, ("cat", "b", "XY")),
        ("more distinct values than symbols; a surplus value equals a symbol", [["B1", [["cat", ["a"], [["p"], ["q"], ["X"], ["p"]]]]]], ("cat", "a", "XY")),
        ("empty alphabet", doc, ("cat", "b", "")),
    ]
    for tag, d, a in short:
        t = text_of(d)
        o = _run_lib(repo, tree, fi.qualname, t, a, cov, entered)
        if o.kind == "unknown":
            why = why or f"{tag}: {o.value}"
            continue
        c = _find(d, a[0])
        col = [r[c[1].index(a[1])] for r in c[2]]
        distinct = list(dict.fromkeys(col))
        if o.kind != "return":
            chk.ok("mapping-total", fi.where, f"{len(distinct)} distinct values, alphabet {a[2]!r} ({tag}): the call fails ({o.value}) - no partly substituted file is produced")
            continue
        bad = _judge_total(o, d, a[0], a[1], col, a[2])
        site = fi.where
        c = _event(o, "caught")
        if bad is not None and c is not None:
            bad += f" - `{c[5]}` (line {c[4]}) swallows the {c[1]} ({c[2]}) raised at line {c[3]}, so running out of symbols no longer stops the call"
            site = _site(fi, c[4])
        chk.expect(bad is None, "mapping-total", site, f"{len(distinct)} distinct values, alphabet {a[2]!r} ({tag}): the result is still a total injective substitution into the alphabet", f"item `{a[1]}` has {len(distinct)} distinct values {distinct} but the alphabet {a[2]!r} only {len(a[2])} symbols ({tag}); the call returns normally and {bad}", K(fi, f"mapping-total:{tag}"), found=_short(o.value))
    seq = [
        ("replace b with 'WXYZ'", ("cat", "b", "WXYZ"), None, "b"),
        ("replace a with 'vwxyz' (another item)", ("cat", "a", "vwxyz"), None, "a"),
        ("replace b with 'ZYXW' (the first item again, another alphabet)", ("cat", "b", "ZYXW"), None, "b"),
        ("replace b with 'WXYZ' (the first call again)", ("cat", "b", "WXYZ"), None, "b"),
    ]
    why = why or _repeat_calls(chk, fi, repo, tree, text, seq, cov, entered)
    _coverage(chk, fi, tree, cov, entered, why)
    return why


def _judge_replace(o: Outcome, want_doc, want_map, cat, col, text: Optional[str] = None) -> Optional[str]:
    if o.kind != "return":
        return f"the call raises {o.value}"
    if text is not None and parse(text) != want_doc and _unchanged(o, text):
        return _unchanged(o, text)
    if not (isinstance(o.value, tuple) and len(o.value) == 2):
        return f"the result {_short(o.value)} is not (text, mapping)"
    got = parse(o.value[0])
    if got is None:
        return f"the first component {_short(o.value[0])} is not the serialised document"
    d = doc_diff(got, want_doc, cat, None, col)
    if d is not None:
        if o.value[1] == want_map and _find(got, cat) and _find(want_doc, cat) and _find(got, cat)[1] == _find(want_doc, cat)[1]:
            d += f" - the returned mapping {_short(want_map)} is the first-seen mapping, but the item is not its image: a cell was substituted more than once (substitutions applied one after the other on the live column instead of at once per cell) or not at all"
        return d + _row_hint(o, got, want_doc, cat)
    if o.value[1] != want_map:
        return f"the returned mapping is {o.value[1]!r}, the substitution that was applied is {want_map!r}"
    return None


def _judge_total(o: Outcome, doc, cat, col, old: List[str], values: str = "") -> Optional[str]:
    """A normal return although the item has more distinct values than the alphabet has symbols.  The result must be the
    image of a total, injective mapping into the alphabet - which cannot exist (pigeonhole): the reason found first is named."""
    if not (isinstance(o.value, tuple) and len(o.value) == 2 and isinstance(o.value[1], dict)):
        return f"the result {_short(o.value)} is not (text, mapping)"
    got = parse(o.value[0])
    mp = o.value[1]
    if got is None:
        return "the text is not the serialised document"
    c = _find(got, cat)
    if c is None or col not in c[1] or len(c[2]) != len(old):
        return "the category lost rows or the item"
    new = [r[c[1].index(col)] for r in c[2]]
    missing = [v for v in dict.fromkeys(old) if v not in mp]
    if missing:
        kept = [v for v, n in zip(old, new) if v in missing and n == v]
        return f"the returned mapping {mp!r} has no image for {missing}" + (f": these values are silently kept as they are, next to substituted ones (column becomes {new})" if kept else f" (column becomes {new})")
    if len(set(mp[v] for v in dict.fromkeys(old))) != len(set(old)):
        return f"the mapping {mp!r} is not injective: distinct values are merged (column becomes {new})"
    if new != [mp[v] for v in old]:
        return f"the column {new} is not the image of the returned mapping {mp!r}"
    outside = [v for v in dict.fromkeys(old) if not (isinstance(mp[v], str) and mp[v] in list(values))]
    if outside:
        kept = all(mp[v] == v for v in outside)
        return f"the values {outside} get the images {[mp[v] for v in outside]}, which are not symbols of the alphabet {values!r}" + (": they are kept as they are next to substituted ones, so the item is not the image of a mapping into the alphabet and a kept value can collide with a symbol handed out for another one" if kept else "") + f" (column becomes {new})"
    return None


# ---------------------------------------------------------------------------------------------------------------------
# CLI rule
# ---------------------------------------------------------------------------------------------------------------------
def _tag(name: str, fn: ast.FunctionDef, b: Dict[str, Any]) -> Tuple[Dict[str, Any], str]:
    order = [a.arg for a in fn.args.posonlyargs + fn.args.args + fn.args.kwonlyargs]
    b = {k: b[k] for k in order if k in b}
    # leading / trailing white space is part of what the library returns: the tool must write it as it is
    return b, f" <{name}(" + ", ".join(f"{k}={b[k]!r}" for k in b) + ")>\n\n"


def _lib_stub(world: World, rt_holder: list, name: str, fn: ast.FunctionDef, tuple_result: bool, identity: bool = False):
    """Stand-in for a library function.  It returns a text that names the arguments it received, or - `identity`, the class
    'category / item not found' of the real functions - the very text it was handed (and an empty mapping)."""

    def call(*args, **kw):
        rt: Runtime = rt_holder[0]
        b, text = _tag(name, fn, rt.bind(fn, args, kw, rt.module_env))
        ret = b[next(iter(b))] if identity and b else text
        world.lib_calls.append((name, b, text, ret))
        if identity:
            return (ret, {}) if tuple_result else ret
        return (text, {"<value>": "<symbol>"}) if tuple_result else text

    call._interpreted = True  # type: ignore[attr-defined]
    return call


def _expected_texts(tree, fname: str, content: str, opts: Dict[str, Any], repo) -> List[str]:
    """Texts the stub library returns for this content and these options: every option that was given is passed on as
    given; an option that was not given reaches the library either as None (argparse's default) or not at all (the
    library's own default applies)."""
    fn = {s.name: s for s in tree.body if isinstance(s, ast.FunctionDef)}[fname]
    rt = Runtime(repo, tree, World())
    params = [a.arg for a in fn.args.args]
    if len(params) < 4:
        raise Unknown(f"signature of {fname}")
    names = ["--category"] + (["--copy-from", "--copy-to"] if fname == "copy_from_to" else ["--replace", "--values"])
    out: List[str] = []
    missing = [n for n in names if n not in opts]
    for as_none in ([False, True] if missing else [False]):
        kw = {params[0]: content}
        for p, n in zip(params[1:4], names):
            if n in opts:
                kw[p] = opts[n]
            elif as_none:
                kw[p] = None
        t = _tag(fname, fn, rt.bind(fn, [], kw, rt.module_env))[1]
        if t not in out:
            out.append(t)
    return out


# (label, options given, acceptable results: library functions whose text may be written; None = the output is not touched)
CLI_CASES = [
    ("copy", {"--category": "cat", "--copy-from": "a", "--copy-to": "b"}, ["copy_from_to"]),
    ("copy, no --category", {"--copy-from": "a", "--copy-to": "b"}, ["copy_from_to"]),
    ("replace", {"--category": "cat", "--replace": "a", "--values": "XYZ"}, ["replace_value"]),
    ("replace, no --category", {"--replace": "a", "--values": "XYZ"}, ["replace_value"]),
    ("no action", {"--category": "cat"}, [None]),
    ("only --copy-from", {"--category": "cat", "--copy-from": "a"}, [None, "copy_from_to"]),
    ("only --copy-to", {"--category": "cat", "--copy-to": "b"}, [None, "copy_from_to"]),
    ("only --replace", {"--category": "cat", "--replace": "a"}, [None, "replace_value"]),
    ("only --values", {"--category": "cat", "--values": "XYZ"}, [None, "replace_value"]),
    ("copy and replace together", {"--category": "cat", "--copy-from": "a", "--copy-to": "b", "--replace": "a", "--values": "XYZ"}, ["copy_from_to", "replace_value", None]),
    # an option value is text the user chose: it reaches the library as it is.  Representatives on which the usual
    # "clean-ups" are visible: order other than code-point order, a repeated symbol, capitals, digits, blanks, punctuation
    ("replace, alphabet not in code-point order", {"--category": "cat", "--replace": "a", "--values": "zYx10b"}, ["replace_value"]),
    ("replace, alphabet with a repeated symbol", {"--category": "cat", "--replace": "a", "--values": "XYXZ"}, ["replace_value"]),
    ("replace, alphabet with blanks and punctuation", {"--category": "cat", "--replace": "a", "--values": " A,b;'C\" "}, ["replace_value"]),
    ("copy, names with capitals, digits, blanks and punctuation", {"--category": " Cat_2.x", "--copy-from": "B_item ", "--copy-to": "a.Item-1"}, ["copy_from_to"]),
    ("replace, names with capitals, digits, blanks and punctuation", {"--category": "Cat_2.x ", "--replace": " B_item", "--values": "XYZ"}, ["replace_value"]),
]
_CLI_OPTS = {"copy_from_to": ["--category", "--copy-from", "--copy-to"], "replace_value": ["--category", "--replace", "--values"]}


def _str_change(raw: Any, val: Any) -> str:
    """What happened to an option value on its way to the library, in words."""
    if not isinstance(val, str) or not isinstance(raw, str):
        return f"a {type(val).__name__} instead of the text"
    if sorted(raw) == sorted(val):
        return "the same symbols in another order"
    if set(raw) == set(val) and len(val) < len(raw):
        return "repeated symbols removed" + ("" if list(dict.fromkeys(raw)) == list(val) else " and the order changed")
    if raw.strip() == val:
        return "surrounding blanks removed"
    if raw.lower() == val.lower():
        return "letter case changed"
    if val in raw:
        return "shortened"
    return "another text"


def _arg_changes(w: "World", opts: Dict[str, Any]) -> List[Tuple[str, str, str, Any, Any]]:
    """(library function, option, parameter, given, received) for every option that was given and reaches the library changed."""
    out = []
    for name, b, _, _ in w.lib_calls:
        for p, n in zip(list(b)[1:4], _CLI_OPTS.get(name, [])):
            if n in opts and (type(b[p]) is not type(opts[n]) or b[p] != opts[n]):
                out.append((name, n, p, opts[n], b[p]))
    return out


def check_cli(chk, fi) -> Optional[str]:
    repo = chk.repo
    tree = _tree(repo)
    funcs = {s.name: s for s in tree.body if isinstance(s, ast.FunctionDef)}
    if "copy_from_to" not in funcs or "replace_value" not in funcs:
        return "library functions not found"
    cov: set = set()
    entered: dict = {}
    why: Optional[str] = None
    # classes of the library result: a new text / the input text itself ('left untouched': category or item not found) / the
    # empty text of an empty input file.  What the tool does with the result must not depend on which one it is.
    modes = [(False, text_of(base_doc()), ""), (True, text_of(base_doc()), "; the library returns the input text unchanged (category or item not found)"), (True, "", "; empty input file, the library returns the empty text"), (False, text_of(base_doc()), "; the output path does not exist yet")]
    for identity, content, mode_label in modes:
        fresh = "does not exist" in mode_label
        for inplace in ((False,) if fresh else (False, True)):
            for tag, opts, accept in CLI_CASES:
                w = World()
                inp = "doc.cif"
                outp = inp if inplace else "out.cif"
                w.files[inp] = content
                if not inplace and not fresh:
                    w.files[outp] = "<old content of the output file>"
                before = dict(w.files)
                w.argv = dict(opts, input=inp, output=outp)
                holder: list = []
                overrides = {"copy_from_to": _lib_stub(w, holder, "copy_from_to", funcs["copy_from_to"], False, identity), "replace_value": _lib_stub(w, holder, "replace_value", funcs["replace_value"], True, identity)}
                try:
                    rt = Runtime(repo, tree, w, overrides, cov, entered)
                    holder.append(rt)
                    o = Outcome("return", rt.call_function(rt.funcs[fi.qualname], [], {}), w)
                except Unknown as ex:
                    o = Outcome("unknown", str(ex), w)
                except SystemExit as ex:
                    o = Outcome("exit", ex.code, w)
                except RecursionError:
                    o = Outcome("unknown", "recursion", w)
                except Exception as ex:
                    o = Outcome("raise", _scrub(f"{type(ex).__name__}: {ex}")[:160], w)
                finally:
                    w.close_generators()
                if o.kind == "unknown":
                    why = why or f"{tag}: {o.value}"
                    continue
                rule = "cli-inplace-eval" if inplace else "cli-eval"
                label = f"{tag}{' (output path = input path)' if inplace else ''}{mode_label}"
                tag = tag + mode_label  # obligation keys
                # close what the program left open (interpreter exit flushes), then look at the files
                w.shutdown()
                final = dict(w.files)
                want: List[Optional[str]] = []
                try:
                    for a in accept:
                        if a is None:
                            want.append(None)
                        else:
                            want.extend(_expected_texts(tree, a, content, opts, repo))
                except (Unknown, TypeError) as ex:
                    why = why or f"{tag}: signature of the library function: {ex}"
                    continue
                got = final.get(outp)
                untouched = got == before.get(outp)
                if identity and w.lib_calls:
                    # the library was called: with the arguments that were given, and the file holds what it returned (= the input text)
                    okay = o.kind == "return" and got == w.lib_calls[-1][3] and w.lib_calls[-1][2] in [x for x in want if x is not None]
                elif identity:
                    okay = None in want and untouched
                else:
                    okay = (got in [x for x in want if x is not None] and o.kind == "return") or (None in want and untouched)
                if not inplace and final.get(inp) != content:
                    chk.violation(rule, fi.where, f"{label}: the input file is modified (now {_short(final.get(inp))})", K(fi, f"{rule}:input:{tag}"))
                    continue
                if okay:
                    what = "the output file holds exactly the text the library returns for the content of the input file and the given options" if (w.lib_calls if identity else (not untouched or None not in want)) else "nothing is transformed and the output file is not touched"
                    chk.ok(rule, fi.where, f"{label}: {what}")
                    continue
                tr = next((e for e in w.events if e[0] == "truncate" and e[1] == outp), None)
                rd = next((i for i, e in enumerate(w.events) if e[0] == "read" and e[1] == inp), None)
                early = tr is not None and (rd is None or w.events.index(tr) < rd)
                changed = _arg_changes(w, opts)
                conv = next((e for e in w.events if e[0] == "converted" and changed and e[1] == changed[0][1]), None)
                msg = _explain_cli(o, w, got, want, before, inp, outp, content, inplace, opts)
                site = _site(fi, tr[2]) if early else (_site(fi, conv[4]) if conv is not None else _site(fi, o.hint_line))
                chk.violation(rule, site, f"{label}: " + msg, K(fi, f"{rule}:{tag}"), expected=[_brief(x) for x in want] if not (identity and w.lib_calls) else [_brief(w.lib_calls[-1][3])], found=_brief(got))
    if why is None:
        miss = uncovered(cov, [f for n, f in funcs.items() if n == fi.qualname or (n in entered and n not in ("copy_from_to", "replace_value"))])
        if miss:
            chk.error("eval-coverage", fi.site(miss[0]), f"`{norm_(miss[0])}` (and {len(miss) - 1} more statement(s)) is not reached by any representative command line: that part of {fi.qualname} is not decided")
        else:
            chk.ok("eval-coverage", fi.where, f"every statement of {fi.qualname} is reached by at least one representative command line")
    return why


def _brief(v: Any) -> str:
    """A file content for the evidence: the document text inside a library-stub result is named, not spelled out."""
    import re

    if isinstance(v, str):
        v = re.sub(r"=(['\"])" + re.escape(MAGIC) + r".*?\\n\1", "=<the text of the input file>", v)
    return _short(v, 170)


def _explain_cli(o: Outcome, w: World, got, want, before, inp, outp, content, inplace, opts: Optional[Dict[str, Any]] = None) -> str:
    ev = w.events
    first = lambda kind, path: next((i for i, e in enumerate(ev) if e[0] == kind and len(e) > 1 and e[1] == path), None)
    tr, rd = first("truncate", outp), first("read", inp)
    calls = w.lib_calls
    head = ""
    if o.kind == "raise":
        head = f"the tool fails with {o.value}; "
        if "write() argument must be str" in str(o.value):
            head = f"the tool writes a value that is not the text component of the library result ({o.value}; replace_value returns a (text, mapping) tuple); "
    elif o.kind == "exit":
        head = f"the tool exits with status {o.value}; "
    wrong_content = [c for c in calls if c[1].get(next(iter(c[1]))) != content]
    if inplace and tr is not None and (rd is None or tr < rd):
        return head + f"the output path is opened for writing before the input is read: opening truncates the file, so with output == input the document is already empty when it is read (the library receives {_short(wrong_content[0][1][next(iter(wrong_content[0][1]))]) if wrong_content else 'nothing'}) and the file ends as {_short(got)} instead of the library result for the original content"
    if wrong_content:
        c = wrong_content[0]
        p = next(iter(c[1]))
        return head + f"{c[0]} receives {_short(c[1][p])} as `{p}`, which is not the text of the input file"
    if None in want and len(want) == 1:
        return head + f"no action was requested, yet the output file changes from {_short(before.get(outp))} to {_short(got)}" + (" (it is opened for writing - truncated - although nothing is transformed)" if tr is not None else "")
    if not calls:
        return head + f"no library function is called for these options; the output file holds {_short(got)}"
    if tr is not None and rd is not None and tr < rd and not inplace:
        pass
    texts = [c[3] for c in calls]  # what the library returned
    changed = _arg_changes(w, opts or {})
    if changed and (got in texts or o.kind != "return"):
        name, n, p, raw, val = changed[0]
        conv = next((e for e in ev if e[0] == "converted" and e[1] == n), None)
        how = f" - `add_argument({n!r}, type={conv[5]})` (line {conv[4]}) converts the text while the arguments are parsed" if conv is not None else ""
        return head + f"option `{n} {raw!r}` reaches {name} as {p}={_short(val)} ({_str_change(raw, val)}){how}: the file written is not what {name} returns for the arguments that were given"
    if (got in texts and not all(c[3] is not c[2] and c[3] == got for c in calls)) or (isinstance(got, str) and got not in texts and any(t and t in got for t in texts)):
        if got in texts:
            return head + f"the library is called with other arguments than the command line gives: {_short(got)} (expected {_short(next(x for x in want if x is not None))})"
        return head + f"the output file holds {_short(got)}, which is not exactly the text the library returned ({_short(texts[-1])}): something else is written as well, or the old content is kept"
    if got == before.get(outp):
        last = next((e for e in reversed(ev) if e[0] == "if"), None)
        how = f" - the tool ends after `{last[3]}` (line {last[1]}) is {last[2]}: the result is written on some paths of the tool only" if (last is not None and o.kind in ("return", "exit")) else ""
        o.hint_line = last[1] if how else None
        return head + f"the library result {_short(texts[-1])} is not written: the output file {'still holds ' + _short(got) if got is not None else 'does not exist'}{how}"
    return head + f"the output file holds {_short(got)} instead of the library result {_short(texts[-1])}"
