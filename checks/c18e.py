"""C18, fact-level rules for the *users* of the torsion functions and for what a torsion function returns.

Every rule here decides a behaviour by evaluating the fragment that implements it (sa/evalx.py: statements read from the
ast, callees of the same class / local helpers interpreted, everything else a stub supplied by the rule) on one
representative per class of input, and compares the outcome with the IUPAC table (spec/iupac_torsions.json):

* chi of tertiary.Residue3D          - base letter x which atoms the residue has  ->  the quadruple of atoms handed to
                                       torsion_angle (or NaN).  Rules chi-dispatch / chi-atoms.
* chi_class                          - NaN -> None; otherwise syn iff -30 < chi < 120 degrees, chi in radians
                                       (one sample per cell of the thresholds that occur).  Rule chi-class-units.
* tertiary_v2.Structure.torsion_angles - small stub segments (complete residues, residues with a missing atom, two
                                       segments, every residue name that occurs) -> per residue and angle the four
                                       (residue, atom) coordinates handed to calculate_torsion_angle in order, or no
                                       angle.  Rules backbone-atoms / chi-atoms / chi-bases / chi-agree.
* value returned after the atan2     - the tail of a torsion function on representatives of the atan2 value (and a
                                       structural proof that it is the identity).  Rule torsion-returned.
* inter-stem torsion (round 4)       - Mapping2D3D.calculate_inter_stem_parameters on stub stems: which pair of stem ends
                                       is closest x stem lengths -> the four centroids handed to the torsion function
                                       (neighbour, end, end, neighbour), the reported type, radians scored / degrees
                                       reported (conversions are tagged).  Rules interstem-points / interstem-units.
* lookups (round 4)                  - tertiary_v2.Residue.find_atom + Atom.coordinates on stub frames: what was looked
                                       up before x (coordinates changed in place | frame replaced) -> the coordinates a
                                       later lookup returns must be the current ones.  Rule lookup-current-state.

The shape of the code does not matter (if-chain, definition table walked by a loop, merged helper, local helper with
early returns, conditional expressions).  Only when a fragment is *not evaluable* the pinned-form reading of the same
behaviour (copied from checks/c15.py:check_chi as of round 2) is used as a fallback.
"""
from __future__ import annotations

import ast
import copy
import math
from typing import Any, Dict, List, Optional, Sequence, Tuple

from checks.c03 import K, spec
from checks.c08 import flat
from sa import astq, intervals
from sa.blockeval import Unknown
from sa.consteval import Folder
from sa.evalx import BlockEvalX, ClassStub, Stub, instance_dict, set_attribute
from sa.model import norm

T1, T2 = "tertiary", "tertiary_v2"

SUGAR = ["P", "OP1", "OP2", "O5'", "C5'", "C4'", "O4'", "C3'", "O3'", "C2'", "O2'", "C1'"]
PURINE_RING = ["N9", "C8", "N7", "C5", "C6", "N1", "C2", "N3", "C4", "N6", "O6", "N2"]
PYRIMIDINE_RING = ["N1", "C2", "O2", "N3", "C4", "N4", "O4", "C5", "C6"]
PU_NAMES = ["A", "G", "DA", "DG"]
PY_NAMES = ["C", "U", "T", "DC", "DT"]
# not evaluable (limits of the stubs), as opposed to exceptions the analysed code itself would raise on real objects
_STUB_LIMITS = (TypeError, AttributeError)


class Tor(float):
    """Value of a stubbed torsion call: an ordinary float that remembers the four things it was computed from."""

    def __new__(cls, quad):
        o = float.__new__(cls, 1.25)
        o.quad = tuple(quad)
        return o


def _tor_stub(*args):
    if len(args) != 4:
        raise IndexError(f"torsion called with {len(args)} arguments")
    return Tor(getattr(a, "tag", a) for a in args)


def _np_stub() -> Stub:
    return Stub(
        "numpy",
        degrees=math.degrees,
        radians=math.radians,
        rad2deg=math.degrees,
        deg2rad=math.radians,
        float64=float,
        abs=abs,
        pi=math.pi,
        nan=math.nan,
    )


def _quad_text(q: Optional[Sequence[Any]]) -> str:
    if q is None:
        return "no angle"
    return "-".join(x if isinstance(x, str) else (f"{x[1]}({x[0]})" if isinstance(x, tuple) and len(x) == 2 else repr(x)) for x in q)


# ---------------------------------------------------------------------------------------------------------------------
# value returned after the atan2
# ---------------------------------------------------------------------------------------------------------------------
_VAL = "atan2_value__"


def _is_id(e: Optional[ast.AST], names: set) -> bool:
    if isinstance(e, ast.Name):
        return e.id in names
    if isinstance(e, ast.Call) and len(e.args) == 1 and not e.keywords and norm(e.func) in ("float", "numpy.float64", "np.float64"):
        return _is_id(e.args[0], names)
    return False


def _nan_test(t: ast.AST, names: set) -> Optional[bool]:
    """True: the test holds iff the value is NaN; False: iff it is not; None: something else."""
    if isinstance(t, ast.UnaryOp) and isinstance(t.op, ast.Not):
        r = _nan_test(t.operand, names)
        return None if r is None else (not r)
    if isinstance(t, ast.Call) and len(t.args) == 1 and norm(t.func) in ("math.isnan", "numpy.isnan", "np.isnan") and _is_id(t.args[0], names):
        return True
    if isinstance(t, ast.Compare) and len(t.ops) == 1 and _is_id(t.left, names) and _is_id(t.comparators[0], names):
        if isinstance(t.ops[0], ast.NotEq):
            return True
        if isinstance(t.ops[0], ast.Eq):
            return False
    return None


def _const_fallback(e: Optional[ast.AST]) -> bool:
    from sa.torsion import _is_fallback_value

    return _is_fallback_value(e)


def proves_identity(stmts: Sequence[ast.stmt], names: set, is_nan: Optional[bool] = None) -> bool:
    """Every path through the statements returns the value named by `names`, or a constant where the value is NaN."""
    names = set(names)
    for i, st in enumerate(stmts):
        rest = list(stmts[i + 1 :])
        if isinstance(st, ast.Expr):
            continue
        if isinstance(st, (ast.Assign, ast.AnnAssign)):
            tg = st.targets if isinstance(st, ast.Assign) else [st.target]
            val = st.value
            if len(tg) == 1 and isinstance(tg[0], ast.Name) and val is not None:
                if _is_id(val, names):
                    names.add(tg[0].id)
                else:
                    if tg[0].id in names:
                        return False
                continue
            return False
        if isinstance(st, ast.Return):
            v = st.value
            if _is_id(v, names):
                return True
            if isinstance(v, ast.IfExp):
                t = _nan_test(v.test, names)
                if t is None:
                    return False
                a = proves_identity([ast.Return(value=v.body)], names, t)
                b = proves_identity([ast.Return(value=v.orelse)], names, not t)
                return a and b
            return bool(is_nan) and _const_fallback(v)
        if isinstance(st, ast.If):
            t = _nan_test(st.test, names)
            if t is None:
                return False
            if is_nan is not None:
                # the branch is already decided
                taken = st.body if t == is_nan else st.orelse
                return proves_identity(list(taken) + rest, names, is_nan)
            return proves_identity(list(st.body) + rest, names, t) and proves_identity(list(st.orelse) + rest, names, not t)
        return False
    return False


def check_returned(chk, fi, res, module: str) -> None:
    """The function returns the atan2 value unchanged (radians, (-pi, pi]); only a NaN value may be replaced."""
    repo = chk.repo
    at_stmt, call = res["atan2_stmt"], res["atan2"]

    class _R(ast.NodeTransformer):
        def visit_Call(s, n):
            if n is call_copy:
                return ast.copy_location(ast.Name(id=_VAL, ctx=ast.Load()), n)
            s.generic_visit(n)
            return n

    # copy of (the statement holding the atan2) + (everything after it), the call replaced by a name
    idx_path = None
    blk = [at_stmt] + list(res["tail"])
    blk2 = copy.deepcopy(blk)
    orig = [n for n in ast.walk(blk[0])]
    cp = [n for n in ast.walk(blk2[0])]
    call_copy = None
    for a, b in zip(orig, cp):
        if a is call:
            call_copy = b
    if call_copy is None:
        chk.error("torsion-returned", fi.where, "atan2 call not located in its statement")
        return
    blk2[0] = ast.fix_missing_locations(_R().visit(blk2[0]))
    # 1. evaluation on representatives: a counterexample class is a violation whatever the shape of the tail
    consts = set()
    fold = Folder(repo, module)
    for st in blk2:
        for n in ast.walk(st):
            if isinstance(n, (ast.Constant, ast.Attribute, ast.Name, ast.Call, ast.BinOp, ast.UnaryOp)):
                v = fold.try_fold(n)
                if isinstance(v, (int, float)) and not isinstance(v, bool) and math.isfinite(v):
                    consts.add(float(v))
    samples = [-3.1, -2.0, -1.25, -1e-3, 0.0, 1e-3, 0.75, 2.0, 3.1]
    for c in sorted(consts):
        for v in (c - 0.01, c + 0.01, math.radians(c) - 0.01, math.radians(c) + 0.01):
            if -math.pi < v <= math.pi:
                samples.append(v)
    samples = sorted(set(round(v, 6) for v in samples))
    wrong: Dict[str, str] = {}
    evaluated = 0
    why_not = None
    try:
        for v in samples + [math.nan]:
            ev = BlockEvalX(repo, module, {_VAL: v, "np": _np_stub(), "numpy": _np_stub()})
            kind, got = ev.run(blk2)
            evaluated += 1
            if v != v:
                if kind != "return" or not (got is None or isinstance(got, (int, float))):
                    wrong["NaN"] = repr(got)
                continue
            if kind != "return" or not isinstance(got, (int, float)) or isinstance(got, bool) or got != v:
                wrong[f"{v:g}"] = repr(got) if kind == "return" else "nothing"
    except Unknown as ex:
        why_not = str(ex)
    except Exception as ex:
        why_not = f"{type(ex).__name__}: {ex}"
    if wrong:
        ex_k = sorted(wrong, key=lambda k: (k == "NaN", k))[:3]
        chk.violation(
            "torsion-returned",
            fi.where,
            "the function does not return the atan2 value unchanged (unit conversion, negation or offset after the atan2): " + "; ".join(f"for an atan2 value of {k} it returns {wrong[k]}" for k in ex_k),
            K(fi, "returned"),
            expected="the atan2 value (radians)",
            found={k: wrong[k] for k in ex_k},
        )
        return
    # 2. proof that the tail is the identity (only NaN may be replaced by a constant)
    if proves_identity(blk2, {_VAL}):
        chk.ok("torsion-returned", fi.where, f"the atan2 value (radians, in (-pi, pi]) is what the function returns on every path; only a NaN value may be replaced by a constant ({evaluated} representative values evaluated)")
    elif why_not is None:
        chk.error("torsion-returned", fi.where, f"the statements after the atan2 return its value on all {evaluated} representative values, but they are not in a form that proves it for every value (tests other than isnan of the value, or re-assignments)")
    else:
        chk.error("torsion-returned", fi.where, f"the statements after the atan2 are neither evaluable ({why_not}) nor in a form that proves the value is returned unchanged")


# ---------------------------------------------------------------------------------------------------------------------
# tertiary.torsion_angle: the wrapper hands the coordinates of its four atoms to the torsion function in order
# ---------------------------------------------------------------------------------------------------------------------
def check_wrapper(chk, ta) -> bool:
    """True when the rule was decided by evaluation (ok or violation); False: not evaluable, the caller reads the pinned form.
    The wrapper is evaluated for atoms in general position and for placements that a rigid motion can produce (one atom exactly at
    the origin, atoms in a coordinate plane): the value is the torsion function's value of the four coordinates in every case."""
    repo = chk.repo
    params = [a.arg for a in ta.node.args.args]
    if len(params) != 4:
        return False
    general = [(1.5, 2.5, 3.5), (2.5, 1.0, 4.0), (3.0, 3.5, 1.5), (4.5, 2.0, 2.5)]
    placements: List[Tuple[str, List[Tuple[float, float, float]]]] = [("atoms in general position", general)]
    for k in range(4):
        placements.append((f"atom {k + 1} exactly at the origin (0, 0, 0)", [(0.0, 0.0, 0.0) if i == k else p for i, p in enumerate(general)]))
    placements.append(("all four atoms in the plane z = 0", [(x, y, 0.0) for x, y, _ in general]))
    placements.append(("an atom on a coordinate axis", [(0.0, 0.0, 2.0)] + general[1:]))
    want = tuple(f"atom {i + 1}" for i in range(4))
    wrong: Dict[str, str] = {}
    body = [s for s in ta.node.body if not (isinstance(s, ast.Expr) and isinstance(s.value, ast.Constant))]
    try:
        for label, pts in placements:
            env: Dict[str, Any] = {p: Stub(f"atom {i + 1}", name=f"X{i + 1}", coordinates=_Pt(f"atom {i + 1}", pts[i])) for i, p in enumerate(params)}
            env.update({"calculate_torsion_angle_coords": _tor_stub, "np": _geom_np(), "numpy": _geom_np(), "math": _math_stub()})
            kind, val = BlockEvalX(repo, T1, env).run(body)
            if kind != "return":
                return False
            if isinstance(val, Tor):
                if tuple(val.quad) != want:
                    wrong[label] = f"the torsion of the coordinates of {list(val.quad)} instead of atoms 1, 2, 3, 4 in order"
            elif label == placements[0][0]:
                return False  # not even the plain case gives the torsion function's value: the pinned form decides
            else:
                wrong[label] = f"{val!r} instead of the value of the torsion function"
    except Exception:
        return False
    order = [k for k in wrong if k == placements[0][0]]
    if order or not wrong:
        chk.expect(not wrong, "torsion-wrapper", ta.where, f"torsion_angle returns calculate_torsion_angle_coords of the coordinates of its four atoms in order, wherever the atoms sit ({len(placements)} placements evaluated: general position, an atom at the origin, atoms in a coordinate plane / on an axis)", f"torsion_angle passes {wrong.get(placements[0][0])}", K(ta, "wrapper"), expected=list(want), found=wrong)
    else:
        k0 = next(iter(wrong))
        chk.violation("torsion-wrapper", ta.where, f"torsion_angle depends on where the molecule sits: with {k0} it returns {wrong[k0]}, with atoms in general position the torsion - a rigid motion (a translation that puts an atom at the origin or into a coordinate plane) changes the value, and chi / cis-trans / BPh classes inherit it", K(ta, "wrapper-placement"), expected="the torsion of the four coordinates for every placement", found=wrong)
    return True


# ---------------------------------------------------------------------------------------------------------------------
# chi of tertiary.Residue3D
# ---------------------------------------------------------------------------------------------------------------------
def _t1_cases() -> List[Tuple[str, List[str]]]:
    pu, py = SUGAR + PURINE_RING, SUGAR + PYRIMIDINE_RING
    return [
        ("a purine ring", pu),
        ("a pyrimidine ring", py),
        ("no base atoms", list(SUGAR)),
        ("a purine ring without N9", [a for a in pu if a != "N9"]),
        ("a purine ring without C4", [a for a in pu if a != "C4"]),
        ("a purine ring without C2", [a for a in pu if a != "C2"]),
        ("a purine ring without N1", [a for a in pu if a != "N1"]),
        ("a pyrimidine ring without C2", [a for a in py if a != "C2"]),
        ("a pyrimidine ring without N1", [a for a in py if a != "N1"]),
        ("a purine ring but no O4'", [a for a in pu if a != "O4'"]),
        ("a pyrimidine ring but no C1'", [a for a in py if a != "C1'"]),
    ]


def _expected_chi(kind: str, avail: Sequence[str], sp) -> Optional[Tuple[str, ...]]:
    """kind: 'purine' | 'pyrimidine' | 'unknown' -> the IUPAC quadruple that can be evaluated, purine first for unknown."""
    pu, py = tuple(sp["chi"]["purine"]), tuple(sp["chi"]["pyrimidine"])
    pu_ok, py_ok = all(a in avail for a in pu), all(a in avail for a in py)
    if kind == "purine":
        return pu if pu_ok else None
    if kind == "pyrimidine":
        return py if py_ok else None
    return pu if pu_ok else (py if py_ok else None)


def eval_chi_t1(chk, sp) -> Tuple[Dict[str, Any], Dict[str, Any], int, Dict[str, Optional[Tuple[str, ...]]]]:
    """(wrong dispatch, wrong atoms, number of cases, quadruple used for a typed purine / pyrimidine); raises Unknown."""
    repo = chk.repo
    letters = ["A", "G", "a", "g", "C", "U", "T", "c", "u", "N", "?", "X"]
    pu, py = tuple(sp["chi"]["purine"]), tuple(sp["chi"]["pyrimidine"])
    wrong_dispatch: Dict[str, Any] = {}
    wrong_atoms: Dict[str, Any] = {}
    typical: Dict[str, Optional[Tuple[str, ...]]] = {}
    n = 0
    glob = {"torsion_angle": _tor_stub, "calculate_torsion_angle_coords": _tor_stub, "np": _np_stub(), "numpy": _np_stub()}
    for letter in letters:
        up = letter.upper()
        kind = "purine" if up in ("A", "G") else ("pyrimidine" if up in ("C", "U", "T") else "unknown")
        for label, avail in _t1_cases():
            atoms = {a: Stub(f"atom {a}", name=a, tag=a, coordinates=Stub(f"xyz {a}", tag=a)) for a in avail}
            me = ClassStub(repo, T1, "Residue3D", {"one_letter_name": letter, "find_atom": (lambda nm, atoms=atoms: atoms.get(nm)), "atoms": tuple(atoms.values())}, glob, label=f"residue {letter}")
            try:
                got = me.chi
            except _STUB_LIMITS as ex:
                if isinstance(ex, AttributeError) and "'NoneType' object has no attribute" in str(ex):
                    raise  # the analysed code itself dereferences a missing atom (None): it would raise on real objects too
                raise Unknown(f"{type(ex).__name__}: {ex}")
            n += 1
            want = _expected_chi(kind, avail, sp)
            if isinstance(got, Tor):
                quad: Optional[Tuple[Any, ...]] = tuple(got.quad)
            elif got is None or (isinstance(got, float) and got != got):
                quad = None
            else:
                raise Unknown(f"chi evaluates to {got!r}, neither a torsion nor NaN")
            if kind != "unknown" and label in ("a purine ring", "a pyrimidine ring") and quad is not None:
                typical.setdefault(kind, quad)
            if quad == want:
                continue
            case = f"one-letter name {letter!r} with {label}"
            if quad is not None and quad not in (pu, py):
                wrong_atoms[case] = _quad_text(quad)
            else:
                wrong_dispatch[case] = f"{_quad_text(quad)} (IUPAC: {_quad_text(want)})"
    return wrong_dispatch, wrong_atoms, n, typical


def check_chi_t1(chk, sp) -> Optional[Dict[str, Optional[Tuple[str, ...]]]]:
    repo = chk.repo
    chi = repo.func(T1, "Residue3D.chi")
    chk.note_function(chi)
    try:
        wd, wa, n, typical = eval_chi_t1(chk, sp)
    except Unknown as ex:
        chk.ok("chi-eval", chi.where, f"Residue3D.chi is not evaluable on stub residues ({str(ex)[:120]}): the pinned-form reading decides")
        _pinned_chi_t1(chk, sp)
        return None
    except Exception as ex:
        chk.violation("chi-dispatch", chi.where, f"Residue3D.chi raises {type(ex).__name__} ({ex}) for some base letter / set of atoms", K(chi, "dispatch-raises"))
        return None
    chk.expect(
        not wa,
        "chi-atoms",
        chi.where,
        f"whenever chi is a torsion it is torsion_angle over O4'-C1'-N9-C4 or O4'-C1'-N1-C2 in this order ({n} cases: 12 one-letter names x {n // 12} sets of atoms evaluated through the helpers chi calls)",
        "chi is computed over atoms that are not an IUPAC glycosidic quadruple: " + "; ".join(f"{k} -> {v}" for k, v in list(wa.items())[:3]),
        K(chi, "atoms"),
        expected=[sp["chi"]["purine"], sp["chi"]["pyrimidine"]],
        found=dict(list(wa.items())[:6]),
    )
    chk.expect(
        not wd,
        "chi-dispatch",
        chi.where,
        "A/G use the purine definition, C/U/T the pyrimidine one (NaN when one of its atoms is missing); any other name uses the purine definition when its four atoms exist and the pyrimidine one only otherwise",
        "Residue3D.chi picks the wrong definition: " + "; ".join(f"{k} -> {v}" for k, v in list(wd.items())[:3]),
        K(chi, "dispatch"),
        found=dict(list(wd.items())[:8]),
    )
    return typical


def _pinned(chk, cond: bool, rule: str, site: str, detail_ok: str, detail_bad: str, key: str, expected: Any = None, found: Any = None) -> bool:
    """chk.expect for the pinned-form fallbacks: in a structurally rewritten function a pinned form that is not matched says
    nothing about the behaviour (the evaluated reading was not possible either) -> ANALYSIS-ERROR, not a VIOLATION."""
    if cond:
        chk.ok(rule, site, detail_ok)
    elif chk._rewritten(site):
        chk.error(rule, site, "the fragment is not evaluable and the pinned form is not matched in a structurally rewritten function: " + detail_bad)
    else:
        chk.violation(rule, site, detail_bad, key, expected, found)
    return cond


def _pinned_chi_t1(chk, sp) -> None:
    """Pinned-form reading (round 2): two helpers with four literal find_atom calls each + if/elif dispatch."""
    repo = chk.repo
    from sa.blockeval import BlockEval

    for kind, q in (("purine", "Residue3D.__chi_purine"), ("pyrimidine", "Residue3D.__chi_pyrimidine")):
        if not repo.has_func(T1, q):
            chk.error("chi-atoms", f"src/rnapolis/{T1}.py Residue3D.chi", f"Residue3D.chi is not evaluable and the pinned helper {q} does not exist: the atoms of chi cannot be read")
            return
        fi = repo.func(T1, q)
        chk.note_function(fi)
        atoms = [a.args[0].value for a in astq.calls(fi.node, "find_atom") if a.args and isinstance(a.args[0], ast.Constant)]
        _pinned(chk, atoms == sp["chi"][kind], "chi-atoms", fi.where, f"{kind} chi = {'-'.join(atoms)}", f"{kind} chi uses {atoms}, IUPAC says {sp['chi'][kind]}", K(fi, "atoms"), expected=sp["chi"][kind], found=atoms)
        rets = [r for r in ast.walk(fi.node) if isinstance(r, ast.Return) and isinstance(r.value, ast.Call)]
        _pinned(chk, len(rets) == 1 and norm(rets[0].value) == "torsion_angle(*atoms)", "chi-atoms", fi.where, "chi = torsion over the four atoms in order", "chi is not torsion_angle(*atoms) in list order", K(fi, "call"))
    chi = repo.func(T1, "Residue3D.chi")
    nan = float("nan")

    class _Self:
        _folder_stub = True

        def __init__(s2, letter, pu, py):
            s2.one_letter_name = letter
            setattr(s2, "__chi_purine", lambda: pu)
            setattr(s2, "__chi_pyrimidine", lambda: py)

    bad = {}
    try:
        for letter in ("A", "G", "a", "C", "U", "T", "u", "N", "?"):
            for pu, py in ((1.25, -2.5), (nan, -2.5), (1.25, nan), (nan, nan)):
                kind, val = BlockEval(repo, T1, {"self": _Self(letter, pu, py)}).run(chi.node.body)
                up = letter.upper()
                want = pu if up in ("A", "G") else (py if up in ("C", "U", "T") else (pu if pu == pu else py))
                same = (val != val and want != want) or val == want
                if kind != "return" or not same:
                    bad[f"{letter}: purine def {'n/a' if pu != pu else 'ok'}, pyrimidine def {'n/a' if py != py else 'ok'}"] = "purine" if val == 1.25 else "pyrimidine" if val == -2.5 else repr(val)
        _pinned(chk, not bad, "chi-dispatch", chi.where, "A/G use the purine definition, C/U/T the pyrimidine one, unknown names the purine definition when it can be evaluated and else the pyrimidine one (9 letters x 4 availability cases evaluated)", "Residue3D.chi picks the wrong definition: " + "; ".join(f"{k} -> {v}" for k, v in list(bad.items())[:3]), K(chi, "dispatch"), found=bad)
    except Unknown as ex:
        chk.error("chi-dispatch", chi.where, f"chi dispatch not evaluable: {ex}")
    except Exception as ex:
        chk.violation("chi-dispatch", chi.where, f"chi dispatch raises {type(ex).__name__} ({ex}) for some base letter", K(chi, "dispatch-raises"))


# ---------------------------------------------------------------------------------------------------------------------
# chi_class
# ---------------------------------------------------------------------------------------------------------------------
def check_chi_class(chk) -> None:
    repo = chk.repo
    cc = repo.func(T1, "Residue3D.chi_class")
    chk.note_function(cc)
    fold = Folder(repo, T1)
    ths = [-180.0, -30.0, 120.0, 180.0]
    for n in ast.walk(cc.node):
        if isinstance(n, ast.Compare):
            for side in [n.left] + list(n.comparators):
                v = fold.try_fold(side)
                if isinstance(v, (int, float)) and not isinstance(v, bool) and math.isfinite(v):
                    ths += [x for x in (float(v), math.degrees(v), math.radians(v)) if -180.0 <= x <= 180.0]
    pts = [p for p in intervals.cells(ths) if -180.0 < p < 180.0]
    gb = Stub("GlycosidicBond", syn="syn", anti="anti")
    bad: Dict[str, Any] = {}
    try:
        for deg in pts + [None]:
            val = math.nan if deg is None else math.radians(deg)
            me = ClassStub(repo, T1, "Residue3D", {"chi": val}, {"GlycosidicBond": gb, "np": _np_stub(), "numpy": _np_stub()})
            got = me.chi_class
            want = None if deg is None else ("syn" if -30.0 < deg < 120.0 else "anti")
            if got != want:
                bad["NaN" if deg is None else f"{deg:g} degrees"] = repr(got)
    except Unknown as ex:
        chk.ok("chi-eval", cc.where, f"chi_class is not evaluable ({str(ex)[:100]}): the pinned-form reading decides")
        _pinned_chi_class(chk, cc)
        return
    except Exception as ex:
        chk.violation("chi-class-units", cc.where, f"chi_class raises {type(ex).__name__} ({ex}) for some value of chi", K(cc, "units-raises"))
        return
    chk.expect(
        not bad,
        "chi-class-units",
        cc.where,
        f"chi_class is None for NaN, syn iff -30 < chi < 120 degrees with chi taken in radians, anti otherwise ({len(pts) + 1} values of chi evaluated, one per cell of the thresholds that occur)",
        "chi_class does not compare the radian-valued chi with -30..120 degrees converted to radians: " + "; ".join(f"chi = {k} -> {v}" for k, v in list(bad.items())[:4]),
        K(cc, "units"),
        expected="syn iff -30 < degrees(chi) < 120",
        found=dict(list(bad.items())[:6]),
    )


def _pinned_chi_class(chk, cc) -> None:
    repo = chk.repo
    tests = [s for s in cc.node.body if isinstance(s, ast.If) and "self.chi" in norm(s.test) and "isnan" not in norm(s.test)]
    if len(tests) != 1:
        chk.error("chi-class-units", cc.where, "syn/anti test not found")
        return
    try:
        reg = intervals.region(tests[0].test, [((lambda n: norm(n) == "self.chi"), "rad")], Folder(repo, T1).fold, extra_thresholds=(-30.0, 120.0, -180.0, 180.0))
        bad = {k: v for k, v in reg.items() if -180 <= k[0] <= 180 and v != (-30 < k[0] < 120)}
        _pinned(chk, not bad and norm(tests[0].body[0]) == "return GlycosidicBond.syn", "chi-class-units", cc.site(tests[0]), "syn iff -30 < chi < 120 degrees, compared in radians", f"`{norm(tests[0].test)}` does not compare the radian-valued chi with -30..120 degrees converted to radians", K(cc, "units"), found={str(k): v for k, v in list(bad.items())[:4]})
    except intervals.NotThreshold as ex:
        chk.error("chi-class-units", cc.site(tests[0]), str(ex))


# ---------------------------------------------------------------------------------------------------------------------
# tertiary_v2.Structure.torsion_angles
# ---------------------------------------------------------------------------------------------------------------------
class _DF:
    """What the analysed function needs of pandas.DataFrame: built from a list of row dicts; `columns`; df[col] = scalar;
    df[[cols]]."""

    _folder_stub = True

    def __init__(self, data=None):
        self.rows = [dict(r) for r in (data or [])]
        self.columns: List[str] = []
        for r in self.rows:
            for k in r:
                if k not in self.columns:
                    self.columns.append(k)

    def __setitem__(self, col, value):
        if isinstance(value, (list, tuple, dict, _DF)):
            raise Unknown("column assignment of a non-scalar")
        for r in self.rows:
            r[col] = value
        if col not in self.columns:
            self.columns.append(col)

    def __getitem__(self, cols):
        if not isinstance(cols, list):
            raise Unknown("DataFrame indexing other than a list of columns")
        for c in cols:
            if c not in self.columns:
                raise KeyError(c)
        out = _DF([{c: r.get(c) for c in cols} for r in self.rows])
        out.columns = list(cols)
        return out

    def __len__(self):
        return len(self.rows)


def _residue(num: int, name: str, avail: Sequence[str]) -> Stub:
    atoms = {a: Stub(f"atom {a} of residue {num}", name=a, coordinates=(num, a)) for a in avail}
    return Stub(f"residue {name}{num}", chain_id="A", residue_number=num, insertion_code=None, residue_name=name, find_atom=(lambda nm, atoms=atoms: atoms.get(nm)), avail=list(avail))


def _ring(name: str) -> List[str]:
    return PURINE_RING if name in PU_NAMES else PYRIMIDINE_RING


def _scenarios(names: Sequence[str]) -> List[Tuple[str, List[List[Stub]]]]:
    full = lambda nm: SUGAR + _ring(nm)
    out: List[Tuple[str, List[List[Stub]]]] = []
    out.append(("one segment of three complete residues", [[_residue(1, "G", full("G")), _residue(2, "C", full("C")), _residue(3, "A", full("A"))]]))
    out.append(
        (
            "a segment whose middle residue lacks C4' and whose last residue lacks P and O5'",
            [[_residue(11, "U", full("U")), _residue(12, "G", [a for a in full("G") if a != "C4'"]), _residue(13, "C", [a for a in full("C") if a not in ("P", "O5'")])]],
        )
    )
    out.append(("two segments (a single residue, then two residues)", [[_residue(21, "A", full("A"))], [_residue(22, "U", full("U")), _residue(23, "DG", full("DG"))]]))
    segs: List[List[Stub]] = []
    k = 100
    for nm in names:
        for ring in (PURINE_RING, PYRIMIDINE_RING):
            k += 1
            segs.append([_residue(k, nm, SUGAR + ring)])
    out.append(("single residues: every residue name with a purine ring and with a pyrimidine ring", segs))
    segs = []
    k = 200
    for nm, drop in (("A", "N9"), ("G", "C4"), ("DA", "O4'"), ("A", "C1'"), ("C", "N1"), ("U", "C2"), ("DT", "O4'"), ("C", "C1'")):
        k += 1
        segs.append([_residue(k, nm, [a for a in SUGAR + _ring(nm) if a != drop])])
    out.append(("single residues lacking one atom of their chi quadruple", segs))
    return out


def _expected_rows(segments: List[List[Stub]], sp) -> Dict[int, Dict[str, Optional[Tuple[Any, ...]]]]:
    rows: Dict[int, Dict[str, Optional[Tuple[Any, ...]]]] = {}
    for seg in segments:
        for i, r in enumerate(seg):
            row: Dict[str, Optional[Tuple[Any, ...]]] = {}
            for angle, d in sp["backbone"].items():
                quad: Optional[List[Any]] = []
                for atom, off in d:
                    j = i + off
                    if not (0 <= j < len(seg)) or atom not in seg[j].avail:
                        quad = None
                        break
                    quad.append((seg[j].residue_number, atom))
                row[angle] = tuple(quad) if quad is not None else None
            kind = "purine" if r.residue_name in PU_NAMES else ("pyrimidine" if r.residue_name in PY_NAMES else None)
            q = _expected_chi(kind, r.avail, sp) if kind else None
            row["chi"] = tuple((r.residue_number, a) for a in q) if q else None
            rows[r.residue_number] = row
    return rows


def eval_table_v2(chk, ta, segments: List[List[Stub]]) -> Dict[int, Dict[str, Any]]:
    repo = chk.repo
    pd = Stub("pandas", DataFrame=_DF)
    glob = {"pd": pd, "pandas": pd, "np": _np_stub(), "numpy": _np_stub(), "calculate_torsion_angle": _tor_stub}
    # `self` stands for the structure: the segments are given, other members of the class the function calls (helpers, static methods) are interpreted
    me = ClassStub(repo, T2, "Structure", {"connected_residues": segments}, glob, label="structure")
    env = dict(glob, self=me, Structure=me)
    body = [s for s in ta.node.body if not (isinstance(s, ast.Expr) and isinstance(s.value, ast.Constant))]
    kind, val = BlockEvalX(repo, T2, env).run(body)
    if kind != "return":
        raise Unknown("the function does not return a table")
    rows = val.rows if isinstance(val, _DF) else val
    if not isinstance(rows, list) or not all(isinstance(r, dict) for r in rows):
        raise Unknown("the value returned is not a table of row dicts")
    out: Dict[int, Dict[str, Any]] = {}
    for r in rows:
        if "residue_number" not in r:
            raise Unknown("rows carry no residue_number")
        out[r["residue_number"]] = r
    return out


def check_table_v2(chk, sp) -> Optional[Dict[str, Optional[Tuple[str, ...]]]]:
    repo = chk.repo
    ta = repo.func(T2, "Structure.torsion_angles")
    chk.note_function(ta)
    # residue names to probe: the IUPAC lists, every short upper-case string the function (or a module constant) mentions, and some outsiders
    mention = set()
    for n in ast.walk(ta.node):
        if isinstance(n, ast.Constant) and isinstance(n.value, str) and 1 <= len(n.value) <= 3 and n.value.isalnum() and n.value.upper() == n.value:
            mention.add(n.value)
    for cname, cexpr in repo.module(T2).consts.items():
        v = Folder(repo, T2).try_fold(cexpr)
        if isinstance(v, (list, tuple, set, frozenset, dict)):
            mention |= {x for x in v if isinstance(x, str) and 1 <= len(x) <= 3 and x.isalnum() and x.upper() == x}
    atoms_known = set(SUGAR + PURINE_RING + PYRIMIDINE_RING)
    names = PU_NAMES + PY_NAMES + sorted((mention - atoms_known - set(PU_NAMES + PY_NAMES)) | {"PSU", "N", "I", "DU"})
    bad: Dict[str, Dict[str, str]] = {"backbone-atoms": {}, "chi-atoms": {}, "chi-bases": {}}
    n_cells = 0
    typical: Dict[str, Optional[Tuple[str, ...]]] = {}
    pu, py = tuple(sp["chi"]["purine"]), tuple(sp["chi"]["pyrimidine"])
    try:
        for si, (label, segments) in enumerate(_scenarios(names)):
            want = _expected_rows(segments, sp)
            try:
                got = eval_table_v2(chk, ta, segments)
            except _STUB_LIMITS as ex:
                if isinstance(ex, AttributeError) and "'NoneType' object has no attribute" in str(ex):
                    raise  # the analysed code itself dereferences a missing atom (None): it would raise on real objects too
                raise Unknown(f"{type(ex).__name__}: {ex}")
            if set(got) != set(want):
                bad["backbone-atoms"][label] = f"rows for residues {sorted(got)} instead of {sorted(want)}"
                continue
            res_by_num = {r.residue_number: r for seg in segments for r in seg}
            for num, wrow in want.items():
                for angle, wq in wrow.items():
                    n_cells += 1
                    v = got[num].get(angle)
                    if isinstance(v, Tor):
                        gq: Optional[Tuple[Any, ...]] = tuple(v.quad)
                    elif v is None or (isinstance(v, float) and v != v):
                        gq = None
                    else:
                        raise Unknown(f"{angle} of residue {num} evaluates to {v!r}")
                    r = res_by_num[num]
                    if angle == "chi" and gq is not None and wq is not None and gq == wq:
                        typical.setdefault("purine" if r.residue_name in PU_NAMES else "pyrimidine", tuple(a for _, a in gq))
                    if gq == wq:
                        continue
                    case = f"{angle} of residue {r.residue_name}{num} ({label})"
                    if angle != "chi":
                        bad["backbone-atoms"][case] = f"{_quad_text(gq)}, IUPAC: {_quad_text(wq)}"
                    else:
                        names_only = tuple(a for _, a in gq) if gq else None
                        same_res = gq is None or all(k == num for k, _ in gq)
                        if gq is not None and (names_only not in (pu, py) or not same_res):
                            bad["chi-atoms"][case] = f"{_quad_text(gq)}, IUPAC: {_quad_text(wq)}"
                        elif si == 3:
                            bad["chi-bases"][case] = f"{_quad_text(gq)}, expected {_quad_text(wq)}"
                        else:
                            bad["chi-atoms"][case] = f"{_quad_text(gq)}, expected {_quad_text(wq)}"
    except Unknown as ex:
        chk.ok("chi-eval", ta.where, f"Structure.torsion_angles is not evaluable on stub segments ({str(ex)[:120]}): the pinned-form reading decides")
        _pinned_table_v2(chk, sp)
        return None
    except Exception as ex:
        chk.violation("backbone-atoms", ta.where, f"Structure.torsion_angles raises {type(ex).__name__} ({ex}) on a small segment of complete / incomplete residues", K(ta, "table-raises"))
        return None
    chk.expect(
        not bad["backbone-atoms"],
        "backbone-atoms",
        ta.where,
        f"alpha..zeta are computed over the IUPAC atom quadruples (previous / same / next residue of the same segment) passed to calculate_torsion_angle in definition order; an angle with a missing atom or neighbour is empty ({n_cells} residue x angle cells on 5 stub scenarios)",
        "backbone torsions differ from the IUPAC definitions: " + "; ".join(f"{k} -> {v}" for k, v in list(bad["backbone-atoms"].items())[:3]),
        K(ta, "backbone"),
        found=dict(list(bad["backbone-atoms"].items())[:6]),
    )
    chk.expect(
        not bad["chi-atoms"],
        "chi-atoms",
        ta.where,
        "tertiary_v2 chi = O4'-C1'-N9-C4 (purines) / O4'-C1'-N1-C2 (pyrimidines) of the residue itself, in this order, only when all four atoms exist",
        "tertiary_v2 chi is not the IUPAC quadruple: " + "; ".join(f"{k} -> {v}" for k, v in list(bad["chi-atoms"].items())[:3]),
        K(ta, "chi"),
        expected=[list(pu), list(py)],
        found=dict(list(bad["chi-atoms"].items())[:6]),
    )
    chk.expect(
        not bad["chi-bases"],
        "chi-bases",
        ta.where,
        f"purine chi for A/G/DA/DG, pyrimidine chi for C/U/T/DC/DT, no chi for other residue names ({len(names)} names x 2 ring kinds evaluated)",
        "the residue names that get a purine / pyrimidine chi changed: " + "; ".join(f"{k} -> {v}" for k, v in list(bad["chi-bases"].items())[:3]),
        K(ta, "bases"),
        found=dict(list(bad["chi-bases"].items())[:6]),
    )
    return typical


def _pinned_table_v2(chk, sp) -> None:
    """Pinned-form reading (round 2) of the chi branches, name lists, definition table and collection loop."""
    repo = chk.repo
    ta = repo.func(T2, "Structure.torsion_angles")
    chis = [c for c in astq.calls(ta.node, "calculate_torsion_angle") if len(c.args) == 4 and all(norm(a).endswith(".coordinates") for a in c.args)]
    var_atom = {}
    for s in ast.walk(ta.node):
        if isinstance(s, ast.Assign) and isinstance(s.targets[0], ast.Name):
            m = astq.match(s.value, "residue.find_atom(A_)")
            if m and isinstance(m["A_"], ast.Constant):
                var_atom[s.targets[0].id] = m["A_"].value
    quads = sorted([var_atom.get(norm(a).split(".")[0]) for a in c.args] for c in chis)
    want = sorted([sp["chi"]["purine"], sp["chi"]["pyrimidine"]])
    _pinned(chk, quads == want, "chi-atoms", ta.where, "tertiary_v2 chi quadruples = IUPAC (purine N9/C4, pyrimidine N1/C2)", f"tertiary_v2 chi quadruples are {quads}", K(ta, "chi"), expected=want, found=quads)
    pu = astq.first_assign(ta.node, "purine_bases")
    py = astq.first_assign(ta.node, "pyrimidine_bases")
    f = Folder(repo, T2)
    _pinned(chk, pu is not None and py is not None and f.try_fold(pu) == PU_NAMES and f.try_fold(py) == PY_NAMES, "chi-bases", ta.where, "purines A/G/DA/DG, pyrimidines C/U/T/DC/DT", "the purine/pyrimidine name lists changed", K(ta, "bases"))
    td = None
    for s in ast.walk(ta.node):
        if isinstance(s, ast.Assign) and norm(s.targets[0]) == "torsion_definitions":
            td = Folder(repo, T2).try_fold(s.value)
    want_b = {k: [tuple(x) for x in v] for k, v in sp["backbone"].items()}
    got_b = {k: v for k, v in (td or {}).items() if k != "chi"}
    _pinned(chk, got_b == want_b and (td or {}).get("chi", 0) is None, "backbone-atoms", ta.where, "alpha..zeta atom quadruples equal the IUPAC table", "backbone torsion definitions differ from IUPAC", K(ta, "backbone"), expected={k: want_b[k] for k in want_b if got_b.get(k) != want_b[k]}, found={k: got_b.get(k) for k in want_b if got_b.get(k) != want_b[k]})
    bb = [c for c in astq.calls(ta.node, "calculate_torsion_angle") if flat(c) == flat("calculate_torsion_angle(atoms[0], atoms[1], atoms[2], atoms[3])")]
    _pinned(chk, len(bb) == 1, "torsion-wrapper", ta.where, "backbone torsions pass the four atoms in definition order", "backbone torsions do not pass atoms[0..3] in order", K(ta, "backbone-call"))
    app = [s for s in ast.walk(ta.node) if isinstance(s, ast.Expr) and norm(s.value) == "atoms.append(atom.coordinates)"]
    _pinned(chk, len(app) == 1, "torsion-wrapper", ta.where, "atoms are collected in the order of the definition", "atom coordinates are not appended in definition order", K(ta, "backbone-order"))


# ---------------------------------------------------------------------------------------------------------------------
# inter-stem torsion (tertiary.Mapping2D3D.calculate_inter_stem_parameters)
# ---------------------------------------------------------------------------------------------------------------------
class _Pt:
    """A centroid: a point that remembers which base pair of which stem it is (differences remember their operands)."""

    _folder_stub = True

    def __init__(self, tag: str, xyz: Sequence[float]):
        self.tag, self.xyz = tag, tuple(float(v) for v in xyz)

    def __sub__(self, o):
        return _Pt(f"({self.tag} - {getattr(o, 'tag', o)})", [a - b for a, b in zip(self.xyz, _xyz(o))])

    def __add__(self, o):
        return _Pt(f"({self.tag} + {getattr(o, 'tag', o)})", [a + b for a, b in zip(self.xyz, _xyz(o))])

    def __mul__(self, k):
        if isinstance(k, _Pt):
            return _Pt(f"({self.tag} * {k.tag})", [a * b for a, b in zip(self.xyz, k.xyz)])
        return _Pt(f"({self.tag} * {k})", [a * k for a in self.xyz])

    __rmul__ = __mul__

    def __pow__(self, k):
        return _Pt(f"({self.tag} ** {k})", [a**k for a in self.xyz])

    def __neg__(self):
        return _Pt(f"-{self.tag}", [-a for a in self.xyz])

    def __iter__(self):
        return iter(self.xyz)

    def any(self):
        return any(c != 0 for c in self.xyz)

    def all(self):
        return all(c != 0 for c in self.xyz)

    def tolist(self):
        return list(self.xyz)

    def __eq__(self, o):
        if isinstance(o, (int, float)):
            return _Pt(f"({self.tag} == {o})", [float(c == o) for c in self.xyz])
        return NotImplemented

    __hash__ = None

    def __len__(self):
        return 3

    def __getitem__(self, i):
        return self.xyz[i]

    def __repr__(self):
        return self.tag


def _xyz(o) -> Tuple[float, ...]:
    return o.xyz if isinstance(o, _Pt) else tuple(o)


class Rad(float):
    """Outcome of a degrees -> radians conversion (remembers its input)."""

    def __new__(cls, d):
        o = float.__new__(cls, math.radians(d))
        o.of = d
        return o


class Deg(float):
    """Outcome of a radians -> degrees conversion (remembers its input)."""

    def __new__(cls, r):
        o = float.__new__(cls, math.degrees(r))
        o.of = r
        return o


def _geom_np() -> Stub:
    norm_ = lambda v, *a: math.sqrt(sum(c * c for c in _xyz(v)))
    np_ = _np_stub()
    np_.__dict__.update(
        linalg=Stub("numpy.linalg", norm=norm_),
        dot=lambda a, b: sum(x * y for x, y in zip(_xyz(a), _xyz(b))),
        sum=lambda v, *a: sum(_xyz(v)),
        sqrt=math.sqrt,
        array=lambda v, *a: v if isinstance(v, _Pt) else _Pt("array", v),
        asarray=lambda v, *a: v if isinstance(v, _Pt) else _Pt("array", v),
        degrees=Deg,
        rad2deg=Deg,
        radians=Rad,
        deg2rad=Rad,
    )
    return np_


def _math_stub() -> Stub:
    return Stub("math", radians=Rad, degrees=Deg, pi=math.pi, tau=math.tau, inf=math.inf, nan=math.nan, e=math.e, sqrt=math.sqrt, exp=math.exp, log=math.log, cos=math.cos, sin=math.sin, fabs=math.fabs, isnan=math.isnan, isclose=math.isclose, dist=lambda a, b: math.dist(_xyz(a), _xyz(b)))


class _VonMises:
    _folder_stub = True

    def __init__(self, kappa, loc):
        self.kappa, self.loc, self.asked = kappa, loc, []

    def pdf(self, x):
        self.asked.append(x)
        return 0.5 if float(x) == float(self.loc) else 0.2


_END = {"first": "5", "last": "3"}


def _stem_layout(n1: int, n2: int, e1: str, e2: str) -> Tuple[List[_Pt], List[_Pt]]:
    """Two stems of n1 / n2 base-pair centroids; the closest pair of stem ends is (e1 of stem 1, e2 of stem 2), strictly."""
    s1 = [(3.0 * k, 0.0, 0.0) for k in range(n1)]
    a = s1[0] if e1 == "first" else s1[-1]
    line = [(a[0] + 0.4 + 0.3 * k, 2.0 + 3.0 * k, 0.5 + 1.0 * k) for k in range(n2)]  # k = 0 is the end next to `a`
    s2 = line if e2 == "first" else line[::-1]
    if n1 >= 2 and n2 >= 2:
        d = {(x, y): math.dist(s1[0 if x == "first" else -1], s2[0 if y == "first" else -1]) for x in _END for y in _END}
        if sorted(d, key=d.get)[0] != (e1, e2) or sorted(d.values())[1] - sorted(d.values())[0] < 0.5:
            raise Unknown("stub layout of the stems does not single out the intended pair of ends")
    return [_Pt(f"stem1[{k}]", p) for k, p in enumerate(s1)], [_Pt(f"stem2[{k}]", p) for k, p in enumerate(s2)]


def check_interstem(chk) -> bool:
    """The inter-stem torsion is the dihedral about the junction of the two stems: the four points handed to the torsion function
    are (neighbour of end 1 in stem 1, end 1, end 2, neighbour of end 2 in stem 2) for the pair of stem ends (end 1, end 2) that
    realises the minimum distance, the arrangement is reported under the name of that pair, the value is scored in radians and
    reported in degrees.  Decided by evaluating the method on stub stems (4 closest-end cases x 3 pairs of stem lengths).
    False when the method is not evaluable (the caller reads the pinned form)."""
    repo = chk.repo
    ci = repo.func(T1, "Mapping2D3D.calculate_inter_stem_parameters")
    chk.note_function(ci)
    wrong_pts: Dict[str, str] = {}
    wrong_type: Dict[str, str] = {}
    wrong_units: Dict[str, str] = {}
    n_cases = 0
    try:
        for n1, n2 in ((2, 2), (3, 4), (4, 2), (1, 3), (3, 1)):
            for e1 in _END:
                for e2 in _END:
                    c1, c2 = _stem_layout(n1, n2, e1, e2)
                    stems = {"stem 1": c1, "stem 2": c2}
                    made: List[_VonMises] = []

                    def vonmises(*a, **k):
                        vm = _VonMises(k.get("kappa", a[0] if a else None), k.get("loc", a[1] if len(a) > 1 else 0.0))
                        made.append(vm)
                        return vm

                    vonmises._folder_keywords = True
                    glob = {"calculate_torsion_angle_coords": _tor_stub, "torsion_angle": _tor_stub, "numpy": _geom_np(), "np": _geom_np(), "math": _math_stub(), "vonmises": vonmises, "distance_pdf": (lambda d, *a: 0.75)}
                    me = ClassStub(repo, T1, "Mapping2D3D", {"get_stem_coordinates": (lambda st: list(stems[st]))}, glob, label="mapping")
                    try:
                        got = me.calculate_inter_stem_parameters("stem 1", "stem 2")
                    except _STUB_LIMITS as ex:
                        raise Unknown(f"{type(ex).__name__}: {ex}")
                    n_cases += 1
                    case = f"stems of {n1} and {n2} base pairs whose closest ends are the {e1} pair of stem 1 and the {e2} pair of stem 2"
                    if n1 < 2 or n2 < 2:
                        if got is not None:
                            wrong_pts[case] = f"a result ({_short(got)}) although a stem with one base pair has no direction"
                        continue
                    if not isinstance(got, dict):
                        raise Unknown(f"the method returns {got!r} for two stems of {n1} and {n2} base pairs")
                    tors = [v for v in got.values() if isinstance(v, (Deg, Rad)) and isinstance(v.of, Tor)] + [v for v in got.values() if isinstance(v, Tor)]
                    asked = [x for vm in made for x in vm.asked if isinstance(x, (Tor, Deg, Rad)) and (isinstance(x, Tor) or isinstance(x.of, Tor))]
                    tor = next((t if isinstance(t, Tor) else t.of for t in tors + asked), None)
                    if tor is None:
                        raise Unknown("no value of the torsion function reaches the result")
                    i1, i2 = (0, 1) if e1 == "first" else (n1 - 1, n1 - 2)
                    j1, j2 = (0, 1) if e2 == "first" else (n2 - 1, n2 - 2)
                    want = (f"stem1[{i2}]", f"stem1[{i1}]", f"stem2[{j1}]", f"stem2[{j2}]")
                    if tuple(tor.quad) != want:
                        q = list(tor.quad)
                        why = f" - the central bond of the dihedral is {q[1]}-{q[2]}, not the closest pair of ends {want[1]}-{want[2]}" if len(q) == 4 and tuple(q[1:3]) != want[1:3] else ""
                        wrong_pts[case] = f"{q} instead of {list(want)}{why}"
                    name = "cs" + _END[e1] + _END[e2]
                    if got.get("type") != name:
                        wrong_type[case] = f"{got.get('type')!r} instead of {name!r}"
                    out = got.get("torsion_angle")
                    if not (isinstance(out, Deg) and isinstance(out.of, Tor)):
                        wrong_units[case] = f"'torsion_angle' is {_unit_text(out)}, expected the value of the torsion function converted to degrees"
                    for vm in made:
                        bad = [x for x in vm.asked if isinstance(x, (Deg, Rad)) and isinstance(x.of, Tor)]
                        if bad:
                            wrong_units[case] = f"the von Mises density (a function of an angle in radians) is evaluated at {_unit_text(bad[0])}"
                        elif any(isinstance(x, Tor) for x in vm.asked) and not isinstance(vm.loc, Rad):
                            wrong_units[case] = f"the von Mises density is centred at {_unit_text(vm.loc)}, expected a mean converted from degrees to radians"
                    if not any(isinstance(x, Tor) for vm in made for x in vm.asked) and not wrong_units.get(case):
                        raise Unknown("the torsion value is not scored by a von Mises density the rule can follow")
    except Unknown as ex:
        chk.ok("chi-eval", ci.where, f"calculate_inter_stem_parameters is not evaluable on stub stems ({str(ex)[:120]}): the pinned-form reading decides")
        return False
    except Exception as ex:
        chk.violation("interstem-points", ci.where, f"calculate_inter_stem_parameters raises {type(ex).__name__} ({ex}) on two stub stems", K(ci, "points-raises"))
        return True
    chk.expect(
        not wrong_pts,
        "interstem-points",
        ci.where,
        f"the inter-stem torsion is computed over (neighbour of end 1, end 1, end 2, neighbour of end 2) where (end 1, end 2) is the closest pair of stem ends: the central bond of the dihedral is the junction ({n_cases} cases: which ends are closest x stem lengths; a stem of one base pair gives no value)",
        "the four points of the inter-stem torsion are not (neighbour, end, end, neighbour) about the closest pair of stem ends: " + "; ".join(f"{k}: {v}" for k, v in list(wrong_pts.items())[:2]),
        K(ci, "points"),
        expected="(stem1[neighbour of end 1], stem1[end 1], stem2[end 2], stem2[neighbour of end 2])",
        found=dict(list(wrong_pts.items())[:4]),
    )
    chk.expect(
        not wrong_type,
        "interstem-points",
        ci.where,
        "the arrangement is reported as cs<end of stem 1><end of stem 2> (5 = first base pair, 3 = last) of the closest pair of ends",
        "the reported arrangement does not name the closest pair of stem ends: " + "; ".join(f"{k}: {v}" for k, v in list(wrong_type.items())[:2]),
        K(ci, "type"),
        found=dict(list(wrong_type.items())[:4]),
    )
    chk.expect(
        not wrong_units,
        "interstem-units",
        ci.where,
        "inter-stem torsion: the value of the torsion function (radians) is scored by a von Mises density whose mean was converted to radians, and reported in degrees (evaluated)",
        "inter-stem torsion units: " + "; ".join(f"{k}: {v}" for k, v in list(wrong_units.items())[:2]),
        K(ci, "units"),
        found=dict(list(wrong_units.items())[:4]),
    )
    return True


def _unit_text(v: Any) -> str:
    if isinstance(v, Deg):
        return f"degrees({_unit_text(v.of)})"
    if isinstance(v, Rad):
        return f"radians({_unit_text(v.of)})"
    if isinstance(v, Tor):
        return "the torsion value (radians)"
    return f"the plain number {v!r}" if isinstance(v, (int, float)) else repr(v)[:40]


def _short(v: Any) -> str:
    return repr(v)[:60]


# ---------------------------------------------------------------------------------------------------------------------
# tertiary_v2.Residue.find_atom / Atom.coordinates: a lookup answers from the frame as it is NOW
# ---------------------------------------------------------------------------------------------------------------------
class _Mask:
    _folder_stub = True

    def __init__(self, bits):
        self.bits = list(bits)

    def __and__(self, o):
        return _Mask(a and b for a, b in zip(self.bits, o.bits))

    def __or__(self, o):
        return _Mask(a or b for a, b in zip(self.bits, o.bits))

    def __invert__(self):
        return _Mask(not a for a in self.bits)

    def any(self):
        return any(self.bits)

    def sum(self):
        return sum(self.bits)

    def __len__(self):
        return len(self.bits)


class _ILoc:
    _folder_stub = True

    def __init__(self, get, n):
        self.get, self.n = get, n

    def __getitem__(self, i):
        if not isinstance(i, int):
            raise Unknown("positional indexing other than by one integer")
        if not -self.n <= i < self.n:
            raise IndexError("single positional indexer is out-of-bounds")
        return self.get(i % self.n)


class _Loc:
    _folder_stub = True

    def __init__(self, frame):
        self.frame = frame

    def __getitem__(self, k):
        if isinstance(k, _Mask):
            return self.frame[k]
        if isinstance(k, tuple) and len(k) == 2 and isinstance(k[0], _Mask) and isinstance(k[1], (str, list)):
            return self.frame[k[0]][k[1]]
        raise Unknown("label indexing other than by a boolean mask (and columns)")


class _Column:
    _folder_stub = True

    def __init__(self, values):
        self.values = list(values)

    def __eq__(self, v):
        return _Mask(x == v for x in self.values)

    def __ne__(self, v):
        return _Mask(x != v for x in self.values)

    __hash__ = None

    def isin(self, vs):
        return _Mask(x in list(vs) for x in self.values)

    @property
    def iloc(self):
        return _ILoc(lambda i: self.values[i], len(self.values))

    def tolist(self):
        return list(self.values)

    def to_numpy(self):
        return list(self.values)

    def eq(self, v):
        return self == v

    def any(self):
        return any(self.values)

    def __iter__(self):
        return iter(self.values)

    def __len__(self):
        return len(self.values)


class _Row:
    """One row taken out of a frame: a copy (what pandas gives for `frame[mask].iloc[0]`)."""

    _folder_stub = True

    def __init__(self, cells: Dict[str, Any]):
        self.cells = dict(cells)

    def __getitem__(self, k):
        if isinstance(k, str):
            return self.cells[k]
        raise Unknown("row indexing other than by a column name")

    def __contains__(self, k):
        return k in self.cells

    def get(self, k, default=None):
        return self.cells.get(k, default)

    @property
    def index(self):
        return list(self.cells)


class _Frame:
    """What the lookup needs of a pandas frame of atoms.  Rows are live: the rule moves the coordinates *in place* (the frame
    object stays the same), boolean-mask selection and .iloc[i] give copies as in pandas."""

    _folder_stub = True

    def __init__(self, rows: List[Dict[str, Any]], fmt: str):
        self.rows = rows
        self.attrs = {"format": fmt}

    @property
    def columns(self):
        return list(self.rows[0]) if self.rows else []

    def __getitem__(self, k):
        if isinstance(k, str):
            if k not in self.columns:
                raise KeyError(k)
            return _Column(r[k] for r in self.rows)
        if isinstance(k, _Mask):
            if len(k) != len(self.rows):
                raise ValueError("Item wrong length")
            return _Frame([dict(r) for r, b in zip(self.rows, k.bits) if b], self.attrs["format"])
        if isinstance(k, list):
            return _Frame([{c: r[c] for c in k} for r in self.rows], self.attrs["format"])
        raise Unknown("frame indexing other than by a column name, a list of names or a boolean mask")

    @property
    def iloc(self):
        return _ILoc(lambda i: _Row(self.rows[i]), len(self.rows))

    @property
    def loc(self):
        return _Loc(self)

    @property
    def empty(self):
        return not self.rows

    def iterrows(self):
        return [(i, _Row(r)) for i, r in enumerate(self.rows)]

    def head(self, n=5):
        return _Frame([dict(r) for r in self.rows[:n]], self.attrs["format"])

    def reset_index(self, *a, **k):
        return _Frame([dict(r) for r in self.rows], self.attrs["format"])

    def copy(self, *a):
        return _Frame([dict(r) for r in self.rows], self.attrs["format"])

    def to_dict(self, orient="dict"):
        if orient != "records":
            raise Unknown("to_dict other than records")
        return [dict(r) for r in self.rows]

    def __len__(self):
        return len(self.rows)


_XYZ = {"PDB": ("x", "y", "z"), "mmCIF": ("Cartn_x", "Cartn_y", "Cartn_z")}
_LOOKUP_ATOMS = ["P", "O5'", "C5'", "C4'", "C3'", "O3'", "C1'", "N9"]


def _atom_rows(fmt: str, name_cols: Sequence[str], shift: float) -> List[Dict[str, Any]]:
    rows = []
    for i, a in enumerate(_LOOKUP_ATOMS):
        row: Dict[str, Any] = {c: a for c in name_cols}
        row.update({"element": a[0], "type_symbol": a[0]})
        for k, c in enumerate(_XYZ[fmt]):
            row[c] = shift + 1.0 + i + 0.25 * k
        rows.append(row)
    return rows


def check_lookup_current(chk) -> None:
    """The torsion table asks `residue.find_atom(name).coordinates` for every atom.  Fact: that answer is a function of the residue's
    frame as it is at the time of the call - whatever was looked up before on the same residue (the classes of a call history that
    matter to a memo: the same atom asked before / another atom asked before / the class' own connectivity test ran before), an
    in-place change of the coordinate columns (a rigid motion written back, a superposition) or a replaced frame is what a later
    lookup sees.  Otherwise a table computed after a motion mixes positions from before and after it: the torsions are no longer
    invariant under a rigid motion.  Decided by evaluating find_atom and Atom.coordinates on stub frames."""
    repo = chk.repo
    rule = "lookup-current-state"
    if not repo.has_func(T2, "Residue.find_atom"):
        chk.error(rule, f"src/rnapolis/{T2}.py Residue", "Residue.find_atom not found: how the torsion table reaches the coordinates cannot be read")
        return
    fa = repo.func(T2, "Residue.find_atom")
    chk.note_function(fa)
    np_ = _np_stub()
    np_.__dict__.update(array=lambda v, *a: _Pt("xyz", v), asarray=lambda v, *a: _Pt("xyz", v), linalg=Stub("numpy.linalg", norm=lambda v, *a: _Norm(math.sqrt(sum(c * c for c in _xyz(v))))))
    glob: Dict[str, Any] = {"np": np_, "numpy": np_}

    def atom(data, fmt):
        return ClassStub(repo, T2, "Atom", {"data": data, "format": fmt}, glob, label="atom")

    glob["Atom"] = atom

    def residue(fmt, name_cols, shift=0.0):
        fr = _Frame(_atom_rows(fmt, name_cols, shift), fmt)
        return ClassStub(repo, T2, "Residue", {"atoms": fr, "format": fmt}, glob, label="residue"), fr

    def coords(res, name):
        a = res.find_atom(name)
        if a is None:
            return None
        c = a.coordinates
        return tuple(float(x) for x in c)

    def expected(fr, fmt, name_cols, name):
        for r in fr.rows:
            if r[name_cols[0]] == name:
                return tuple(float(r[c]) for c in _XYZ[fmt])
        return None

    layouts = [("PDB", ["name"]), ("mmCIF", ["auth_atom_id", "label_atom_id"]), ("mmCIF", ["label_atom_id"])]
    histories = [
        ("nothing was looked up before", lambda res, other: None),
        ("the same atoms were looked up before", lambda res, other: [coords(res, a) for a in ("O3'", "P", "C4'")]),
        ("other atoms were looked up before", lambda res, other: [coords(res, a) for a in ("C1'", "N9")]),
        ("the connectivity test of the class ran before", lambda res, other: (res.is_connected(other), other.is_connected(res))),
    ]
    changes = [
        ("the coordinate columns of the residue's frame are changed in place", "in-place"),
        ("the residue's frame is replaced by a moved copy", "replaced"),
    ]
    stale: Dict[str, str] = {}
    wrong: Dict[str, str] = {}
    leftovers: Dict[str, str] = {}
    n = 0
    try:
        for fmt, name_cols in layouts:
            for hlabel, history in histories:
                for clabel, how in changes:
                    res, fr = residue(fmt, name_cols)
                    other, _ = residue(fmt, name_cols, shift=0.5)
                    before = set(instance_dict(res))
                    try:
                        history(res, other)
                    except _STUB_LIMITS + (Unknown,) as ex:
                        if "connectivity" in hlabel:
                            continue  # the connectivity test is outside the evaluable fragment: the other histories decide
                        raise Unknown(f"{type(ex).__name__}: {ex}")
                    left = sorted(set(instance_dict(res)) - before)
                    if how == "in-place":
                        for r in fr.rows:
                            for c in _XYZ[fmt]:
                                r[c] = r[c] + 10.0
                    else:
                        fr = _Frame([{k: (v + 10.0 if k in _XYZ[fmt] else v) for k, v in r.items()} for r in fr.rows], fmt)
                        set_attribute(res, "atoms", fr)
                    for a in ("O3'", "P", "C4'", "C1'", "XX"):
                        n += 1
                        try:
                            got = coords(res, a)
                        except _STUB_LIMITS as ex:
                            raise Unknown(f"{type(ex).__name__}: {ex}")
                        want = expected(fr, fmt, name_cols, a)
                        if got == want:
                            continue
                        case = f"{fmt} frame with {'/'.join(name_cols)}: {hlabel}, then {clabel}, then find_atom({a!r}).coordinates"
                        old = None if want is None else tuple(x - 10.0 for x in want)
                        if got is not None and got == old:
                            stale[case] = f"{got} (the position from before the change) instead of {want}"
                            if left:
                                leftovers[case] = ", ".join(f"`{k}`" for k in left)
                        else:
                            wrong[case] = f"{got} instead of {want}"
    except Unknown as ex:
        chk.error(rule, fa.where, f"Residue.find_atom / Atom.coordinates are not evaluable on a stub frame ({str(ex)[:140]}): whether a lookup after a change of the coordinates sees the change is not decided")
        return
    except Exception as ex:
        chk.error(rule, fa.where, f"evaluation of Residue.find_atom on a stub frame failed: {type(ex).__name__}: {str(ex)[:120]}")
        return
    if stale:
        k = next(iter(stale))
        kept = f"; the earlier call leaves {leftovers[k]} on the residue object, which the later lookup answers from" if k in leftovers else ""
        chk.violation(
            rule,
            fa.where,
            f"a lookup does not answer from the current frame: {k} returns {stale[k]}{kept}. What find_atom returns depends on what was asked before the coordinates changed ({len(stale)} of {n} lookups stale), "
            "so a torsion table computed after a rigid motion / superposition was written back mixes positions from before and after it: the torsions are not those of the moved structure (nor invariant under the motion)",
            K(fa, "lookup-stale"),
            expected="the coordinates in the frame at the time of the call",
            found=dict(list(stale.items())[:4]),
        )
    elif wrong:
        k = next(iter(wrong))
        chk.violation(rule, fa.where, f"find_atom(name).coordinates is not the position of the first atom of that name in the residue's frame: {k} returns {wrong[k]}", K(fa, "lookup-wrong"), found=dict(list(wrong.items())[:4]))
    else:
        chk.ok(rule, fa.where, f"find_atom(name).coordinates is the position the residue's frame holds at the time of the call: {n} lookups after a change of the coordinates (in place / frame replaced) x what was looked up before (nothing, the same atoms, other atoms, the connectivity test) x 3 frame layouts all see the changed coordinates; an absent atom stays absent")


class _Norm(float):
    """numpy scalar: has .item()"""

    _folder_stub = True

    def item(self):
        return float(self)


# ---------------------------------------------------------------------------------------------------------------------
# the arrays the torsion functions read are never written by code that only borrowed them
# ---------------------------------------------------------------------------------------------------------------------
_TORSION_FUNCS = ("calculate_torsion_angle_coords", "calculate_torsion_angle", "torsion_angle")


def check_borrowed_arrays(chk) -> None:
    """Every torsion is computed from arrays kept by the atoms (`atom.coordinates`, a cached_property: one array per atom for the
    rest of its life) or handed in as parameters.  Fact: nowhere in the package an in-place numpy operation (+=, -=, *=, /=,
    x[...] = v, out=x, x.fill / sort ...) is applied to such an array through a name that merely aliases it (sa/alias.py); a
    running sum that starts with `acc = atoms[0].coordinates` would change that atom's coordinates for every later reader -
    chi, the torsion table, cis/trans, a second centroid."""
    repo = chk.repo
    rule = "borrowed-array-write"
    from sa import alias

    try:
        found, attrs, n_funcs = alias.findings(repo)
    except Exception as ex:
        chk.error(rule, "-", f"alias analysis failed: {type(ex).__name__}: {str(ex)[:120]}")
        return
    # attributes whose value reaches a torsion function: `<x>.attr` in an argument of a torsion function, or read from its atom parameters
    feeds: set = set()
    torsion_homes: set = set()
    for fi in repo.all_funcs():
        if fi.qualname in _TORSION_FUNCS:
            torsion_homes.add((fi.module.name, fi.qualname))
            feeds |= {n.attr for n in ast.walk(fi.node) if isinstance(n, ast.Attribute) and n.attr in attrs}
        for c in ast.walk(fi.node):
            if isinstance(c, ast.Call) and astq.callee_name(c) in _TORSION_FUNCS:
                feeds |= {n.attr for a in c.args for n in ast.walk(a) if isinstance(n, ast.Attribute) and n.attr in attrs}
    # locals handed to a torsion function are filled from `.coordinates` too (lists of coordinates): every array attribute named so counts
    # functions that produce a torsion value or table, and everything they call (by name, within the package)
    by_name: Dict[str, List[Any]] = {}
    for fi in repo.all_funcs():
        by_name.setdefault(fi.qualname.split(".")[-1], []).append(fi)
    producers = {f"{fi.module.name}:{fi.qualname}": fi for fi in repo.all_funcs() if fi.qualname.split(".")[-1] in _TORSION_FUNCS + ("torsion_angles", "chi", "chi_class", "detect_cis_trans", "calculate_inter_stem_parameters")}
    todo = list(producers.values())
    while todo:
        fi = todo.pop()
        for c in ast.walk(fi.node):
            if isinstance(c, ast.Call):
                nm = astq.callee_name(c)
                for g in by_name.get(nm or "", []):
                    key = f"{g.module.name}:{g.qualname}"
                    if key not in producers and g.module.name == fi.module.name:
                        producers[key] = g
                        todo.append(g)
    k = 0
    for fi, node, name, src, attr, op in found:
        in_torsion = (fi.module.name, fi.qualname) in torsion_homes
        in_producer = f"{fi.module.name}:{fi.qualname}" in producers
        if not (attr in feeds or (attr == "parameter" and in_torsion) or (attr in ("parameter", "own-result") and in_producer)):
            continue
        k += 1
        if attr in ("parameter", "own-result") and in_producer and not in_torsion:
            chk.violation(
                rule,
                fi.site(node),
                f"{op} `{name}`, which is {src}: the write goes into the data of an object this code only received (or into the table it hands out) - on the way to a torsion value / torsion table, "
                "so the numbers the caller gets (radians, in (-pi, pi]) are changed behind its back (e.g. converted to degrees by a diagnostic), and whether that happens depends on the run-time configuration that guards this code. "
                "Work on a copy (`.copy()`, `to_numpy(copy=True)`, `a * k` instead of `a *= k`)",
                K(fi, f"borrowed:{attr}:{name}"),
                expected="in-place numpy operations only on arrays created in the same function",
                found={"written": name, "taken from": src, "kind": attr},
            )
            continue
        owner = "; ".join(attrs.get(attr, [])[:2]) if attr != "parameter" else "the caller's array"
        chk.violation(
            rule,
            fi.site(node),
            f"{op} `{name}`, which is not an array this function created but {src} ({owner}): the owner's numbers change for good, so every later reader of that array - "
            "Residue3D.chi / chi_class, the torsion table, cis/trans, the next centroid - computes its torsion from corrupted coordinates, and the result depends on which query ran first. "
            "Code that only reads coordinates must work on its own array (a copy, a sum built with `a + b`, numpy.mean)",
            K(fi, f"borrowed:{attr}:{name}"),
            expected="in-place numpy operations only on arrays created in the same function",
            found={"written": name, "taken from": src, "attribute": attr},
        )
    if k == 0:
        chk.ok(rule, "package", f"{n_funcs} functions read; array attributes that feed the torsion functions: {sorted(feeds) or '-'} ({'; '.join(x for a in sorted(feeds) for x in attrs[a][:2])}); no in-place numpy operation (+=, [..] =, out=, fill/sort ...) is applied to a name that aliases one of them or an array parameter of a torsion function; none of the {len(producers)} functions on the way to a torsion value / table writes into an array or DataFrame parameter or into an array sharing memory (to_numpy / .values) with the table it returns")


def check_chi(chk) -> None:
    """chi in both implementations + the torsion table of tertiary_v2 + agreement of the two."""
    sp = spec("iupac_torsions.json")
    t1 = check_chi_t1(chk, sp)
    t2 = check_table_v2(chk, sp)
    ta = chk.repo.func(T2, "Structure.torsion_angles")
    if t1 is not None and t2 is not None:
        same = all(t1.get(k) == t2.get(k) and t1.get(k) is not None for k in ("purine", "pyrimidine"))
        chk.expect(same, "chi-agree", ta.where, "both implementations compute chi of a typed purine / pyrimidine over the same atoms in the same order (evaluated)", f"tertiary.py and tertiary_v2.py use different chi atoms: {t1} vs {t2}", "chi:agree", expected=t1, found=t2)
    else:
        chk.ok("chi-agree", ta.where, "agreement of the chi atoms follows from both implementations matching the IUPAC table (pinned-form reading)")
