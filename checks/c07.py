"""C07 - structural elements decompose the secondary structure consistently.

Decided: the index-conversion discipline (A6b) at every crossing between BPSEQ numbers and sequence positions in
common.py / tertiary.py, the shapes of the windows cut by BpSeq.elements, the strand and stem constructors, the
hairpin / linking / closure tests and that every strand text is sliced from the structure's own dot-bracket.
"""
from __future__ import annotations

import ast
from typing import Any, Dict, List

from checks import c01
from checks.c01 import K
from sa import astq
from sa.flow import FlowMap, facts
from sa.indexkinds import I, UNK, IndexTyper
from sa.model import AnalysisError, norm

MOD = "common"


def flat(x) -> str:
    t = x if isinstance(x, str) else norm(x)
    return t.replace("(", "").replace(")", "").replace(" ", "")


SEEDS = [
    (MOD, "Strand.from_bpseq_entries", dict(entries=("SEQ0", "ENTRY"), dotbracket=("SEQ0", UNK))),
    (MOD, "Stem.from_bpseq_entries", dict(strand5p_entries=("SEQ0", "ENTRY"), all_entries=("LIST", "ENTRY"), dotbracket=("SEQ0", UNK))),
    (MOD, "BpSeq.from_dotbracket", {}),
    (MOD, "BpSeq.elements", {"stops": UNK}),
    (MOD, "BpSeq.without_isolated", {"stems": ("LIST", "STEM")}),
    (MOD, "BpSeq.__make_dot_bracket", {"regions": ("LIST", ("TUP", [I(1), I(1), "LEN"])), "sequence": ("SEQ0", UNK), "structure": ("SEQ0", UNK)}),
    (MOD, "BpSeq.__stems_entries", {}),
    (MOD, "BpSeq.__post_init__", {}),
]


def check_discipline(chk) -> None:
    repo = chk.repo
    total = 0
    for m, q, env in SEEDS:
        fi = repo.func(m, q)
        chk.note_function(fi)
        t = IndexTyper(fi.node, env, f"{m}.{q}").run()
        seen = set()
        for n, what in t.sites:
            k = (getattr(n, "lineno", 0), getattr(n, "col_offset", 0), what)
            if k in seen:
                continue
            seen.add(k)
            total += 1
        errs = {}
        for n, msg in t.errors:
            errs[(getattr(n, "lineno", 0), norm(n)[:70], msg)] = n
        if not errs:
            chk.ok("index-discipline", fi.where, f"{len(seen)} index conversion sites obey the 0-based / 1-based discipline")
        for (ln, txt, msg), n in errs.items():
            if "no index kind" in msg or "without index kind" in msg:
                # the typer lost track of a value: nothing is known, nothing is claimed
                if chk.repo.shape_status(m, q) == "shape":
                    chk.error("index-discipline", fi.site(n), f"`{txt}`: {msg} (index typing lost in a rewritten function)")
                else:
                    chk.violation("index-untyped", fi.site(n), f"`{txt}`: {msg}", K(fi, f"index:{txt}"))
            else:
                chk.violation("index-discipline", fi.site(n), f"`{txt}`: {msg}", K(fi, f"index:{txt}"))
    if total < 20:
        chk.error("index-discipline", "-", f"only {total} index conversion sites bound (27 on the pinned tree)")


class _E:
    """Stub of common.Entry for fragment evaluation: named fields in the instance dict (what the folder reads) plus positional access."""

    def __init__(self, t):
        self.index_, self.sequence, self.pair = t

    def _t(self):
        return (self.index_, self.sequence, self.pair)

    def __getitem__(self, i):
        return self._t()[i]

    def __iter__(self):
        return iter(self._t())

    def __len__(self):
        return 3

    def __eq__(self, o):
        return isinstance(o, _E) and o._t() == self._t()

    def __hash__(self):
        return hash(self._t())

    def __repr__(self):
        return f"E{self._t()}"


def _eval_strand(repo, entries, dotbracket):
    from sa.blockeval import BlockEval

    fi = repo.func(MOD, "Strand.from_bpseq_entries")
    params = [a.arg for a in fi.node.args.args]
    env = {params[0]: list(entries), params[1]: dotbracket, "Strand": lambda *a: ("Strand",) + tuple(a)}
    defaults = fi.node.args.defaults
    for a, d in zip(params[len(params) - len(defaults) :], defaults):
        env[a] = d.value if isinstance(d, ast.Constant) else None
    kind, val = BlockEval(repo, MOD, env).run(fi.node.body)
    return val if kind == "return" else None


def check_strand_eval(chk) -> bool:
    """Evaluate the two constructors on representatives (sa/blockeval.py): the strand span and texts are affine in (first, length), so
    three spans with distinct letters over a position-coded dot-bracket fix them; a stem's 3' strand is the ascending list of partners."""
    from sa.blockeval import BlockEval, Unknown

    repo = chk.repo
    fi = repo.func(MOD, "Strand.from_bpseq_entries")
    sf = repo.func(MOD, "Stem.from_bpseq_entries")
    db = "abcdefghijklmnopqrstuvwxyz"
    # mixed case: lower-case letters (modified residues) are data like any other and are reported verbatim
    letters = "ACgUnXyZKlmRSTwBDhVIPqEFjO"
    try:
        bad = []
        for first, n in ((5, 3), (2, 1), (9, 4), (1, 2)):
            ents = [_E((first + t, letters[first + t], 0)) for t in range(n)]
            got = _eval_strand(repo, ents, db)
            want = ("Strand", first, first + n - 1, "".join(letters[first + t] for t in range(n)), db[first - 1 : first + n - 1])
            if got != want:
                bad.append((want, got))
        if bad:
            w, g = bad[0]
            what = [nm for nm, a, b in zip(("first", "last", "sequence", "structure"), w[1:], (g[1:] if isinstance(g, tuple) and len(g) == 5 else (None,) * 4)) if a != b]
            chk.violation(
                "strand-eval",
                fi.where,
                f"Strand.from_bpseq_entries evaluated on entries {w[1]}..{w[2]} over a position-coded dot-bracket gives {g}, expected {w}: {', '.join(what) or 'result'} is not the span / the letters / the slice [first-1:last] of the entries",
                K(fi, "strand-eval"),
                expected=list(w),
                found=list(g) if isinstance(g, tuple) else g,
            )
        else:
            chk.ok("strand-eval", fi.where, "evaluated on 4 spans: Strand(first, first+len-1, letters in order, dotbracket[first-1:last])")
        # stems: 5' strands of two stems inside a 20-nt structure, one nested in a knot-like arrangement
        n = 20
        pairs = {3: 18, 4: 17, 7: 12, 8: 11, 9: 10}
        full = {}
        for a, b in pairs.items():
            full[a], full[b] = b, a
        all_entries = [_E((i, letters[i], full.get(i, 0))) for i in range(1, n + 1)]
        sbad = []
        for five in ((3, 4), (7, 8, 9), (7,)):
            p5 = [all_entries[i - 1] for i in five]
            params = [a.arg for a in sf.node.args.args]

            class _S:
                _folder_stub = True

                @staticmethod
                def from_bpseq_entries(e, d, *rest):
                    return _eval_strand(repo, e, d)

                def __call__(self, *a):
                    return ("Strand",) + tuple(a)

            env = {params[0]: p5, params[1]: list(all_entries), params[2]: db[:n], "Strand": _S(), "Stem": lambda a, b: ("Stem", a, b)}
            kind, val = BlockEval(repo, MOD, env).run(sf.node.body)
            three = sorted(full[i] for i in five)
            want = (
                "Stem",
                ("Strand", five[0], five[-1], "".join(letters[i] for i in five), db[five[0] - 1 : five[-1]]),
                ("Strand", three[0], three[-1], "".join(letters[i] for i in three), db[three[0] - 1 : three[-1]]),
            )
            if kind != "return" or val != want:
                sbad.append((want, val))
        if sbad:
            w, g = sbad[0]
            chk.violation("stem-eval", sf.where, f"Stem.from_bpseq_entries evaluated on the 5' strand {w[1][1]}..{w[1][2]} gives {g}, expected {w}: the 3' strand is not the ascending run of partners over the same dot-bracket", K(sf, "stem-eval"), expected=repr(w), found=repr(g))
        else:
            chk.ok("stem-eval", sf.where, "evaluated on 3 stems: Stem(5' strand, 3' strand = the partners in ascending order), both sliced from the given dot-bracket")
        return True
    except Unknown as e:
        chk.ok("strand-eval", fi.where, f"constructors not evaluable ({str(e)[:100]}); falling back to the pinned forms")
        return False
    except Exception as e:
        chk.ok("strand-eval", fi.where, f"constructors not evaluable ({type(e).__name__}: {str(e)[:80]}); falling back to the pinned forms")
        return False


def check_strand(chk) -> None:
    repo = chk.repo
    if check_strand_eval(chk):
        chk.note_function(repo.func(MOD, "Strand.from_bpseq_entries"))
        chk.note_function(repo.func(MOD, "Stem.from_bpseq_entries"))
        return
    fi = repo.func(MOD, "Strand.from_bpseq_entries")
    chk.note_function(fi)
    d = {nm: astq.assignments(fi.node, nm) for nm in ("first", "last", "sequence", "structure")}
    first = d["first"][0][1] if d["first"] else None
    last = d["last"][0][1] if d["last"] else None
    ok = first is not None and norm(first) == "entries[0].index_" and last is not None and norm(last) in ("first + len(entries) - 1", "entries[-1].index_")
    chk.expect(ok, "strand-span", fi.where, "first = entries[0].index_, last = first + len(entries) - 1", "strand span is not (entries[0].index_, first + len(entries) - 1)", K(fi, "span"), found=[norm(first) if first else None, norm(last) if last else None])
    st = [v for s, v in d["structure"] if v is not None]
    # the slice is taken after the optional swap: with reverse=False it is dotbracket[first-1:last]
    chk.expect(len(st) == 1 and norm(st[0]) == "dotbracket[first - 1:last]", "strand-structure", fi.where, "structure = dotbracket[first-1 : last]: the strand's own positions, inclusive", "strand structure is not dotbracket[first - 1:last]", K(fi, "structure"), found=[norm(x) for x in st])
    sq = [v for s, v in d["sequence"] if v is not None]
    ok = len(sq) == 1 and flat(sq[0]) in (flat("''.join([entry.sequence for entry in (entries if not reverse else reversed(entries))])"), flat("''.join(entry.sequence for entry in entries)"))
    chk.expect(ok, "strand-sequence", fi.where, "sequence = the entries' letters in strand order", "strand sequence is not the join of entry.sequence over the entries", K(fi, "sequence"), found=[norm(x) for x in sq])
    rets = [r for r in fi.node.body if isinstance(r, ast.Return)]
    chk.expect(len(rets) == 1 and norm(rets[0].value) == "Strand(first, last, sequence, structure)", "strand-result", fi.where, "returns Strand(first, last, sequence, structure)", "does not return Strand(first, last, sequence, structure)", K(fi, "result"))
    sf = repo.func(MOD, "Stem.from_bpseq_entries")
    chk.note_function(sf)
    p = astq.first_assign(sf.node, "paired")
    s3 = astq.first_assign(sf.node, "strand3p_entries")
    ok = p is not None and flat(p) in (flat("set([entry[2] for entry in strand5p_entries])"), flat("{entry[2] for entry in strand5p_entries}"), flat("set(entry.pair for entry in strand5p_entries)"), flat("{entry.pair for entry in strand5p_entries}"))
    ok = ok and s3 is not None and flat(s3) in (flat("list(filter(lambda entry: entry[0] in paired, all_entries))"), flat("[entry for entry in all_entries if entry[0] in paired]"), flat("[entry for entry in all_entries if entry.index_ in paired]"))
    chk.expect(ok, "stem-3p", sf.where, "3' strand = the entries whose index is a partner of the 5' strand, in ascending order (mirrored)", "the 3' strand is not selected as the entries whose index is a partner of the 5' strand", K(sf, "strand3p"))
    rets = [r for r in sf.node.body if isinstance(r, ast.Return)]
    ok = len(rets) == 1 and flat(rets[0].value) == flat("Stem(Strand.from_bpseq_entries(strand5p_entries, dotbracket), Strand.from_bpseq_entries(strand3p_entries, dotbracket))")
    chk.expect(ok, "stem-result", sf.where, "Stem(5' strand, 3' strand) over the same dot-bracket", "Stem is not built from (strand5p_entries, strand3p_entries) with the given dot-bracket", K(sf, "result"))


def _returned_by(repo, expr: ast.AST):
    """For `self.<name>` / `self.<name>()` where <name> is a property or method of BpSeq: the normalised texts of everything it may
    return (locals inlined, conditional expressions split, `.structure` distributed); None if expr is not such an access."""
    from sa.defuse import Inliner

    e = expr.func if isinstance(expr, ast.Call) and not expr.args else expr
    if not (isinstance(e, ast.Attribute) and isinstance(e.value, ast.Name) and e.value.id == "self"):
        return None
    name = e.attr
    if name in ("dot_bracket", "fcfs", "entries"):
        return None
    if not repo.has_func(MOD, f"BpSeq.{name}"):
        return None
    fn = repo.func(MOD, f"BpSeq.{name}").node
    inl = Inliner(fn)
    out = []

    def split(x: ast.AST):
        if isinstance(x, ast.IfExp):
            return split(x.body) + split(x.orelse)
        if isinstance(x, ast.BoolOp):
            r = []
            for v in x.values:
                r += split(v)
            return r
        if isinstance(x, ast.Attribute):
            return [ast.Attribute(value=b, attr=x.attr, ctx=ast.Load()) for b in split(x.value)] if isinstance(x.value, (ast.IfExp, ast.BoolOp)) else [x]
        return [x]

    for r in ast.walk(fn):
        if isinstance(r, ast.Return) and r.value is not None:
            v = inl.inline(r.value, r)
            for part in split(v):
                out.append(norm(ast.fix_missing_locations(part)))
    return out or None


def check_elements(chk) -> None:
    repo = chk.repo
    fi = repo.func(MOD, "BpSeq.elements")
    chk.note_function(fi)
    fm = FlowMap(fi.node)
    # every strand/stem text is cut from the structure's own dot-bracket
    cons = [c for c in ast.walk(fi.node) if isinstance(c, ast.Call) and astq.dotted(c.func) in ("Strand.from_bpseq_entries", "Stem.from_bpseq_entries")]
    from sa.defuse import Inliner

    inl = Inliner(fi.node)
    for c in cons:
        db = c.args[-1] if c.args else None
        if db is None:
            chk.error("elements-dotbracket", fi.site(c), "no dot-bracket argument")
            continue
        db = inl.inline(db, fm.stmt_of(c))
        t = norm(db)
        # a property / method of the class that hands out the text: read what it returns
        srcs = _returned_by(repo, db)
        if srcs is not None:
            wrong = [x for x in srcs if x != "self.dot_bracket.structure"]
            if wrong:
                chk.violation("elements-dotbracket", fi.site(c), f"`{t[:60]}` may return `{wrong[0][:90]}`: not the structure's own dot-bracket (self.dot_bracket.structure), strand structure text differs from the reported notation", K(fi, f"dotbracket:{norm(c)[:50]}"), found=srcs)
            else:
                chk.ok("elements-dotbracket", fi.site(c), f"strand text is sliced from self.dot_bracket.structure (through `{t[:40]}`)")
            continue
        if t == "self.dot_bracket.structure":
            chk.ok("elements-dotbracket", fi.site(c), "strand text is sliced from self.dot_bracket.structure")
        elif t.startswith("self.") and t != "self.dot_bracket.structure" and (t.endswith(".structure") or "fcfs" in t or "__dict__" in t):
            chk.violation("elements-dotbracket", fi.site(c), f"`{t[:90]}` is not the structure's own dot-bracket (self.dot_bracket.structure): strand structure text differs from the reported notation", K(fi, f"dotbracket:{norm(c)[:50]}"), found=t)
        else:
            chk.error("elements-dotbracket", fi.site(c), f"dot-bracket argument `{t[:90]}` not resolved")
    chk.floor("elements-dotbracket", 3)
    # fact-level rules first (checks/c07e.py); the pinned-form rules below are only the fallback when the code cannot be read at fact level
    from checks import c07e

    # 1. the decomposition evaluated on every small structure against the statement (checks/c07v.py): independent of any code shape
    from checks import c07v

    n_before = len(chk.obligations)
    abstain = c07v.elements_eval(chk, fi)
    eval_ok = abstain is None and not any(o.status == "violation" for o in chk.obligations[n_before:])
    if abstain is not None:
        chk.ok("elements-eval", fi.where, f"evaluation on small structures abstains ({abstain[:160]}); the mechanism rules decide alone")
    # 2. the mechanisms, for all structures (checks/c07e.py)
    n_mech = len(chk.obligations)
    failed = c07e.check(chk, fi)
    if eval_ok:
        # Closed-world findings of the mechanism rules ("an additional condition decides ...", "added unconditionally") mean
        # "this code path is not one I can read as the mechanism"; when the evaluation reached every statement of the code and
        # every structure came out right, such a path is part of a correct rewrite (a helper with an early return, a guard that
        # only short-cuts an empty case), not a lost element.  Definite mismatches (a wrong bound, a wrong end compared) stay.
        soft = ("additional condition", "under a condition", "added unconditionally", "under additional conditions", "emission sites of a")
        for o in chk.obligations[n_mech:]:
            if o.status == "violation" and any(m in o.detail for m in soft):
                o.status = "ok"
                o.detail = "mechanism not readable as such on this code (" + o.detail[:140] + "...); the behaviour is decided by the evaluation on all small structures, which reached every statement"
        for aspect, why in sorted(failed.items()):
            chk.ok("elements-facts", fi.where, f"fact-level reading of `{aspect}` not possible ({why[:120]}); decided by the evaluation on all small structures")
        check_walk_and_result(chk, fi, walk=False)
        return
    for aspect, why in sorted(failed.items()):
        chk.ok("elements-facts", fi.where, f"fact-level reading of `{aspect}` not possible ({why[:120]}); falling back to its pinned form")
    if "stops" in failed:
        # stems + stops
        sl = [l for l in fi.node.body if isinstance(l, ast.For) and norm(l.iter).endswith("__stems_entries")]
        ok = False
        if len(sl) == 1:
            body = [flat(s) for s in sl[0].body]
            v = norm(sl[0].target)
            want = [flat(f"stem = Stem.from_bpseq_entries({v}, self.entries, self.dot_bracket.structure)"), flat("stems.append(stem)")] + [flat(f"stopset.add(stem.{s}.{e} - 1)") for s in ("strand5p", "strand3p") for e in ("first", "last")]
            ok = body[:2] == want[:2] and sorted(body[2:]) == sorted(want[2:])
        chk.expect(ok, "elements-stops", fi.site(sl[0]) if sl else fi.where, "stops are exactly the four strand ends of every stem, as 0-based positions", "the stop set is not {strand5p.first, strand5p.last, strand3p.first, strand3p.last} - 1 of every stem", K(fi, "stops"))
        st = astq.first_assign(fi.node, "stops")
        chk.expect(st is not None and norm(st) == "sorted(stopset)", "elements-stops", fi.where, "stops = sorted(stopset)", "stops is not sorted(stopset)", K(fi, "stops-sorted"))
    if "tails" in failed:
        # 5' tail
        ifs = [s for s in fi.node.body if isinstance(s, ast.If)]
        t5 = [s for s in ifs if norm(s.test) in ("stops[0] > 0", "0 < stops[0]")]
        ok = len(t5) == 1 and flat(t5[0].body[0]) == flat("single_strands.append(SingleStrand(Strand.from_bpseq_entries(self.entries[:stops[0] + 1], self.dot_bracket.structure), True, False))")
        chk.expect(ok, "elements-tail5", fi.where, "5' tail = entries[0 .. stops[0]] when stops[0] > 0", "the 5' single strand is not entries[:stops[0] + 1] under stops[0] > 0 (flags True, False)", K(fi, "tail5"))
        t3 = [s for s in ifs if norm(s.test) in ("stops[-1] < len(self.entries) - 1", "len(self.entries) - 1 > stops[-1]")]
        ok = len(t3) == 1 and flat(t3[0].body[0]) == flat("single_strands.append(SingleStrand(Strand.from_bpseq_entries(self.entries[stops[-1]:], self.dot_bracket.structure), False, True))")
        chk.expect(ok, "elements-tail3", fi.where, "3' tail = entries[stops[-1] .. end] when stops[-1] < len - 1", "the 3' single strand is not entries[stops[-1]:] under stops[-1] < len(entries) - 1 (flags False, True)", K(fi, "tail3"))
    if "windows" in failed:
        # candidates
        cl = [l for l in fi.node.body if isinstance(l, ast.For) and norm(l.iter) == "range(1, len(stops))"]
        ok = False
        if len(cl) == 1 and isinstance(cl[0].target, ast.Name):
            i = cl[0].target.id
            body = cl[0].body
            c0 = body[0] if body else None
            ok = c0 is not None and flat(c0) == flat(f"candidate = self.entries[stops[{i} - 1]:stops[{i}] + 1]")
            inner = body[1] if len(body) == 2 and isinstance(body[1], ast.If) else None
            ok = ok and inner is not None and flat(inner.test) in (flat("all([entry.pair == 0 for entry in candidate[1:-1]])"), flat("all(entry.pair == 0 for entry in candidate[1:-1])"))
            if ok:
                hp = inner.body[0] if len(inner.body) == 1 and isinstance(inner.body[0], ast.If) else None
                ok = hp is not None and norm(hp.test) in ("candidate[0].pair == candidate[-1].index_", "candidate[-1].index_ == candidate[0].pair", "candidate[0].index_ == candidate[-1].pair")
                ok = ok and [flat(s) for s in hp.body] == [flat("hairpins.append(Hairpin(Strand.from_bpseq_entries(candidate, self.dot_bracket.structure)))")]
                ok = ok and [flat(s) for s in hp.orelse] == [flat("loop_candidates.append(Strand.from_bpseq_entries(candidate, self.dot_bracket.structure))")]
                ok = ok and not inner.orelse
        chk.expect(
            ok,
            "elements-windows",
            fi.site(cl[0]) if cl else fi.where,
            "every window entries[stops[i-1] .. stops[i]] (closed) with an unpaired interior is a hairpin iff its ends pair with each other, else a loop strand candidate",
            "the candidate windows are not the closed windows entries[stops[i-1]:stops[i]+1] for i in 1..len(stops)-1 with the interior/hairpin tests",
            K(fi, "windows"),
        )
    if "links" in failed:
        # linking graph
        ll = [l for l in fi.node.body if isinstance(l, ast.For) and norm(l.iter) == "range(len(loop_candidates))"]
        ok = False
        if ll:
            l0 = ll[0]
            inner = [x for x in l0.body if isinstance(x, ast.For)]
            if len(inner) == 1 and isinstance(l0.target, ast.Name) and isinstance(inner[0].target, ast.Name):
                i, j = l0.target.id, inner[0].target.id
                ok = norm(inner[0].iter) in (f"range({i} + 1, len(loop_candidates))",)
                txt = [flat(s) for s in inner[0].body]
                want = [
                    flat(f"i_first, i_last = loop_candidates[{i}].first, loop_candidates[{i}].last"),
                    flat(f"j_first, j_last = loop_candidates[{j}].first, loop_candidates[{j}].last"),
                    flat(f"if self.entries[i_last - 1].pair == j_first:\n    graph[{i}].add({j})"),
                    flat(f"if self.entries[j_last - 1].pair == i_first:\n    graph[{j}].add({i})"),
                ]
                ok = ok and txt == want
        chk.expect(ok, "elements-links", fi.site(ll[0]) if ll else fi.where, "strand a links to strand b iff the nucleotide at a.last pairs with b.first (both directions examined for every pair)", "the linking graph is not built from entries[x_last - 1].pair == y_first over all pairs of loop candidates in both directions", K(fi, "links"))
    if "closure" in failed:
        # closure + loop record
        closes = [s for s in ast.walk(fi.node) if isinstance(s, ast.If) and norm(s.test) == "self.entries[loop[0].first - 1].pair == loop[-1].last"]
        ok = False
        if len(closes) == 1:
            inner = closes[0].body[0] if len(closes[0].body) == 1 and isinstance(closes[0].body[0], ast.If) else None
            ok = inner is not None and flat(inner.test) in (flat("not all([strand.last - strand.first <= 1 for strand in loop])"), flat("not all(strand.last - strand.first <= 1 for strand in loop)"), flat("any(strand.last - strand.first > 1 for strand in loop)"))
            ok = ok and [flat(s) for s in inner.body] == [flat("loops.append(Loop(loop))"), flat("used.update(loop)")]
        chk.expect(ok, "elements-closure", fi.where, "a walk is a loop iff the first strand's first nucleotide pairs with the last strand's last; it is recorded in walk order", "loop closure/record is not `entries[loop[0].first - 1].pair == loop[-1].last` -> loops.append(Loop(loop)) in walk order", K(fi, "closure"))
    if "tails" in failed:
        # leftovers
        lo = [l for l in fi.node.body if isinstance(l, ast.For) and norm(l.iter) == "loop_candidates"]
        ok = len(lo) == 1 and len(lo[0].body) == 1 and isinstance(lo[0].body[0], ast.If) and flat(lo[0].body[0].test) == flat(f"{norm(lo[0].target)} not in used") and [flat(s) for s in lo[0].body[0].body] == [flat(f"single_strands.append(SingleStrand({norm(lo[0].target)}, False, False))")]
        chk.expect(ok, "elements-leftover", fi.where, "loop candidates that are in no loop become single strands", "loop candidates not used by a loop are not all reported as SingleStrand(candidate, False, False)", K(fi, "leftover"))
    check_walk_and_result(chk, fi, walk="walk" in failed)


def check_walk_and_result(chk, fi, walk: bool = True) -> None:
    # walk: follows one unused successor at a time (pinned form; the fact-level rule is c07e.walk_fact)
    walks = [w for w in ast.walk(fi.node) if isinstance(w, ast.While) and norm(w.test) == "True"]
    ok = False
    if len(walks) == 1:
        w = walks[0]
        ok = len(w.body) == 1 and isinstance(w.body[0], ast.For) and norm(w.body[0].iter) == "graph[i]" and [norm(s) for s in w.body[0].orelse] == ["break"]
        if ok:
            f0 = w.body[0]
            j = norm(f0.target)
            ok = len(f0.body) == 1 and isinstance(f0.body[0], ast.If) and flat(f0.body[0].test) == flat(f"loop_candidates[{j}] not in used and loop_candidates[{j}] not in loop") and [flat(s) for s in f0.body[0].body] == [flat(f"loop.append(loop_candidates[{j}])"), flat(f"i = {j}"), "break"]
    if walk:
        chk.expect(ok, "elements-walk", fi.where, "the walk appends one unused successor at a time and stops when there is none", "the loop walk is not `follow the first unused successor not yet in the loop until none is left`", K(fi, "walk"))
    rets = [r for r in fi.node.body if isinstance(r, ast.Return)]
    chk.expect(len(rets) == 1 and flat(rets[0].value) == "stems,single_strands,hairpins,loops", "elements-result", fi.where, "returns (stems, single_strands, hairpins, loops)", "does not return (stems, single_strands, hairpins, loops)", K(fi, "result"))


def check_tertiary_sites(chk) -> None:
    """The 1-based consumers in tertiary.py (strand -> residues, stem coordinates)."""
    repo = chk.repo
    fi = repo.func("tertiary", "Mapping2D3D.get_residues_for_strand")
    chk.note_function(fi)
    loops = [l for l in fi.node.body if isinstance(l, ast.For)]
    chk.expect(len(loops) == 1 and norm(loops[0].iter) == "range(strand.first, strand.last + 1)", "index-discipline", fi.where, "residues of a strand: BPSEQ numbers first..last inclusive", "strand residues are not looked up for range(strand.first, strand.last + 1)", K(fi, "range"))
    gs = repo.func("tertiary", "Mapping2D3D.get_stem_coordinates")
    chk.note_function(gs)
    d = {nm: astq.first_assign(gs.node, nm) for nm in ("stem_len",)}
    body = {norm(s.targets[0]): norm(s.value) for s in ast.walk(gs.node) if isinstance(s, ast.Assign) and isinstance(s.targets[0], ast.Name)}
    ok = body.get("stem_len") == "stem.strand5p.last - stem.strand5p.first + 1" and body.get("idx5p") == "stem.strand5p.first + i" and body.get("idx3p") == "stem.strand3p.last - i"
    chk.expect(ok, "index-discipline", gs.where, "pair t of a stem = (strand5p.first + t, strand3p.last - t) for t in [0, length)", "stem pairs are not enumerated as (strand5p.first + i, strand3p.last - i) for i in range(last - first + 1)", K(gs, "pairs"), found=body)


def check_cli(chk) -> None:
    """motif_extractor.main: the dot-bracket it prints and the elements it lists belong to the same structure object (same reaching
    definition), otherwise the strand texts are not slices of the reported notation."""
    repo = chk.repo
    if "motif_extractor" not in repo.modules or not repo.has_func("motif_extractor", "main"):
        chk.error("cli-same-structure", "-", "motif_extractor.main not found")
        return
    fi = repo.func("motif_extractor", "main")
    chk.note_function(fi)
    counter = [0]
    uses = []  # (attr, name, version, node)

    def fresh() -> int:
        counter[0] += 1
        return counter[0]

    def scan_expr(e: ast.AST, ver: dict) -> None:
        for n in ast.walk(e):
            if isinstance(n, ast.Attribute) and n.attr in ("dot_bracket", "elements") and isinstance(n.value, ast.Name):
                uses.append((n.attr, n.value.id, ver.get(n.value.id, 0), n))

    def block(stmts, ver: dict) -> dict:
        for st in stmts:
            if isinstance(st, ast.If):
                scan_expr(st.test, ver)
                a = block(st.body, dict(ver))
                b = block(st.orelse, dict(ver))
                for k in set(a) | set(b):
                    if a.get(k, ver.get(k, 0)) != b.get(k, ver.get(k, 0)):
                        ver[k] = fresh()  # value depends on the branch taken: a new definition point
                    else:
                        ver[k] = a.get(k, ver.get(k, 0))
            elif isinstance(st, (ast.For, ast.While, ast.With, ast.Try)):
                for fld in ("iter", "test"):
                    if hasattr(st, fld):
                        scan_expr(getattr(st, fld), ver)
                for fld in ("body", "orelse", "finalbody"):
                    if getattr(st, fld, None):
                        ver.update(block(getattr(st, fld), ver))
                for h in getattr(st, "handlers", []):
                    ver.update(block(h.body, ver))
            elif isinstance(st, ast.Assign):
                scan_expr(st.value, ver)
                for t in st.targets:
                    for nm in astq.target_names(t):
                        if isinstance(t, ast.Name) and isinstance(st.value, ast.Name):
                            ver[nm] = ver.get(st.value.id, 0)  # alias
                        else:
                            ver[nm] = fresh()
            else:
                scan_expr(st, ver)
        return ver

    block(fi.node.body, {})
    shown = [(nm, v, n) for a, nm, v, n in uses if a == "dot_bracket"]
    listed = [(nm, v, n) for a, nm, v, n in uses if a == "elements"]
    if not listed:
        chk.error("cli-same-structure", fi.where, "no `.elements` access found in motif_extractor.main")
        return
    lv = {(nm, v) for nm, v, _ in listed}
    bad = [(nm, v, n) for nm, v, n in shown if (nm, v) not in lv]
    if bad:
        nm, v, n = bad[0]
        chk.violation(
            "cli-same-structure",
            fi.site(n),
            f"`{nm}.dot_bracket` is shown for another value of `{nm}` than the one whose elements are listed (line {listed[0][2].lineno}): `{nm}` is reassigned in between, so the strand texts are not slices of the reported dot-bracket",
            K(fi, "cli-same-structure"),
        )
    else:
        chk.ok("cli-same-structure", fi.where, f"{len(shown)} shown dot-bracket(s) and {len(listed)} element listing(s) read the same definition of the structure")


def run(chk) -> None:
    chk.explanation = (
        "Index-kind analysis (every nucleotide-naming integer carries base 0/1 and a constant offset; subscripts, slice bounds, stores into 1-based fields, range bounds, comparisons and "
        "containers are checked at each crossing) over the element code of common.py, plus shape rules for the windows of BpSeq.elements: stops = four strand ends of every stem, closed "
        "windows entries[stops[i-1]..stops[i]], tails, hairpin test, linking test on entries[last-1].pair == first, closure test, walk order preserved, every strand text sliced from the "
        "structure's own dot-bracket; Strand/Stem constructors; stem runs and regions are C01's L1/L2 (re-run)."
    )
    chk.trusted = ["CPython ast", "seed table of which fields are 1-based (sa/indexkinds.py, confirmed by reading)"]
    chk.assumptions = ["valid BPSEQ", "correctness of the loop-linking walk on knotted multiloops and the exactly-once coverage as a whole are not decided (DESIGN.md C07 residual)"]
    chk.robust |= {"index-discipline", "stems-run", "stems-filter", "region-triple", "elements-dotbracket"}
    # fact-level rules of checks/c07e.py decide the same behaviour on rewritten code; the pinned forms are reading aids there
    chk.robust |= {"elements-prelude-fact", "elements-stops-fact", "elements-windows-fact", "elements-tails-fact", "elements-links-fact", "elements-closure-fact", "elements-walk-fact", "elements-eval-stems", "elements-eval-hairpins", "elements-eval-loops", "elements-eval-coverage", "elements-eval-text", "cli-same-structure", "strand-eval", "stem-eval"}
    check_discipline(chk)
    check_strand(chk)
    check_elements(chk)
    check_tertiary_sites(chk)
    check_cli(chk)
    c01.check_stems(chk)
    c01.check_regions(chk, with_fcfs=False)


MANIFEST_ENTRY = {
    "text": "Static analysis of the current source of the element decomposition: (1) index-kind abstract interpretation (0-based positions vs 1-based BPSEQ numbers with constant offsets) at every "
    "subscript, slice bound, 1-based field store, range bound and comparison; (2) fact-level rules for BpSeq.elements over canonical symbolic positions (affine forms with def-use roles, literal loops "
    "unrolled, path enumeration of the window loop): the stop set is exactly the four strand ends of every stem, every consecutive pair of stops cuts a closed window that becomes a hairpin / a loop-strand "
    "candidate / nothing by the interior and end tests, the two tails and the leftover strands, the linking graph (edge iff entries[a.last-1].pair == b.first, every ordered pair examined, also through an "
    "index map), the closure test and walk order, the three idioms of the successor walk, every strand text sliced from the structure's own dot-bracket; (3) the Strand/Stem constructors evaluated as "
    "extracted fragments on representative spans (affine in first/length); (4) a reaching-definition rule for the CLI (the dot-bracket shown and the elements listed belong to the same object); (5) the "
    "cross-cutting memo-key rule. All are necessary conditions whose violation shifts, truncates, drops or mis-links elements for some structure; they hold for all structures because they are facts about the "
    "index arithmetic and the paths of the code itself; (6) the whole decomposition interpreted from the ast on every set of pairs over 2..7 positions (quick: 350 sets; thorough: 2..9 positions, 3734 sets) and 18 larger named shapes and judged by the clauses of the "
    "statement (stems, hairpins, loops incl. maximality, exactly-one coverage, strand texts), with statement and condition coverage required. Pinned-form comparison is used only as a per-aspect fallback.",
    "note": "Trusted: seed table of 1-based fields, CPython ast, the ast interpreter. Not decided: the statement for structures beyond the evaluated ones (there only the mechanism rules speak); inputs violating the valid-BPSEQ assumption.",
    "technique": "static analysis: abstract interpretation with index kinds (base, offset) + symbolic affine positions with def-use roles + path enumeration + fragment evaluation on input-class representatives + reaching definitions, all over the ast",
}
