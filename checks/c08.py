"""C08 - structure reading preserves atoms, residue identity and the requested model.

Decided on parser.py: the model is part of every identity key used while several models are still mixed, the
proximity filter never compares atoms of different models, the KD-tree indices subscript the list the tree was
built from, model selection, both mmCIF null markers, None-safe occupancy comparisons and their direction, the
PDB column slices (= pinned table = second reader), int parsing that keeps negative numbers, no extra skip in
the ATOM branch, grouping key and flush.
"""
from __future__ import annotations

import ast
import json
import os
from typing import Any, Dict, List, Optional, Tuple

from checks.c03 import K, spec
from sa import astq
from sa.consteval import Folder
from sa.flow import FlowMap, facts
from sa.model import AnalysisError, FuncInfo, norm

P = "parser"


def flat(x) -> str:
    t = x if isinstance(x, str) else norm(x)
    return t.replace("(", "").replace(")", "").replace(" ", "")


def line_slices(fn: ast.AST, var: str = "line") -> Dict[str, Tuple[int, int]]:
    """name -> (a, b) for every `name = line[a:b]...` / `"key": line[a:b]...` / `name = line[a]` in fn."""
    out: Dict[str, Tuple[int, int]] = {}

    def sl(e: ast.AST) -> Optional[Tuple[int, int]]:
        for n in ast.walk(e):
            if isinstance(n, ast.Subscript) and isinstance(n.value, ast.Name) and n.value.id == var:
                s = n.slice
                if isinstance(s, ast.Slice):
                    lo = s.lower.value if isinstance(s.lower, ast.Constant) else (0 if s.lower is None else None)
                    hi = s.upper.value if isinstance(s.upper, ast.Constant) else None
                    if lo is not None and hi is not None:
                        return (lo, hi)
                elif isinstance(s, ast.Constant) and isinstance(s.value, int):
                    return (s.value, s.value + 1)
        return None

    for n in ast.walk(fn):
        if isinstance(n, ast.Assign) and len(n.targets) == 1 and isinstance(n.targets[0], ast.Name):
            r = sl(n.value)
            if r is not None and n.targets[0].id not in out:
                out[n.targets[0].id] = r
        if isinstance(n, ast.Dict):
            for k, v in zip(n.keys, n.values):
                if isinstance(k, ast.Constant) and isinstance(k.value, str):
                    r = sl(v)
                    if r is not None:
                        out[k.value] = r
                    elif isinstance(v, ast.Name) and v.id in out:
                        out[k.value] = out[v.id]
                    elif isinstance(v, ast.IfExp):
                        for nm in astq.names(v):
                            if nm in out:
                                out[k.value] = out[nm]
    return out


def check_pdb_columns(chk) -> Dict[str, Tuple[int, int]]:
    repo = chk.repo
    sp = spec("pdb_columns.json")
    fi = repo.func(P, "parse_pdb")
    chk.note_function(fi)
    got = line_slices(fi.node)
    # restrict to the ATOM branch variables
    names = sp["parser_names"]
    res = {}
    for var, field in names.items():
        want = tuple(sp["atom"][field])
        g = got.get(var)
        res[field] = g
        chk.expect(
            g == want,
            "pdb-columns",
            fi.where,
            f"{field} is read from columns {want[0] + 1}-{want[1]}",
            f"{field} is read from line[{g[0]}:{g[1]}] " if g else f"{field} slice not found " + f"- the PDB format puts it at line[{want[0]}:{want[1]}]",
            K(fi, f"column:{field}"),
            expected=list(want),
            found=list(g) if g else None,
        )
    # MODEL serial
    ms = [n for n in ast.walk(fi.node) if isinstance(n, ast.If) and norm(n.test) in ("line.startswith('MODEL')",)]
    ok = False
    if ms:
        sls = line_slices(ast.Module(body=ms[0].body, type_ignores=[]))
        ok = sls.get("model") == tuple(sp["model_serial"])
    chk.expect(ok, "pdb-columns", fi.where, "MODEL serial is read from columns 11-14", "MODEL serial is not read from line[10:14]", K(fi, "column:model"))
    return res


def check_parse_pdb(chk) -> None:
    repo = chk.repo
    fi = repo.func(P, "parse_pdb")
    fm = FlowMap(fi.node)
    loops = [l for l in fi.node.body if isinstance(l, ast.For)]
    if len(loops) != 1:
        raise AnalysisError("parse_pdb: line loop not found")
    loop = loops[0]
    chain = loop.body[0] if loop.body and isinstance(loop.body[0], ast.If) else None
    branches = []
    cur = chain
    while isinstance(cur, ast.If):
        branches.append(cur)
        cur = cur.orelse[0] if len(cur.orelse) == 1 and isinstance(cur.orelse[0], ast.If) else None
    atom_br = [b for b in branches if norm(b.test) in ("line.startswith('ATOM') or line.startswith('HETATM')", "line.startswith(('ATOM', 'HETATM'))")]
    chk.expect(len(atom_br) == 1 and len(loop.body) == 1, "pdb-atom-branch", fi.site(loop), "every line starting with ATOM or HETATM is decoded", "the line loop does not decode exactly the lines starting with ATOM or HETATM (extra pre-filter or changed test)", K(fi, "atom-branch"), found=[norm(b.test) for b in branches])
    if atom_br:
        b = atom_br[0]
        skips = [n for s in b.body for n in ast.walk(s) if isinstance(n, (ast.Continue, ast.Break, ast.If, ast.Try, ast.Return))]
        chk.expect(not skips, "pdb-atom-branch", fi.site(b), "the ATOM branch has no conditional skip: every atom line yields an atom", "the ATOM/HETATM branch can skip a line (conditional/continue/try): atoms are silently dropped", K(fi, "atom-skip"), found=[norm(s)[:60] for s in skips[:3]])
        conv = {norm(s.targets[0]): norm(s.value) for s in b.body if isinstance(s, ast.Assign) and isinstance(s.targets[0], ast.Name)}
        ok = conv.get("residue_number") == "int(line[22:26].strip())" and conv.get("insertion_code") == "line[26] if line[26] != ' ' else None" and conv.get("chain_identifier") == "line[21]"
        ok = ok and all(conv.get(a) == f"float(line[{lo}:{hi}].strip())" for a, lo, hi in (("x", 30, 38), ("y", 38, 46), ("z", 46, 54), ("occupancy", 54, 60)))
        chk.expect(ok, "pdb-decoding", fi.site(b), "number via int() (sign kept), coordinates/occupancy via float(), blank insertion code -> None", "field decoding changed: residue number must be int(line[22:26].strip()), icode None iff blank, x/y/z/occupancy float of their columns", K(fi, "decoding"), found=conv)
        cons = [c for c in ast.walk(b) if isinstance(c, ast.Call) and astq.callee_name(c) == "Atom"]
        ok = len(cons) == 1 and [norm(a) for a in cons[0].args] == ["None", "None", "auth", "model", "atom_name", "x", "y", "z", "occupancy"]
        au = conv.get("auth")
        ok = ok and au is not None and flat(au) == flat("ResidueAuth(chain_identifier, residue_number, insertion_code, residue_name)")
        chk.expect(ok, "pdb-atom-record", fi.site(b), "Atom(None, None, ResidueAuth(chain, number, icode, name), model, atom name, x, y, z, occupancy)", "the Atom built from a PDB line does not carry (auth identity, current model, name, x, y, z, occupancy) in field order", K(fi, "atom-record"))
    tpi = repo.func(P, "try_parse_int")
    chk.note_function(tpi)
    body = tpi.node.body
    ok = len(body) == 1 and isinstance(body[0], ast.Try) and [norm(s) for s in body[0].body] == [f"return int({tpi.node.args.args[0].arg})"] and len(body[0].handlers) == 1 and [norm(s) for s in body[0].handlers[0].body] == ["return None"]
    chk.expect(ok, "int-parsing", tpi.where, "try_parse_int = int(s), None on failure: negative numbers survive", "try_parse_int is not `try: return int(s) except: return None` - e.g. isdigit() rejects negative residue numbers", K(tpi, "body"))


def check_filter(chk) -> None:
    repo = chk.repo
    fi = repo.func(P, "filter_clashing_atoms")
    chk.note_function(fi)
    fm = FlowMap(fi.node)
    c = spec("constants.json")["C08"]
    # default clash distance
    dflt = Folder(repo, P).try_fold(fi.node.args.defaults[-1]) if fi.node.args.defaults else None
    chk.expect(dflt == c["clash_distance"], "clash-distance", fi.where, f"default clash distance folds to {dflt}", f"default clash distance is {dflt}, the statement says {c['clash_distance']} A", K(fi, "clash-distance"), expected=c["clash_distance"], found=dflt)
    callers = [(g, cl) for g in repo.all_funcs() for cl in astq.calls(g.node, "filter_clashing_atoms")]
    over = [(g, cl) for g, cl in callers if len(cl.args) > 1 or cl.keywords]
    chk.expect(not over and len(callers) >= 2, "clash-distance", fi.where, f"{len(callers)} callers use the default distance", "a caller overrides the clash distance", K(fi, "clash-override"))
    # identity key contains the model
    keys = [s for s in ast.walk(fi.node) if isinstance(s, ast.Assign) and norm(s.targets[0]) == "key" and isinstance(s.value, ast.Tuple)]
    ok = len(keys) == 1 and {norm(e) for e in keys[0].value.elts} >= {"atom.model", "atom.label", "atom.auth", "atom.name"}
    chk.expect(ok, "identity-key-model", fi.site(keys[0]) if keys else fi.where, "duplicate atoms are keyed by (model, label, auth, name)", "the duplicate-atom key does not contain model, label, auth and name: atoms of different models (or residues) overwrite each other", K(fi, "key"), found=norm(keys[0].value) if keys else None)
    # replacement guard: new wins iff its occupancy is known and greater (None-safe)
    reps = [s for s in ast.walk(fi.node) if isinstance(s, ast.Assign) and norm(s) == "unique_atoms[key] = atom"]
    if len(reps) != 1:
        chk.error("occupancy-wins", fi.where, "replacement site `unique_atoms[key] = atom` not found")
    else:
        g = [x for x in fm.of(reps[0]).guards if x.kind == "if"]
        test = g[-1].test if g else None
        cmps = [n for n in ast.walk(test) if isinstance(n, ast.Compare) and any(isinstance(o, (ast.Gt, ast.Lt, ast.GtE, ast.LtE)) for o in n.ops)] if test is not None else []
        dir_ok = len(cmps) == 1 and norm(cmps[0]) in ("atom.occupancy > unique_atoms[key].occupancy", "unique_atoms[key].occupancy < atom.occupancy")
        chk.expect(dir_ok, "occupancy-wins", fi.site(reps[0]), "a later copy replaces the kept one only if its occupancy is strictly higher (first wins ties)", "the duplicate filter does not keep the highest-occupancy copy (`new > kept`)", K(fi, "dup-direction"), found=[norm(x) for x in cmps])
        if cmps:
            gs = fm.expr_guards(g[-1].stmt, cmps[0]) or ()
            fs = facts(tuple(x for x in gs if x.stmt is None or x.stmt is g[-1].stmt or True))
            need = {"atom.occupancy": False, "unique_atoms[key].occupancy": False}
            for f in fs:
                for nm in need:
                    if (norm(f.test) == f"{nm} is not None" and f.polarity) or (norm(f.test) == f"{nm} is None" and not f.polarity):
                        need[nm] = True
            chk.expect(all(need.values()), "optional-occupancy", fi.site(cmps[0]), "the occupancy comparison is reached only when both occupancies are known", "an Optional occupancy is compared with > without a dominating None test: TypeError for atoms without occupancy", K(fi, "dup-none"), found=need)
        first = test is not None and any(norm(v) == "key not in unique_atoms" for v in (test.values if isinstance(test, ast.BoolOp) else [test]))
        chk.expect(first, "occupancy-wins", fi.site(reps[0]), "the first copy of an atom is always kept", "the first occurrence of a key is not unconditionally kept", K(fi, "dup-first"))
    # KD-tree over the list that the indices subscript
    lst = astq.first_assign(fi.node, "unique_atoms_list")
    coords = astq.first_assign(fi.node, "coords")
    tree = astq.first_assign(fi.node, "tree")
    pairs = astq.first_assign(fi.node, "pairs")
    keep = astq.first_assign(fi.node, "atoms_to_keep")
    ok = (
        lst is not None and norm(lst) == "list(unique_atoms.values())"
        and coords is not None and flat(coords) == flat("np.array([(atom.x, atom.y, atom.z) for atom in unique_atoms_list])")
        and tree is not None and norm(tree) == "KDTree(coords)"
        and pairs is not None and norm(pairs) in ("tree.query_pairs(r=clash_distance)", "tree.query_pairs(clash_distance)")
        and keep is not None and norm(keep) == "set(range(len(unique_atoms_list)))"
    )
    chk.expect(ok, "kdtree-index-space", fi.where, "the KD-tree, the pair indices, the keep-set and the result all refer to positions in unique_atoms_list", "the KD-tree is not built over exactly the list that its pair indices (and the keep-set) subscript: wrong atoms are compared and dropped", K(fi, "index-space"), found={"coords": norm(coords) if coords is not None else None, "keep": norm(keep) if keep is not None else None})
    subs = {norm(n.value) for n in ast.walk(fi.node) if isinstance(n, ast.Subscript) and isinstance(n.slice, ast.Name) and n.slice.id in ("i", "j") and "unique_atoms" in norm(n.value)}
    chk.expect(subs == {"unique_atoms_list"}, "kdtree-index-space", fi.where, "pair indices subscript unique_atoms_list only", f"pair indices subscript {sorted(subs)}", K(fi, "index-subscripts"))
    rets = [r for r in fi.node.body if isinstance(r, ast.Return)]
    chk.expect(len(rets) == 1 and flat(rets[0].value) in (flat("[unique_atoms_list[i] for i in atoms_to_keep]"), flat("[unique_atoms_list[i] for i in sorted(atoms_to_keep)]")), "kdtree-index-space", fi.where, "result = the kept positions of unique_atoms_list", "the result is not [unique_atoms_list[i] for i in atoms_to_keep]", K(fi, "result"))
    # clash loop
    cl = [l for l in fi.node.body if isinstance(l, ast.For) and norm(l.iter) == "pairs"]
    if len(cl) != 1:
        chk.error("clash-loop", fi.where, "clash loop over pairs not found")
        return
    cl = cl[0]
    skips = [s for s in cl.body if isinstance(s, ast.If) and s.body and isinstance(s.body[-1], ast.Continue) and not s.orelse]
    model_skip = [s for s in skips if flat(s.test) in (flat("unique_atoms_list[i].model != unique_atoms_list[j].model"), flat("unique_atoms_list[j].model != unique_atoms_list[i].model"))]
    chk.expect(len(model_skip) == 1, "clash-same-model", fi.site(cl), "atoms of different models are never treated as clashing", "the proximity filter compares atoms of different models: overlapping models of an ensemble lose atoms", K(fi, "clash-model"))
    none_skip = [s for s in skips if flat(s.test) in (flat("unique_atoms_list[i].occupancy is None or unique_atoms_list[j].occupancy is None"), flat("unique_atoms_list[j].occupancy is None or unique_atoms_list[i].occupancy is None"))]
    chk.expect(len(none_skip) == 1, "optional-occupancy", fi.site(cl), "pairs with an unknown occupancy are skipped before comparing", "occupancies are compared in the clash loop without a None test", K(fi, "clash-none"))
    extra = [s for s in skips if s not in model_skip and s not in none_skip]
    chk.expect(not extra, "clash-loop", fi.site(cl), "no other pair is exempt from the clash rule", f"additional skip in the clash loop: `{norm(extra[0].test)[:60]}`" if extra else "", K(fi, "clash-extra"))
    dec = [s for s in cl.body if isinstance(s, ast.If) and s not in skips]
    ok = len(dec) == 1 and flat(dec[0].test) == flat("unique_atoms_list[i].occupancy > unique_atoms_list[j].occupancy") and [flat(s) for s in dec[0].body] == [flat("atoms_to_keep.discard(j)")] and [flat(s) for s in dec[0].orelse] == [flat("atoms_to_keep.discard(i)")]
    ok2 = len(dec) == 1 and flat(dec[0].test) == flat("unique_atoms_list[i].occupancy < unique_atoms_list[j].occupancy") and [flat(s) for s in dec[0].body] == [flat("atoms_to_keep.discard(i)")] and [flat(s) for s in dec[0].orelse] == [flat("atoms_to_keep.discard(j)")]
    chk.expect(ok or ok2, "clash-loser", fi.site(cl), "of two clashing atoms the one with the lower occupancy is dropped", "the clash rule does not drop the lower-occupancy atom of the pair", K(fi, "clash-loser"))
    if dec and none_skip and model_skip:
        chk.expect(max(none_skip[0].lineno, model_skip[0].lineno) < dec[0].lineno, "clash-loop", fi.site(cl), "the skips precede the decision", "the decision precedes its guards", K(fi, "clash-order"))


def check_model_selection(chk) -> None:
    repo = chk.repo
    fi = repo.func(P, "read_3d_structure")
    chk.note_function(fi)
    am = astq.first_assign(fi.node, "available_models")
    abm = astq.first_assign(fi.node, "atoms_by_model")
    ok = am is not None and flat(am) == flat("{atom.model: None for atom in atoms}") and abm is not None and flat(abm) == flat("{model: list(filter(lambda atom: atom.model == model, atoms)) for model in available_models}")
    chk.expect(ok, "model-selection", fi.where, "atoms are partitioned by atom.model, models in file order", "atoms are not partitioned by exact equality of atom.model over the models in file order", K(fi, "partition"))
    sel = [s for s in fi.node.body if isinstance(s, ast.If)]
    ok = len(sel) == 1 and flat(sel[0].test) == flat("model is not None and model in available_models") and [flat(s) for s in sel[0].body] == [flat("atoms = atoms_by_model[model]")] and [flat(s) for s in sel[0].orelse] == [flat("atoms = atoms_by_model[list(available_models.keys())[0]]")]
    chk.expect(ok, "model-selection", fi.where, "the requested model if present, else the first model of the file", "model selection is not `atoms_by_model[model] if model is present else the first model`", K(fi, "select"))
    rets = [r for r in fi.node.body if isinstance(r, ast.Return)]
    ok = len(rets) == 1 and flat(rets[0].value) == flat("group_atoms(atoms, modified, sequence_by_entity, is_nucleic_acid_by_entity, nucleic_acid_only)")
    chk.expect(ok, "model-selection", fi.where, "the selected atoms are grouped into residues", "the result is not group_atoms(selected atoms, ...)", K(fi, "result"))


def check_group(chk) -> None:
    repo = chk.repo
    fi = repo.func(P, "group_atoms")
    chk.note_function(fi)
    keys = [s for s in ast.walk(fi.node) if isinstance(s, ast.Assign) and norm(s.targets[0]) in ("key", "key_previous") and isinstance(s.value, ast.Tuple)]
    fields = [sorted(x.attr for x in ast.walk(k.value) if isinstance(x, ast.Attribute)) for k in keys]
    ok = len(keys) == 2 and all(f == ["auth", "label", "model"] for f in fields)
    chk.expect(ok, "identity-key-model", fi.where, "residues are delimited by a change of (label, auth, model)", "the grouping key is not (label, auth, model) at both of its sites", K(fi, "group-key"), found=fields)
    loops = [l for l in fi.node.body if isinstance(l, ast.For)]
    ok = len(loops) == 1 and norm(loops[0].iter) == "atoms[1:]"
    cons = [c for c in ast.walk(fi.node) if isinstance(c, ast.Call) and astq.callee_name(c) == "Residue3D"]
    ok = ok and len(cons) == 2 and all([norm(a) for a in c.args] == ["label", "auth", "model", "one_letter_name", "tuple(residue_atoms)"] for c in cons)
    # one inside the loop (on key change), one after it (flush)
    if ok:
        inside = [c for c in cons if any(c is n for n in ast.walk(loops[0]))]
        ok = len(inside) == 1
    chk.expect(ok, "group-runs", fi.where, "consecutive runs of equal key become residues in file order, the last run is flushed after the loop", "grouping does not emit one Residue3D(label, auth, model, name, tuple(atoms)) per consecutive run including the final one", K(fi, "runs"))
    app = [s for s in ast.walk(loops[0]) if isinstance(s, ast.stmt) and norm(s) == "residue_atoms.append(atom)"] if loops else []
    rst = [s for s in ast.walk(loops[0]) if isinstance(s, ast.stmt) and norm(s) == "residue_atoms = [atom]"] if loops else []
    chk.expect(len(app) == 1 and len(rst) == 1, "group-runs", fi.where, "every atom joins the current run or opens a new one", "an atom can be lost between runs (append / reset of residue_atoms changed)", K(fi, "atoms-kept"))


def check_cif(chk) -> None:
    repo = chk.repo
    fi = repo.func(P, "parse_cif")
    chk.note_function(fi)
    fm = FlowMap(fi.node)
    # every comparison with a null marker handles both
    n = 0
    for cmp_ in [x for x in ast.walk(fi.node) if isinstance(x, ast.Compare)]:
        consts = [c for c in ast.walk(cmp_) if isinstance(c, ast.Constant) and c.value in ("?", ".")]
        if not consts:
            continue
        n += 1
        vals = {c.value for c in consts}
        chk.expect(
            vals == {"?", "."},
            "null-markers",
            fi.site(cmp_),
            f"`{norm(cmp_)}` treats both mmCIF null markers alike",
            f"`{norm(cmp_)}` handles only {sorted(vals)}: the other mmCIF null marker is taken as a value",
            K(fi, f"null:{norm(cmp_.left)[:40]}"),
        )
    chk.floor("null-markers", 2)
    occ = [s for s in ast.walk(fi.node) if isinstance(s, ast.Assign) and norm(s.targets[0]) == "occupancy"]
    ok = False
    if len(occ) == 1 and isinstance(occ[0].value, ast.IfExp):
        ie = occ[0].value
        ok = norm(ie.body) == "float(row_dict['occupancy'])" and norm(ie.orelse) == "None" and "not in" in norm(ie.test)
    chk.expect(ok, "null-markers", fi.site(occ[0]) if occ else fi.where, "occupancy is converted only when it is not a null marker, else None", "occupancy is not `float(...) if not a null marker else None`", K(fi, "occupancy"))
    ic = [s for s in ast.walk(fi.node) if isinstance(s, ast.If) and "insertion_code" in norm(s.test) and any(isinstance(c, ast.Constant) and c.value in ("?", ".") for c in ast.walk(s.test))]
    ok = len(ic) == 1 and [norm(s) for s in ic[0].body] == ["insertion_code = None"]
    chk.expect(ok, "null-markers", fi.site(ic[0]) if ic else fi.where, "a null insertion code becomes None", "a null-marker insertion code is not mapped to None", K(fi, "icode"))
    # field sources
    src = {}
    for s in ast.walk(fi.node):
        if isinstance(s, ast.Assign) and isinstance(s.targets[0], ast.Name):
            m = astq.match(s.value, "row_dict.get(A_, ___)") or astq.match(s.value, "try_parse_int(row_dict.get(A_, ___))") or astq.match(s.value, "row_dict[A_]") or astq.match(s.value, "float(row_dict[A_])") or astq.match(s.value, "int(row_dict.get(A_, ___))")
            if m and isinstance(m["A_"], ast.Constant) and s.targets[0].id not in src:
                src[s.targets[0].id] = m["A_"].value
    want = {"label_chain_name": "label_asym_id", "label_residue_number": "label_seq_id", "label_residue_name": "label_comp_id", "auth_chain_name": "auth_asym_id", "auth_residue_number": "auth_seq_id", "auth_residue_name": "auth_comp_id", "insertion_code": "pdbx_PDB_ins_code", "model": "pdbx_PDB_model_num", "atom_name": "label_atom_id", "x": "Cartn_x", "y": "Cartn_y", "z": "Cartn_z", "label_entity_id": "label_entity_id"}
    bad = {k: src.get(k) for k, v in want.items() if src.get(k) != v}
    chk.expect(not bad, "cif-items", fi.where, "chain/number/name/icode/model/coordinates are read from their mmCIF items", "an atom_site field is read from another item than its own", K(fi, "items"), expected={k: want[k] for k in bad}, found=bad)
    cons = [c for c in ast.walk(fi.node) if isinstance(c, ast.Call) and astq.callee_name(c) == "Atom"]
    ok = len(cons) == 1 and [norm(a) for a in cons[0].args] == ["label_entity_id", "label", "auth", "model", "atom_name", "x", "y", "z", "occupancy"]
    chk.expect(ok, "cif-atom-record", fi.where, "Atom(entity, label, auth, model, name, x, y, z, occupancy)", "the Atom built from an atom_site row does not carry its fields in order", K(fi, "atom-record"))
    la = [c for c in ast.walk(fi.node) if isinstance(c, ast.Call) and astq.callee_name(c) == "ResidueAuth" and any("insertion_code" in norm(a) for a in c.args)]
    ok = any([norm(a) for a in c.args] == ["auth_chain_name", "auth_residue_number", "insertion_code", "auth_residue_name"] for c in la)
    chk.expect(ok, "cif-atom-record", fi.where, "auth identity = (auth chain, auth number, insertion code, auth name)", "ResidueAuth is not built from (auth_asym_id, auth_seq_id, ins_code, auth_comp_id)", K(fi, "auth-record"))
    for g in (fi, repo.func(P, "parse_pdb")):
        rets = [r for r in g.node.body if isinstance(r, ast.Return)]
        at = astq.first_assign(g.node, "atoms")
        chk.expect(at is not None and norm(at) == "filter_clashing_atoms(atoms_to_process)" and len(rets) == 1 and norm(rets[0].value).startswith("(atoms, modified"), "reader-result", g.where, "all decoded atoms pass through the duplicate/clash filter once", "the reader does not return filter_clashing_atoms(all decoded atoms)", K(g, "result"))
    # atom rows: no conditional skip other than the no-identity case
    rl = [l for l in ast.walk(fi.node) if isinstance(l, ast.For) and norm(l.iter) == "atom_site.getRowList()"]
    if rl:
        conts = [n for n in ast.walk(rl[0]) if isinstance(n, ast.Continue)]
        ok = len(conts) == 1 and any(norm(g.test) == "label is None and auth is None" for g in fm.of(conts[0]).guards)
        chk.expect(ok, "cif-row-skip", fi.site(rl[0]), "a row is skipped only when it has neither a label nor an auth identity", "atom_site rows can be skipped for another reason than a missing identity", K(fi, "row-skip"))


def run(chk) -> None:
    chk.explanation = (
        "Static rules on parser.py: identity keys contain the model wherever several models are still mixed, the clash filter is applied within one model and its KD-tree indices subscript the "
        "list the tree was built from, model selection by exact equality with first-model default, both mmCIF null markers at every comparison, None-dominated occupancy comparisons with the direction "
        "'higher occupancy wins', folded clash distance with no overriding caller, PDB column slices equal to the pinned format table (and to the second reader, see C15), sign-preserving integer "
        "parsing, no conditional skip in the ATOM branch, grouping key (label, auth, model) with final flush."
    )
    chk.trusted = ["CPython ast", "mmcif IoAdapterPy tokenizer", "scipy KDTree", "wwPDB column table (spec/pdb_columns.json)"]
    chk.assumptions = ["well-formed files", "CPython iterates set(range(n)) in ascending order for the sizes involved (keeps file order; noted residual)"]
    check_model_selection(chk)
    check_pdb_columns(chk)
    check_parse_pdb(chk)
    check_cif(chk)
    check_filter(chk)
    check_group(chk)
    for rule, n in (("identity-key-model", 2), ("pdb-columns", 9), ("clash-same-model", 1), ("optional-occupancy", 2), ("model-selection", 3)):
        chk.floor(rule, n)


MANIFEST_ENTRY = {
    "text": "Static decision on the current source of parser.py of the mechanisms the statement rests on: model in every identity key and in the clash rule, KD-tree index space consistency, model selection, "
    "both null markers, None-safe and correctly directed occupancy comparisons, folded 0.5 A clash distance, PDB columns = wwPDB table, sign-preserving number parsing, no silent skip of atom lines/rows, "
    "grouping by (label, auth, model) with flush. Multi-model, negative-number and missing-occupancy behaviour is decided for all files because it is a property of these keys and guards, not of sampled files.",
    "note": "Trusted: mmcif tokenizer, float parsing, KD-tree completeness. Not decided: CPython's ascending iteration of set(range(n)) that keeps file order (noted).",
    "technique": "static analysis: identity-key completeness, dominating-guard (None/marker) analysis, slice-table agreement with a pinned format table, closed-world skip classification",
}
