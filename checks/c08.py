"""C08 - structure reading preserves atoms, residue identity and the requested model.

Decided on parser.py: the model is part of every identity key used while several models are still mixed, the
proximity filter never compares atoms of different models, the KD-tree indices subscript the list the tree was
built from, model selection, both mmCIF null markers, None-safe occupancy comparisons and their direction, the
PDB column slices (= pinned table = second reader), int parsing that keeps negative numbers, no extra skip in
the ATOM branch, grouping key and flush.
"""
from __future__ import annotations

import ast
import json
import os
from typing import Any, Dict, List, Optional, Tuple

from checks.c03 import K, spec
from sa import astq
from sa.consteval import Folder
from sa.flow import FlowMap, facts
from sa.model import AnalysisError, FuncInfo, norm

P = "parser"


def flat(x) -> str:
    t = x if isinstance(x, str) else norm(x)
    return t.replace("(", "").replace(")", "").replace(" ", "")


def line_slices(fn: ast.AST, var: str = "line") -> Dict[str, Tuple[int, int]]:
    """name -> (a, b) for every `name = line[a:b]...` / `"key": line[a:b]...` / `name = line[a]` in fn."""
    out: Dict[str, Tuple[int, int]] = {}

    def sl(e: ast.AST) -> Optional[Tuple[int, int]]:
        for n in ast.walk(e):
            if isinstance(n, ast.Subscript) and isinstance(n.value, ast.Name) and n.value.id == var:
                s = n.slice
                if isinstance(s, ast.Slice):
                    lo = s.lower.value if isinstance(s.lower, ast.Constant) else (0 if s.lower is None else None)
                    hi = s.upper.value if isinstance(s.upper, ast.Constant) else None
                    if lo is not None and hi is not None:
                        return (lo, hi)
                elif isinstance(s, ast.Constant) and isinstance(s.value, int):
                    return (s.value, s.value + 1)
        return None

    for n in ast.walk(fn):
        if isinstance(n, ast.Assign) and len(n.targets) == 1 and isinstance(n.targets[0], ast.Name):
            r = sl(n.value)
            if r is not None and n.targets[0].id not in out:
                out[n.targets[0].id] = r
        if isinstance(n, ast.Dict):
            for k, v in zip(n.keys, n.values):
                if isinstance(k, ast.Constant) and isinstance(k.value, str):
                    r = sl(v)
                    if r is not None:
                        out[k.value] = r
                    elif isinstance(v, ast.Name) and v.id in out:
                        out[k.value] = out[v.id]
                    elif isinstance(v, ast.IfExp):
                        for nm in astq.names(v):
                            if nm in out:
                                out[k.value] = out[nm]
    return out


def reader_slices(chk, which: str) -> Tuple[Dict[str, Optional[Tuple[int, int]]], str]:
    """PDB field -> column range the reader takes it from, and how that was established.
    'probe': the reader was interpreted on probe lines whose characters encode their own column (any factoring of the decoding code);
    'syntax': fallback, the `line[a:b]` subscripts were read off the source."""
    from checks import c08e

    repo = chk.repo
    sp = spec("pdb_columns.json")
    cache = getattr(repo, "_reader_slices", None)
    if cache is None:
        cache = repo._reader_slices = {}
    if which not in cache:
        got = c08e.v1_columns(repo) if which == "v1" else c08e.v2_columns(repo, sp)
        if got is not None and sum(1 for v in got.values() if v is not None) >= 3:
            cache[which] = (got, "probe")
        elif which == "v1":
            fi = repo.func(P, "parse_pdb")
            raw = line_slices(fi.node)
            cache[which] = ({field: raw.get(var) for var, field in sp["parser_names"].items()}, "syntax")
        else:
            cache[which] = (line_slices(repo.func("parser_v2", "parse_pdb_atoms").node), "syntax")
        if cache[which][1] == "syntax" and sum(1 for v in cache[which][0].values() if v is not None) < 3:
            cache[which] = ({}, "none")  # neither evaluable nor in the pinned form: nothing is known about the columns
    return cache[which]


def check_pdb_columns(chk) -> Dict[str, Tuple[int, int]]:
    repo = chk.repo
    sp = spec("pdb_columns.json")
    fi = repo.func(P, "parse_pdb")
    chk.note_function(fi)
    slices, how = reader_slices(chk, "v1")
    if how == "none":
        chk.error("pdb-columns", fi.where, "the columns parse_pdb takes its fields from could not be established (reader not evaluable on probe lines, no `line[a:b]` subscripts found)")
        return {}
    # restrict to the ATOM branch variables
    names = sp["parser_names"]
    res = {}
    for var, field in names.items():
        want = tuple(sp["atom"][field])
        g = slices.get(field)
        res[field] = g
        chk.expect(
            g == want,
            "pdb-columns",
            fi.where,
            f"{field} is read from columns {want[0] + 1}-{want[1]}",
            f"{field} is read from line[{g[0]}:{g[1]}] " if g else f"{field} slice not found " + f"- the PDB format puts it at line[{want[0]}:{want[1]}]",
            K(fi, f"column:{field}"),
            expected=list(want),
            found=list(g) if g else None,
        )
    # MODEL serial
    if how == "probe":
        ok = slices.get("model") == tuple(sp["model_serial"])
    else:
        ms = [n for n in ast.walk(fi.node) if isinstance(n, ast.If) and norm(n.test) in ("line.startswith('MODEL')",)]
        ok = False
        if ms:
            sls = line_slices(ast.Module(body=ms[0].body, type_ignores=[]))
            ok = sls.get("model") == tuple(sp["model_serial"])
    chk.expect(ok, "pdb-columns", fi.where, "MODEL serial is read from columns 11-14", "MODEL serial is not read from line[10:14]", K(fi, "column:model"))
    return res


def check_parse_pdb(chk) -> None:
    repo = chk.repo
    fi = repo.func(P, "parse_pdb")
    from checks import c08e

    evaluated = False
    try:
        evaluated = c08e.check_v1_reader_eval(chk)
    except AnalysisError:
        raise
    except Exception as ex:
        chk.ok("pdb-reader-eval", fi.where, f"evaluation of parse_pdb failed internally ({type(ex).__name__}): the pinned-form rules decide")
    if not evaluated:
        _check_parse_pdb_form(chk)
    _check_try_parse_int(chk)


def _check_parse_pdb_form(chk) -> None:
    repo = chk.repo
    fi = repo.func(P, "parse_pdb")
    fm = FlowMap(fi.node)
    loops = [l for l in fi.node.body if isinstance(l, ast.For)]
    if len(loops) != 1:
        raise AnalysisError("parse_pdb: line loop not found")
    loop = loops[0]
    chain = loop.body[0] if loop.body and isinstance(loop.body[0], ast.If) else None
    branches = []
    cur = chain
    while isinstance(cur, ast.If):
        branches.append(cur)
        cur = cur.orelse[0] if len(cur.orelse) == 1 and isinstance(cur.orelse[0], ast.If) else None
    atom_br = [b for b in branches if norm(b.test) in ("line.startswith('ATOM') or line.startswith('HETATM')", "line.startswith(('ATOM', 'HETATM'))")]
    chk.expect(len(atom_br) == 1 and len(loop.body) == 1, "pdb-atom-branch", fi.site(loop), "every line starting with ATOM or HETATM is decoded", "the line loop does not decode exactly the lines starting with ATOM or HETATM (extra pre-filter or changed test)", K(fi, "atom-branch"), found=[norm(b.test) for b in branches])
    if atom_br:
        b = atom_br[0]
        skips = [n for s in b.body for n in ast.walk(s) if isinstance(n, (ast.Continue, ast.Break, ast.If, ast.Try, ast.Return))]
        chk.expect(not skips, "pdb-atom-branch", fi.site(b), "the ATOM branch has no conditional skip: every atom line yields an atom", "the ATOM/HETATM branch can skip a line (conditional/continue/try): atoms are silently dropped", K(fi, "atom-skip"), found=[norm(s)[:60] for s in skips[:3]])
        conv = {norm(s.targets[0]): norm(s.value) for s in b.body if isinstance(s, ast.Assign) and isinstance(s.targets[0], ast.Name)}
        ok = conv.get("residue_number") == "int(line[22:26].strip())" and conv.get("insertion_code") == "line[26] if line[26] != ' ' else None" and conv.get("chain_identifier") == "line[21]"
        ok = ok and all(conv.get(a) == f"float(line[{lo}:{hi}].strip())" for a, lo, hi in (("x", 30, 38), ("y", 38, 46), ("z", 46, 54), ("occupancy", 54, 60)))
        chk.expect(ok, "pdb-decoding", fi.site(b), "number via int() (sign kept), coordinates/occupancy via float(), blank insertion code -> None", "field decoding changed: residue number must be int(line[22:26].strip()), icode None iff blank, x/y/z/occupancy float of their columns", K(fi, "decoding"), found=conv)
        cons = [c for c in ast.walk(b) if isinstance(c, ast.Call) and astq.callee_name(c) == "Atom"]
        ok = len(cons) == 1 and [norm(a) for a in cons[0].args] == ["None", "None", "auth", "model", "atom_name", "x", "y", "z", "occupancy"]
        au = conv.get("auth")
        ok = ok and au is not None and flat(au) == flat("ResidueAuth(chain_identifier, residue_number, insertion_code, residue_name)")
        chk.expect(ok, "pdb-atom-record", fi.site(b), "Atom(None, None, ResidueAuth(chain, number, icode, name), model, atom name, x, y, z, occupancy)", "the Atom built from a PDB line does not carry (auth identity, current model, name, x, y, z, occupancy) in field order", K(fi, "atom-record"))


def _check_try_parse_int(chk) -> None:
    repo = chk.repo
    tpi = repo.func(P, "try_parse_int")
    chk.note_function(tpi)
    arg = tpi.node.args.args[0].arg
    body = [b for b in tpi.node.body if not (isinstance(b, ast.Expr) and isinstance(b.value, ast.Constant))]
    digit_tests = [n for n in ast.walk(tpi.node) if isinstance(n, ast.Call) and isinstance(n.func, ast.Attribute) and n.func.attr in ("isdigit", "isnumeric", "isdecimal")]
    regexes = [n for n in ast.walk(tpi.node) if isinstance(n, ast.Call) and astq.dotted(n.func) in ("re.match", "re.fullmatch", "re.search") and n.args and isinstance(n.args[0], ast.Constant) and isinstance(n.args[0].value, str) and "-" not in n.args[0].value]
    canonical = len(body) == 1 and isinstance(body[0], ast.Try) and [norm(x) for x in body[0].body] == [f"return int({arg})"] and len(body[0].handlers) == 1 and [norm(x) for x in body[0].handlers[0].body] == ["return None"] and (body[0].handlers[0].type is None or any(t in norm(body[0].handlers[0].type) for t in ("ValueError", "Exception")))
    if digit_tests or regexes:
        n0 = (digit_tests or regexes)[0]
        chk.violation("int-parsing", tpi.site(n0), f"try_parse_int accepts a string only if `{norm(n0)[:60]}`: a leading minus sign fails that test, so negative residue numbers (auth_seq_id -3) are read as None", K(tpi, "body"), found=norm(n0))
    elif canonical:
        handler = body[0].handlers[0]
        chk.ok("int-parsing", tpi.where, "try_parse_int = int(s), None on failure: negative numbers survive")
    else:
        has_int = any(isinstance(n, ast.Call) and astq.callee_name(n) == "int" for n in ast.walk(tpi.node))
        abs_call = [n for n in ast.walk(tpi.node) if isinstance(n, ast.Call) and astq.callee_name(n) == "abs"]
        if abs_call:
            chk.violation("int-parsing", tpi.site(abs_call[0]), "try_parse_int drops the sign of the number", K(tpi, "body"))
        elif not has_int:
            chk.violation("int-parsing", tpi.where, "try_parse_int no longer converts with int()", K(tpi, "body"))
        else:
            chk.error("int-parsing", tpi.where, "try_parse_int is neither `try: return int(s) except ValueError: return None` nor a recognised faulty form")


def check_filter(chk) -> None:
    repo = chk.repo
    fi = repo.func(P, "filter_clashing_atoms")
    chk.note_function(fi)
    fm = FlowMap(fi.node)
    c = spec("constants.json")["C08"]
    # default clash distance
    dflt = Folder(repo, P).try_fold(fi.node.args.defaults[-1]) if fi.node.args.defaults else None
    chk.expect(dflt == c["clash_distance"], "clash-distance", fi.where, f"default clash distance folds to {dflt}", f"default clash distance is {dflt}, the statement says {c['clash_distance']} A", K(fi, "clash-distance"), expected=c["clash_distance"], found=dflt)
    callers = [(g, cl) for g in repo.all_funcs() for cl in astq.calls(g.node, "filter_clashing_atoms")]
    over = [(g, cl) for g, cl in callers if len(cl.args) > 1 or cl.keywords]
    chk.expect(not over and len(callers) >= 2, "clash-distance", fi.where, f"{len(callers)} callers use the default distance", "a caller overrides the clash distance", K(fi, "clash-override"))
    # duplicates and clashes: decided on the atoms the filter returns for representative atom lists; the path rules below are the fallback
    from checks import c08e

    try:
        if c08e.check_filter_eval(chk):
            return
    except AnalysisError:
        raise
    except Exception as ex:
        chk.ok("filter-eval", fi.where, f"evaluation of filter_clashing_atoms failed internally ({type(ex).__name__}: {str(ex)[:60]}): the path rules decide")
    # identity key contains the model
    keys = [s for s in ast.walk(fi.node) if isinstance(s, ast.Assign) and norm(s.targets[0]) == "key" and isinstance(s.value, ast.Tuple)]
    ok = len(keys) == 1 and {norm(e) for e in keys[0].value.elts} >= {"atom.model", "atom.label", "atom.auth", "atom.name"}
    chk.expect(ok, "identity-key-model", fi.site(keys[0]) if keys else fi.where, "duplicate atoms are keyed by (model, label, auth, name)", "the duplicate-atom key does not contain model, label, auth and name: atoms of different models (or residues) overwrite each other", K(fi, "key"), found=norm(keys[0].value) if keys else None)
    _duplicate_rule(chk, fi, fm)
    _index_space(chk, fi)
    _clash_rule(chk, fi, fm)


def _resolve_aliases(node: ast.AST, scope: ast.AST, keep: Tuple[str, ...] = ()) -> ast.AST:
    """Replace names bound once in `scope` to a simple expression (also through tuple unpacking) by that expression."""
    import copy

    alias: Dict[str, ast.AST] = {}
    for st in ast.walk(scope):
        if isinstance(st, ast.Assign) and len(st.targets) == 1:
            t, v = st.targets[0], st.value
            if isinstance(t, ast.Name) and isinstance(v, (ast.Subscript, ast.Attribute, ast.Name)) and len(astq.assignments(scope, t.id)) == 1:
                alias[t.id] = v
            elif isinstance(t, ast.Name) and isinstance(v, ast.Call) and isinstance(v.func, ast.Attribute) and v.func.attr == "get" and len(v.args) == 1 and not v.keywords and isinstance(v.func.value, ast.Name) and isinstance(v.args[0], ast.Name) and len(astq.assignments(scope, t.id)) == 1:
                alias[t.id] = v  # a look-up `d.get(k)` bound once to a name
            elif isinstance(t, ast.Tuple) and isinstance(v, ast.Tuple) and len(t.elts) == len(v.elts):
                for a, b in zip(t.elts, v.elts):
                    if isinstance(a, ast.Name) and isinstance(b, (ast.Subscript, ast.Attribute, ast.Name)) and len(astq.assignments(scope, a.id)) == 1:
                        alias[a.id] = b
    for k in keep:
        alias.pop(k, None)

    class _S(ast.NodeTransformer):
        def visit_Name(s2, n):
            if isinstance(n.ctx, ast.Load) and n.id in alias:
                return copy.deepcopy(alias[n.id])
            return n

    out = copy.deepcopy(node)
    for _ in range(3):
        out = _S().visit(out)
    return ast.fix_missing_locations(out)


def _none_atom(t: str, what: str) -> Optional[bool]:
    """truth of '<what> is None' stated by the atom text `t` being True; None when t is not about it"""
    if t in (f"{what} is None", f"{what} == None"):
        return True
    if t in (f"{what} is not None", f"{what} != None", f"not {what} is None"):
        return False
    return None


def _completions(known: Dict[str, Optional[bool]]):
    import itertools

    names = sorted(known)
    free = [n for n in names if known[n] is None]
    for vals in itertools.product((True, False), repeat=len(free)):
        d = dict(known)
        d.update(dict(zip(free, vals)))
        yield d


def _duplicate_rule(chk, fi: FuncInfo, fm: FlowMap) -> None:
    """Path reading of the duplicate filter: a copy replaces the kept one iff it is the first, or its occupancy is known and the kept one's is unknown or lower."""
    from sa import paths as PT

    reps = [s2 for s2 in ast.walk(fi.node) if isinstance(s2, ast.Assign) and norm(s2) == "unique_atoms[key] = atom"]
    loops = [l for l in fi.node.body if isinstance(l, ast.For) and any(r is n for r in reps for n in ast.walk(l))]
    if len(reps) < 1 or len(loops) != 1:
        chk.error("occupancy-wins", fi.where, "replacement site `unique_atoms[key] = atom` inside one loop over the atoms not found")
        return
    loop = loops[0]
    NEW = "atom.occupancy"
    STORED = ("unique_atoms[key]", "unique_atoms.get(key)")  # the copy kept so far (values of the map are atoms, never None)
    problems = []
    n_paths = 0
    for events, exit_ in PT.paths(loop.body):
        known = {"first": None, "new_none": None, "kept_none": None, "higher": None}
        order = []
        unknown = []
        for ev in events:
            if ev[0] != "test":
                continue
            t = norm(_resolve_aliases(ev[3], loop, keep=("key", "atom")))
            val = ev[2]
            for sk in STORED:
                t = t.replace(sk, "KEPT")
            KEPT = "KEPT.occupancy"
            if t in ("key not in unique_atoms", "KEPT is None"):
                known["first"] = val
            elif t in ("key in unique_atoms", "KEPT is not None"):
                known["first"] = not val
            elif _none_atom(t, NEW) is not None:
                known["new_none"] = (_none_atom(t, NEW) == val)
            elif _none_atom(t, KEPT) is not None:
                known["kept_none"] = (_none_atom(t, KEPT) == val)
            elif t in (f"{NEW} > {KEPT}", f"{KEPT} < {NEW}", f"{NEW} >= {KEPT}", f"{KEPT} <= {NEW}"):
                known["higher"] = val
                order.append(("cmp", ev[3], dict(known)))
            elif t in (f"{NEW} < {KEPT}", f"{KEPT} > {NEW}", f"{NEW} <= {KEPT}", f"{KEPT} >= {NEW}"):
                known["higher"] = not val
                order.append(("cmp", ev[3], dict(known)))
            else:
                unknown.append(t)
        replaced = any(ev[0] == "stmt" and any(ev[1] is r for r in reps) for ev in events)
        n_paths += 1
        if unknown:
            problems.append(("error", loop, f"condition `{unknown[0][:70]}` in the duplicate filter not understood", "unknown"))
            continue
        for _, node, k in order:
            if k["new_none"] is not False or (k["kept_none"] is not False and k["first"] is not True):
                problems.append(("optional-occupancy", node, f"`{norm(node)}` is evaluated on a path where {'the new' if k['new_none'] is not False else 'the kept'} atom's occupancy was not established to be known: TypeError (None compared with a number) for atoms without occupancy", "dup-none"))
        for comp in _completions(known):
            want = comp["first"] or ((not comp["new_none"]) and (comp["kept_none"] or comp["higher"]))
            if want != replaced:
                desc = ", ".join(f"{k}={v}" for k, v in comp.items())
                problems.append(("occupancy-wins", reps[0], f"with ({desc}) the copy is {'kept over' if replaced else 'dropped in favour of'} the stored one, but the highest-occupancy copy must survive (replace iff first, or new occupancy known and stored one unknown or lower)", f"dup:{'replace' if replaced else 'keep'}:{int(bool(comp['first']))}{int(bool(comp['new_none']))}{int(bool(comp['kept_none']))}{int(bool(comp['higher']))}"))
                break
    seen = set()
    hit = set()
    for rule, node, msg, key in problems:
        if key in seen:
            continue
        seen.add(key)
        if rule == "error":
            chk.error("occupancy-wins", fi.site(node), msg)
            hit |= {"occupancy-wins", "optional-occupancy"}
        else:
            chk.violation(rule, fi.site(node), msg, K(fi, key))
            hit.add(rule)
    if "occupancy-wins" not in hit:
        chk.ok("occupancy-wins", fi.site(reps[0]), f"{n_paths} paths: the first copy is kept; a later copy replaces it iff its occupancy is known and the stored one is unknown or lower")
    if "optional-occupancy" not in hit:
        chk.ok("optional-occupancy", fi.site(reps[0]), "occupancies are compared only where both were established to be known")


def _index_space(chk, fi: FuncInfo) -> None:
    """The KD-tree, the pair indices, the keep-set and the result all refer to positions in ONE list."""
    from sa.defuse import Inliner

    inl = Inliner(fi.node)
    trees = [(st, v) for st, v in astq.assignments(fi.node, "tree") if v is not None]
    if len(trees) != 1 or not (isinstance(trees[0][1], ast.Call) and astq.callee_name(trees[0][1]) == "KDTree" and trees[0][1].args):
        chk.error("kdtree-index-space", fi.where, "`tree = KDTree(...)` not found")
        return
    pts = inl.inline(trees[0][1].args[0], trees[0][0], stop=("unique_atoms_list", "unique_atoms"))
    m = astq.match(pts, "np.array(C_)") or astq.match(pts, "numpy.array(C_)")
    comp = m["C_"] if m else pts
    if not (isinstance(comp, (ast.ListComp, ast.GeneratorExp)) and len(comp.generators) == 1 and isinstance(comp.generators[0].target, ast.Name)):
        chk.error("kdtree-index-space", fi.site(trees[0][0]), f"points of the KD-tree `{norm(pts)[:80]}` not understood")
        return
    g = comp.generators[0]
    a = g.target.id
    coords_ok = norm(comp.elt) in (f"({a}.x, {a}.y, {a}.z)", f"[{a}.x, {a}.y, {a}.z]", f"{a}.coordinates")
    chk.expect(coords_ok, "kdtree-index-space", fi.site(trees[0][0]), "KD-tree points are the (x, y, z) of the atoms", f"KD-tree points are `{norm(comp.elt)}`, not (x, y, z)", K(fi, "tree-points"))
    tree_space = norm(g.iter) + (" if " + " and ".join(norm(c) for c in g.ifs) if g.ifs else "")
    spaces = {"KD-tree points": (tree_space, trees[0][0])}
    cl = [l for l in fi.node.body if isinstance(l, ast.For) and isinstance(l.target, ast.Tuple) and len(l.target.elts) == 2 and "pairs" in astq.names(l.iter)]
    if len(cl) == 1:
        i, j = (norm(e) for e in cl[0].target.elts)
        for n in ast.walk(cl[0]):
            if isinstance(n, ast.Subscript) and isinstance(n.slice, ast.Name) and n.slice.id in (i, j) and isinstance(n.value, ast.Name):
                spaces.setdefault(f"subscript [{n.slice.id}]", (norm(n.value), n))
                if spaces[f"subscript [{n.slice.id}]"][0] != norm(n.value):
                    spaces[f"subscript [{n.slice.id}] (2)"] = (norm(n.value), n)
    keep = [(st, v) for st, v in astq.assignments(fi.node, "atoms_to_keep") if v is not None]
    if len(keep) == 1:
        mk = astq.match(keep[0][1], "set(range(len(L_)))")
        if mk:
            spaces["keep-set"] = (norm(mk["L_"]), keep[0][0])
        else:
            chk.error("kdtree-index-space", fi.site(keep[0][0]), f"keep-set `{norm(keep[0][1])}` not understood")
    rets = [r for r in fi.node.body if isinstance(r, ast.Return) and r.value is not None]
    if len(rets) == 1 and isinstance(rets[0].value, ast.ListComp) and len(rets[0].value.generators) == 1:
        rc = rets[0].value
        idx = norm(rc.generators[0].target)
        mr = astq.match(rc.elt, f"L_[{idx}]")
        src_ok = norm(rc.generators[0].iter) in ("atoms_to_keep", "sorted(atoms_to_keep)") and not rc.generators[0].ifs
        if mr and src_ok:
            spaces["result"] = (norm(mr["L_"]), rets[0])
        else:
            chk.error("kdtree-index-space", fi.site(rets[0]), f"result `{norm(rc)[:80]}` not understood")
    else:
        chk.error("kdtree-index-space", fi.where, "the result is not one list comprehension over the keep-set")
    # resolve plain aliases (L2 = L1)
    def root(name: str) -> str:
        seen = set()
        while name.isidentifier() and name not in seen:
            seen.add(name)
            d = [v for _, v in astq.assignments(fi.node, name) if v is not None]
            if len(d) == 1 and isinstance(d[0], ast.Name):
                name = d[0].id
            else:
                break
        return name

    roots = {k: root(v[0]) for k, v in spaces.items()}
    distinct = sorted(set(roots.values()))
    if len(distinct) == 1 and len(spaces) >= 4:
        chk.ok("kdtree-index-space", fi.where, f"the KD-tree, the pair indices, the keep-set and the result all refer to positions in `{distinct[0]}`")
    elif len(distinct) > 1:
        base = roots.get("KD-tree points")
        other = [(k, v) for k, v in roots.items() if v != base]
        k0, v0 = other[0]
        chk.violation("kdtree-index-space", fi.site(spaces[k0][1]), f"the KD-tree is built over `{base}` but the {k0} uses `{v0}`: positions reported by the tree name other atoms in that list, so the wrong atoms are compared and dropped", K(fi, "index-space"), expected=base, found={k: v for k, v in roots.items()})
    else:
        chk.error("kdtree-index-space", fi.where, f"only {sorted(spaces)} found of tree points / subscripts / keep-set / result")
    lst = [(st, v) for st, v in astq.assignments(fi.node, root(spaces["KD-tree points"][0])) if v is not None] if spaces["KD-tree points"][0].isidentifier() else []
    if len(lst) == 1:
        chk.expect(norm(lst[0][1]) in ("list(unique_atoms.values())", "[*unique_atoms.values()]"), "kdtree-index-space", fi.site(lst[0][0]), "the list holds every atom that survived the duplicate filter, in first-seen order", f"the indexed list is `{norm(lst[0][1])[:70]}`, not list(unique_atoms.values())", K(fi, "index-list"))
    pairs = [(st, v) for st, v in astq.assignments(fi.node, "pairs") if v is not None]
    ok = len(pairs) == 1 and norm(pairs[0][1]) in ("tree.query_pairs(r=clash_distance)", "tree.query_pairs(clash_distance)")
    chk.expect(ok, "clash-distance", fi.where, "pairs = tree.query_pairs(clash_distance)", "the candidate pairs are not tree.query_pairs(clash_distance)", K(fi, "pairs-source"))


def _clash_rule(chk, fi: FuncInfo, fm: FlowMap) -> None:
    """Path reading of the clash loop: nothing for atoms of different models or with an unknown occupancy; otherwise the lower-occupancy atom is dropped."""
    from sa import paths as PT

    cl = [l for l in fi.node.body if isinstance(l, ast.For) and isinstance(l.target, ast.Tuple) and len(l.target.elts) == 2 and "pairs" in astq.names(l.iter)]
    if len(cl) != 1:
        chk.error("clash-loop", fi.where, "clash loop over pairs not found")
        return
    cl = cl[0]
    i, j = (norm(e) for e in cl.target.elts)
    lists = {norm(n.value) for n in ast.walk(cl) if isinstance(n, ast.Subscript) and isinstance(n.slice, ast.Name) and n.slice.id in (i, j) and isinstance(n.value, ast.Name)}
    if len(lists) != 1:
        chk.error("clash-loop", fi.site(cl), f"pair indices subscript {sorted(lists)}")
        return
    L = next(iter(lists))
    AI, AJ = f"{L}[{i}]", f"{L}[{j}]"
    problems = []
    n_paths = 0
    from sa.normalize import split_ifexp

    for events, exit_ in PT.paths(split_ifexp(cl.body)):
        known = {"diff_model": None, "i_none": None, "j_none": None, "i_higher": None}
        cmps = []
        unknown = []
        for ev in events:
            if ev[0] != "test":
                continue
            t = norm(_resolve_aliases(ev[3], cl, keep=(i, j, L)))
            val = ev[2]
            if t in (f"{AI}.model != {AJ}.model", f"{AJ}.model != {AI}.model"):
                known["diff_model"] = val
            elif t in (f"{AI}.model == {AJ}.model", f"{AJ}.model == {AI}.model"):
                known["diff_model"] = not val
            elif _none_atom(t, f"{AI}.occupancy") is not None:
                known["i_none"] = _none_atom(t, f"{AI}.occupancy") == val
            elif _none_atom(t, f"{AJ}.occupancy") is not None:
                known["j_none"] = _none_atom(t, f"{AJ}.occupancy") == val
            elif t in (f"{AI}.occupancy > {AJ}.occupancy", f"{AJ}.occupancy < {AI}.occupancy", f"{AI}.occupancy >= {AJ}.occupancy", f"{AJ}.occupancy <= {AI}.occupancy"):
                known["i_higher"] = val
                cmps.append((ev[3], dict(known)))
            elif t in (f"{AI}.occupancy < {AJ}.occupancy", f"{AJ}.occupancy > {AI}.occupancy", f"{AI}.occupancy <= {AJ}.occupancy", f"{AJ}.occupancy >= {AI}.occupancy"):
                known["i_higher"] = not val
                cmps.append((ev[3], dict(known)))
            else:
                unknown.append((t, ev[3], val))
        n_paths += 1
        drops = [norm(a.args[0]) for a in PT.calls_on(events, "atoms_to_keep", "discard") + PT.calls_on(events, "atoms_to_keep", "remove") if a.args]
        if any(d not in (i, j) for d in drops):
            problems.append(("error", cl, f"the dropped position `{[d for d in drops if d not in (i, j)][0][:60]}` is neither `{i}` nor `{j}`", "unknown"))
            continue
        for node, k in cmps:
            if k["i_none"] is not False or k["j_none"] is not False:
                problems.append(("optional-occupancy", node, f"`{norm(node)[:80]}` is evaluated on a path where an occupancy was not established to be known: TypeError for atoms without occupancy", "clash-none"))
            if k["diff_model"] is not False:
                problems.append(("clash-same-model", node, "occupancies of two close atoms are compared on a path where they were not established to belong to the same model: overlapping models of an ensemble lose atoms", "clash-model"))
        if drops and known["diff_model"] is not False:
            problems.append(("clash-same-model", cl, f"an atom is dropped ({drops}) on a path where the two atoms were not established to belong to the same model: overlapping models of an ensemble lose atoms", "clash-model"))
        if unknown:
            t, node, val = unknown[0]
            if not drops:
                # an additional exemption: would the rule have dropped something here?
                possible = any((not c["diff_model"]) and not c["i_none"] and not c["j_none"] for c in _completions(known))
                if possible:
                    problems.append(("clash-loop", node, f"additional exemption in the clash loop: when `{t[:60]}` is {val} two close atoms of one model with known occupancies are both kept", "clash-extra"))
            else:
                problems.append(("error", node, f"condition `{t[:70]}` in the clash loop not understood", "unknown"))
            continue
        for comp in _completions(known):
            if comp["diff_model"] or comp["i_none"] or comp["j_none"]:
                want = []
            else:
                want = [j] if comp["i_higher"] else [i]
            if sorted(drops) != sorted(want):
                desc = ", ".join(f"{k}={v}" for k, v in comp.items())
                problems.append(("clash-loser", cl, f"with ({desc}) the loop drops {drops or 'nothing'}, the rule needs {want or 'nothing'} (of two clashing atoms of one model the one with the lower occupancy goes)", f"clash-loser:{desc}"))
                break
    seen = set()
    hit = set()
    for rule, node, msg, key in problems:
        if key.split(":")[0] in seen:
            continue
        seen.add(key.split(":")[0])
        if rule == "error":
            chk.error("clash-loop", fi.site(node), msg)
            hit |= {"clash-loop", "clash-loser"}
        else:
            chk.violation(rule, fi.site(node), msg, K(fi, key.split(":")[0]))
            hit.add(rule)
    for rule, msg in (("clash-same-model", "atoms of different models are never treated as clashing"), ("optional-occupancy", "pairs with an unknown occupancy are skipped before comparing"), ("clash-loop", "no other pair is exempt from the clash rule"), ("clash-loser", f"{n_paths} paths: of two clashing atoms the one with the lower occupancy is dropped")):
        if rule not in hit:
            chk.ok(rule, fi.site(cl), msg)


EAGER = {"list", "tuple", "set", "frozenset", "sorted", "sum", "max", "min", "any", "all", "next", "dict", "len", "join", "array", "extend", "update", "Counter", "deque"}


def late_binding_sites(fn: ast.AST) -> List[Tuple[ast.AST, str]]:
    """Lazy iterators (filter/map/generator expressions) that capture a comprehension or loop variable and are stored
    unevaluated: when they finally run the variable has its last value."""
    out = []
    par = astq.parents(fn)
    for c in ast.walk(fn):
        if isinstance(c, (ast.ListComp, ast.SetComp, ast.DictComp, ast.GeneratorExp)):
            bound = {x.id for g in c.generators for x in ast.walk(g.target) if isinstance(x, ast.Name)}
            bodies = [c.key, c.value] if isinstance(c, ast.DictComp) else [c.elt]
        elif isinstance(c, ast.For):
            bound = {x.id for x in ast.walk(c.target) if isinstance(x, ast.Name)}
            bodies = list(c.body)
        else:
            continue
        for b in bodies:
            for n in ast.walk(b):
                lazy = None
                if isinstance(n, ast.Call) and isinstance(n.func, ast.Name) and n.func.id in ("filter", "map") and n.args and isinstance(n.args[0], ast.Lambda):
                    free = {x.id for x in ast.walk(n.args[0].body) if isinstance(x, ast.Name)} - {a.arg for a in n.args[0].args.args}
                    if free & bound:
                        lazy = (n, sorted(free & bound)[0])
                elif isinstance(n, ast.GeneratorExp) and n is not c:
                    inner = {x.id for g in n.generators for x in ast.walk(g.target) if isinstance(x, ast.Name)}
                    free = {x.id for x in ast.walk(n) if isinstance(x, ast.Name)} - inner
                    if free & bound:
                        lazy = (n, sorted(free & bound)[0])
                if lazy is None:
                    continue
                p = par.get(id(n))
                consumed = isinstance(p, ast.Call) and n in p.args and (astq.callee_name(p) in EAGER)
                if isinstance(c, ast.For):
                    # inside a loop body the iterator is fine when consumed within the same round
                    consumed = consumed or isinstance(p, (ast.For, ast.comprehension))
                else:
                    consumed = consumed or isinstance(p, ast.comprehension)
                if not consumed:
                    out.append((lazy[0], lazy[1]))
    return out


def _beta(e: ast.AST) -> ast.AST:
    """{k: V for k in S}[X]  ->  V[k := X]   (X is taken to be a member of S)"""
    import copy

    class _B(ast.NodeTransformer):
        def visit_Subscript(s2, n):
            n = s2.generic_visit(n)
            if isinstance(n.value, ast.DictComp) and len(n.value.generators) == 1 and isinstance(n.value.generators[0].target, ast.Name) and norm(n.value.key) == n.value.generators[0].target.id and not n.value.generators[0].ifs:
                k = n.value.generators[0].target.id
                idx = n.slice

                class _S(ast.NodeTransformer):
                    def visit_Name(s3, m):
                        if m.id == k and isinstance(m.ctx, ast.Load):
                            return copy.deepcopy(idx)
                        return m

                return _S().visit(copy.deepcopy(n.value.value))
            return n

    return ast.fix_missing_locations(_B().visit(copy.deepcopy(e)))


def check_model_selection(chk) -> None:
    """Along every path of read_3d_structure the atoms handed to group_atoms are `atoms of the file whose model equals M`, with
    M = the requested model when it is given and present, else the first model of the file."""
    import copy

    from sa import paths as PT

    repo = chk.repo
    fi = repo.func(P, "read_3d_structure")
    chk.note_function(fi)
    for n, var in late_binding_sites(fi.node):
        chk.violation("late-binding", fi.site(n), f"`{norm(n)[:80]}` is a lazy iterator that captures the comprehension/loop variable `{var}` and is stored unevaluated: when it is finally consumed `{var}` has its last value, so every entry selects the same (last) model", K(fi, f"late-binding:{var}"))
    chk.ok("late-binding", fi.where, "no lazy iterator over a loop/comprehension variable escapes its iteration")
    from checks import c08e

    try:
        if c08e.check_model_selection_eval(chk):
            return  # decided by evaluation on representative files; the symbolic path reading below is the fallback
    except AnalysisError:
        raise
    except Exception as ex:
        chk.ok("model-selection-eval", fi.where, f"evaluation of read_3d_structure failed internally ({type(ex).__name__}): the symbolic path rule decides")
    FIRST_FORMS = ("list(AM.keys())[0]", "list(AM)[0]", "next(iter(AM))", "next(iter(AM.keys()))", "[*AM][0]", "min(AM)")
    AM_FORMS = ("{atom.model: None for atom in atoms}", "dict.fromkeys((atom.model for atom in atoms))", "dict.fromkeys([atom.model for atom in atoms])", "list(dict.fromkeys((atom.model for atom in atoms)))")
    results = {}
    problems = []
    for events, exit_ in PT.paths(fi.node.body):
        if exit_ != "return":
            problems.append("a path does not return")
            continue
        dec = {}
        for ev in events:
            if ev[0] == "test":
                dec[ev[1]] = ev[2]
        store: Dict[str, ast.AST] = {}

        def subst(e):
            class _S(ast.NodeTransformer):
                def visit_Name(s2, n):
                    if isinstance(n.ctx, ast.Load) and n.id in store:
                        return copy.deepcopy(store[n.id])
                    return n

                def visit_Lambda(s2, n):
                    shadow = {a.arg for a in n.args.args}
                    saved = {k: store.pop(k) for k in list(store) if k in shadow}
                    try:
                        n.body = s2.visit(n.body)
                    finally:
                        store.update(saved)
                    return n

                def _comp(s2, n):
                    shadow = {x.id for g in n.generators for x in ast.walk(g.target) if isinstance(x, ast.Name)}
                    # iterables are evaluated outside, elements inside the comprehension scope
                    for g in n.generators:
                        g.iter = s2.visit(g.iter)
                    saved = {k: store.pop(k) for k in list(store) if k in shadow}
                    try:
                        for g in n.generators:
                            g.ifs = [s2.visit(c) for c in g.ifs]
                        if isinstance(n, ast.DictComp):
                            n.key = s2.visit(n.key)
                            n.value = s2.visit(n.value)
                        else:
                            n.elt = s2.visit(n.elt)
                    finally:
                        store.update(saved)
                    return n

                visit_ListComp = visit_SetComp = visit_DictComp = visit_GeneratorExp = _comp

            return _S().visit(copy.deepcopy(e))

        ret = None
        for ev in events:
            if ev[0] != "stmt":
                continue
            st = ev[1]
            if isinstance(st, ast.Assign) and len(st.targets) == 1 and isinstance(st.targets[0], ast.Name):
                # the parse result `atoms` stays symbolic the first time it is bound from the reader
                if isinstance(st.value, ast.Name) or not any(isinstance(x, ast.Call) and astq.callee_name(x) in ("parse_cif", "parse_pdb", "parse") for x in ast.walk(st.value)):
                    store[st.targets[0].id] = subst(st.value)
            elif isinstance(st, ast.Return):
                ret = subst(st.value) if st.value is not None else None
        if ret is None or not (isinstance(ret, ast.Call) and astq.callee_name(ret) == "group_atoms" and ret.args):
            problems.append("the result is not group_atoms(selected atoms, ...)")
            continue
        rest = [norm(a) for a in ret.args[1:]]
        if rest != ["modified", "sequence_by_entity", "is_nucleic_acid_by_entity", "nucleic_acid_only"]:
            problems.append(f"group_atoms receives {rest} after the atoms")
        sel = _beta(ret.args[0])
        t = norm(sel)
        x = None
        for pat in ("list(filter(lambda V_: V_.model == X_, atoms))", "[V_ for V_ in atoms if V_.model == X_]", "list((V_ for V_ in atoms if V_.model == X_))", "list(list(filter(lambda V_: V_.model == X_, atoms)))", "list([V_ for V_ in atoms if V_.model == X_])", "list(filter(lambda V_: X_ == V_.model, atoms))", "[V_ for V_ in atoms if X_ == V_.model]"):
            m = astq.match(sel, pat)
            if m:
                x = norm(m["X_"])
                break
        requested = dec.get("model is not None") is True and (dec.get("model in available_models") is True or dec.get("model in available_models.keys()") is True)
        declined = dec.get("model is not None") is False or dec.get("model in available_models") is False or dec.get("model in available_models.keys()") is False
        if not requested and not declined:
            problems.append(f"path decisions {dec} do not say whether the requested model is present")
            continue
        results[(tuple(sorted(dec.items())), requested)] = (x, t, st)
    if problems:
        chk.error("model-selection", fi.where, "; ".join(sorted(set(problems))[:2]))
        return
    if not results:
        chk.error("model-selection", fi.where, "no path through read_3d_structure understood")
        return
    n_req = n_def = 0
    for (dec, requested), (x, t, st) in results.items():
        if x is None:
            chk.error("model-selection", fi.site(st), f"selected atoms `{t[:110]}` are not `atoms whose model equals M`")
            continue
        if requested:
            n_req += 1
            chk.expect(x == "model", "model-selection", fi.site(st), "a requested model that is present selects exactly the atoms with atom.model == model", f"when the requested model is present the atoms with model == `{x[:60]}` are returned, not those of the requested model", K(fi, "select-requested"), found=x)
        else:
            n_def += 1
            first_ok = any(x == f.replace("AM", am) for f in FIRST_FORMS[:5] for am in AM_FORMS)
            if x == "model":
                chk.violation("model-selection", fi.site(st), "when no model is requested (or it is absent) the atoms are still filtered by `model`: the result is empty instead of the first model", K(fi, "select-default"), found=x)
            elif first_ok:
                chk.ok("model-selection", fi.site(st), "without a (present) requested model the first model of the file is selected (models in order of first appearance)")
            else:
                other = None
                for am in AM_FORMS:
                    for form in (f"list({am}.keys())[K_]", f"list({am})[K_]"):
                        try:
                            mm = astq.match(ast.parse(x, mode="eval").body, form)
                        except SyntaxError:
                            mm = None
                        if mm and isinstance(mm["K_"], (ast.Constant, ast.UnaryOp)) and norm(mm["K_"]) != "0":
                            other = norm(mm["K_"])
                    if x in (f"max({am})", f"max({am}.keys())", f"sorted({am})[-1]"):
                        other = "max"
                if other is not None:
                    chk.violation("model-selection", fi.site(st), f"without a (present) requested model the model at position {other} of the file's models is selected, not the first one", K(fi, "select-default"), found=x)
                else:
                    chk.error("model-selection", fi.site(st), f"default model `{x[:90]}` not recognised as the first model of the file")
    if n_req == 0 or n_def == 0:
        chk.error("model-selection", fi.where, "requested/default model cases not both found")


def check_format_detection(chk) -> None:
    """read_3d_structure (and the CLI tools) choose the reader by parser.is_cif: decided by evaluation on one file per class."""
    from checks import c08e

    try:
        c08e.check_format_detection_eval(chk)
    except AnalysisError:
        raise
    except Exception as ex:
        chk.error("format-detection", f"src/rnapolis/{P}.py", f"evaluation of is_cif failed internally ({type(ex).__name__}: {str(ex)[:60]})")


def check_group(chk) -> None:
    repo = chk.repo
    fi = repo.func(P, "group_atoms")
    chk.note_function(fi)
    from checks import c08e

    try:
        if c08e.check_group_eval(chk):
            return  # decided on the current code by evaluation; the pinned form below is only a fallback
    except AnalysisError:
        raise
    except Exception as ex:  # an internal fault of the evaluated rule must not hide the pinned-form reading
        chk.ok("group-eval", fi.where, f"evaluation of group_atoms failed internally ({type(ex).__name__}): the pinned-form rules decide")
    keys = [s for s in ast.walk(fi.node) if isinstance(s, ast.Assign) and norm(s.targets[0]) in ("key", "key_previous") and isinstance(s.value, ast.Tuple)]
    fields = [sorted(x.attr for x in ast.walk(k.value) if isinstance(x, ast.Attribute)) for k in keys]
    ok = len(keys) == 2 and all(f == ["auth", "label", "model"] for f in fields)
    chk.expect(ok, "identity-key-model", fi.where, "residues are delimited by a change of (label, auth, model)", "the grouping key is not (label, auth, model) at both of its sites", K(fi, "group-key"), found=fields)
    loops = [l for l in fi.node.body if isinstance(l, ast.For)]
    ok = len(loops) == 1 and norm(loops[0].iter) == "atoms[1:]"
    cons = [c for c in ast.walk(fi.node) if isinstance(c, ast.Call) and astq.callee_name(c) == "Residue3D"]
    ok = ok and len(cons) == 2 and all([norm(a) for a in c.args] == ["label", "auth", "model", "one_letter_name", "tuple(residue_atoms)"] for c in cons)
    # one inside the loop (on key change), one after it (flush)
    if ok:
        inside = [c for c in cons if any(c is n for n in ast.walk(loops[0]))]
        ok = len(inside) == 1
    chk.expect(ok, "group-runs", fi.where, "consecutive runs of equal key become residues in file order, the last run is flushed after the loop", "grouping does not emit one Residue3D(label, auth, model, name, tuple(atoms)) per consecutive run including the final one", K(fi, "runs"))
    app = [s for s in ast.walk(loops[0]) if isinstance(s, ast.stmt) and norm(s) == "residue_atoms.append(atom)"] if loops else []
    rst = [s for s in ast.walk(loops[0]) if isinstance(s, ast.stmt) and norm(s) == "residue_atoms = [atom]"] if loops else []
    chk.expect(len(app) == 1 and len(rst) == 1, "group-runs", fi.where, "every atom joins the current run or opens a new one", "an atom can be lost between runs (append / reset of residue_atoms changed)", K(fi, "atoms-kept"))


def check_cif(chk) -> None:
    repo = chk.repo
    fi = repo.func(P, "parse_cif")
    chk.note_function(fi)
    fm = FlowMap(fi.node)
    # every comparison with a null marker handles both
    n = 0
    for cmp_ in [x for x in ast.walk(fi.node) if isinstance(x, ast.Compare)]:
        consts = [c for c in ast.walk(cmp_) if isinstance(c, ast.Constant) and c.value in ("?", ".")]
        if not consts:
            continue
        n += 1
        vals = {c.value for c in consts}
        chk.expect(
            vals == {"?", "."},
            "null-markers",
            fi.site(cmp_),
            f"`{norm(cmp_)}` treats both mmCIF null markers alike",
            f"`{norm(cmp_)}` handles only {sorted(vals)}: the other mmCIF null marker is taken as a value",
            K(fi, f"null:{norm(cmp_.left)[:40]}"),
        )
    chk.floor("null-markers", 2)
    # the decoding of atom_site rows: evaluated on one row per class; the pinned-form reading below is the fallback
    from checks import c08e

    try:
        if c08e.check_cif_eval(chk):
            g = repo.func(P, "parse_pdb")
            rets = [r for r in g.node.body if isinstance(r, ast.Return)]
            at = astq.first_assign(g.node, "atoms")
            chk.expect(at is not None and norm(at) == "filter_clashing_atoms(atoms_to_process)" and len(rets) == 1 and norm(rets[0].value).startswith("(atoms, modified"), "reader-result", g.where, "all decoded atoms pass through the duplicate/clash filter once", "the reader does not return filter_clashing_atoms(all decoded atoms)", K(g, "result"))
            return
    except AnalysisError:
        raise
    except Exception as ex:
        chk.ok("cif-eval", fi.where, f"evaluation of parse_cif failed internally ({type(ex).__name__}: {str(ex)[:60]}): the pinned-form rules decide")
    occ = [s for s in ast.walk(fi.node) if isinstance(s, ast.Assign) and norm(s.targets[0]) == "occupancy"]
    ok = False
    if len(occ) == 1 and isinstance(occ[0].value, ast.IfExp):
        ie = occ[0].value
        ok = norm(ie.body) == "float(row_dict['occupancy'])" and norm(ie.orelse) == "None" and "not in" in norm(ie.test)
    chk.expect(ok, "null-markers", fi.site(occ[0]) if occ else fi.where, "occupancy is converted only when it is not a null marker, else None", "occupancy is not `float(...) if not a null marker else None`", K(fi, "occupancy"))
    ic = [s for s in ast.walk(fi.node) if isinstance(s, ast.If) and "insertion_code" in norm(s.test) and any(isinstance(c, ast.Constant) and c.value in ("?", ".") for c in ast.walk(s.test))]
    ok = len(ic) == 1 and [norm(s) for s in ic[0].body] == ["insertion_code = None"]
    chk.expect(ok, "null-markers", fi.site(ic[0]) if ic else fi.where, "a null insertion code becomes None", "a null-marker insertion code is not mapped to None", K(fi, "icode"))
    # field sources
    src = {}
    for s in ast.walk(fi.node):
        if isinstance(s, ast.Assign) and isinstance(s.targets[0], ast.Name):
            m = astq.match(s.value, "row_dict.get(A_, ___)") or astq.match(s.value, "try_parse_int(row_dict.get(A_, ___))") or astq.match(s.value, "row_dict[A_]") or astq.match(s.value, "float(row_dict[A_])") or astq.match(s.value, "int(row_dict.get(A_, ___))")
            if m and isinstance(m["A_"], ast.Constant) and s.targets[0].id not in src:
                src[s.targets[0].id] = m["A_"].value
    want = {"label_chain_name": "label_asym_id", "label_residue_number": "label_seq_id", "label_residue_name": "label_comp_id", "auth_chain_name": "auth_asym_id", "auth_residue_number": "auth_seq_id", "auth_residue_name": "auth_comp_id", "insertion_code": "pdbx_PDB_ins_code", "model": "pdbx_PDB_model_num", "atom_name": "label_atom_id", "x": "Cartn_x", "y": "Cartn_y", "z": "Cartn_z", "label_entity_id": "label_entity_id"}
    bad = {k: src.get(k) for k, v in want.items() if src.get(k) != v}
    chk.expect(not bad, "cif-items", fi.where, "chain/number/name/icode/model/coordinates are read from their mmCIF items", "an atom_site field is read from another item than its own", K(fi, "items"), expected={k: want[k] for k in bad}, found=bad)
    cons = [c for c in ast.walk(fi.node) if isinstance(c, ast.Call) and astq.callee_name(c) == "Atom"]
    ok = len(cons) == 1 and [norm(a) for a in cons[0].args] == ["label_entity_id", "label", "auth", "model", "atom_name", "x", "y", "z", "occupancy"]
    chk.expect(ok, "cif-atom-record", fi.where, "Atom(entity, label, auth, model, name, x, y, z, occupancy)", "the Atom built from an atom_site row does not carry its fields in order", K(fi, "atom-record"))
    la = [c for c in ast.walk(fi.node) if isinstance(c, ast.Call) and astq.callee_name(c) == "ResidueAuth" and any("insertion_code" in norm(a) for a in c.args)]
    ok = any([norm(a) for a in c.args] == ["auth_chain_name", "auth_residue_number", "insertion_code", "auth_residue_name"] for c in la)
    chk.expect(ok, "cif-atom-record", fi.where, "auth identity = (auth chain, auth number, insertion code, auth name)", "ResidueAuth is not built from (auth_asym_id, auth_seq_id, ins_code, auth_comp_id)", K(fi, "auth-record"))
    for g in (fi, repo.func(P, "parse_pdb")):
        rets = [r for r in g.node.body if isinstance(r, ast.Return)]
        at = astq.first_assign(g.node, "atoms")
        chk.expect(at is not None and norm(at) == "filter_clashing_atoms(atoms_to_process)" and len(rets) == 1 and norm(rets[0].value).startswith("(atoms, modified"), "reader-result", g.where, "all decoded atoms pass through the duplicate/clash filter once", "the reader does not return filter_clashing_atoms(all decoded atoms)", K(g, "result"))
    # atom rows: no conditional skip other than the no-identity case
    rl = [l for l in ast.walk(fi.node) if isinstance(l, ast.For) and norm(l.iter) == "atom_site.getRowList()"]
    if rl:
        conts = [n for n in ast.walk(rl[0]) if isinstance(n, ast.Continue)]
        ok = len(conts) == 1 and any(norm(g.test) == "label is None and auth is None" for g in fm.of(conts[0]).guards)
        chk.expect(ok, "cif-row-skip", fi.site(rl[0]), "a row is skipped only when it has neither a label nor an auth identity", "atom_site rows can be skipped for another reason than a missing identity", K(fi, "row-skip"))


def run(chk) -> None:
    chk.explanation = (
        "Static rules on parser.py: identity keys contain the model wherever several models are still mixed, the clash filter is applied within one model and its KD-tree indices subscript the "
        "list the tree was built from, model selection by exact equality with first-model default, both mmCIF null markers at every comparison, None-dominated occupancy comparisons with the direction "
        "'higher occupancy wins', folded clash distance with no overriding caller, PDB column slices equal to the pinned format table (and to the second reader, see C15), sign-preserving integer "
        "parsing, no conditional skip in the ATOM branch, grouping key (label, auth, model) with final flush."
    )
    chk.trusted = ["CPython ast", "mmcif IoAdapterPy tokenizer", "scipy KDTree", "wwPDB column table (spec/pdb_columns.json)"]
    chk.assumptions = ["well-formed files", "CPython iterates set(range(n)) in ascending order for the sizes involved (keeps file order; noted residual)"]
    chk.robust |= {"int-parsing", "occupancy-wins", "optional-occupancy", "kdtree-index-space", "clash-same-model", "clash-loser", "clash-loop", "clash-distance", "pdb-columns", "null-markers", "late-binding", "model-selection", "format-detection"}
    check_model_selection(chk)
    check_format_detection(chk)
    check_pdb_columns(chk)
    check_parse_pdb(chk)
    check_cif(chk)
    check_filter(chk)
    check_group(chk)
    for rule, n in (("identity-key-model", 2), ("pdb-columns", 9), ("clash-same-model", 1), ("optional-occupancy", 2), ("model-selection", 3)):
        chk.floor(rule, n)
    from checks import w3cross

    w3cross.check(chk, "C08", untouched=())  # state that survives a call: shared memo results, module-level containers, arguments


MANIFEST_ENTRY = {
    "text": "Static decision on the current source of parser.py of the mechanisms the statement rests on: model in every identity key and in the clash rule, KD-tree index space consistency, model selection, "
    "both null markers, None-safe and correctly directed occupancy comparisons, folded 0.5 A clash distance, PDB columns = wwPDB table, sign-preserving number parsing, no silent skip of atom lines/rows, "
    "grouping by (label, auth, model) with flush. Multi-model, negative-number and missing-occupancy behaviour is decided for all files because it is a property of these keys and guards, not of sampled files. Since round 4 the reader is also interpreted as a whole (sa/fragment.py with stand-ins for mmcif and file handles) on one document per input class (models, null markers, negative numbers, alternate locations, missing occupancies, clashes, a handle standing at its end), and filter_clashing_atoms on 20 atom lists; silent exits no input class takes are violations.",
    "note": "Trusted: mmcif tokenizer, float parsing, KD-tree completeness. Not decided: CPython's ascending iteration of set(range(n)) that keeps file order (noted).",
    "technique": "static analysis: identity-key completeness, dominating-guard (None/marker) analysis, slice-table agreement with a pinned format table, closed-world skip classification + whole-function evaluation of the ast on one document / atom list per input class (stand-ins for mmcif and file objects; nothing of the library is imported or run)",
}
