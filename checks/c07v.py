"""C07 - BpSeq.elements evaluated on every small structure against the clauses of the statement.

The fact rules of checks/c07e.py decide each mechanism of `BpSeq.elements` for all structures, but they read the code
mechanism by mechanism and have to abstain (or, worse, would misjudge) when a rewrite moves the mechanisms into helpers
with early returns, index maps, generators ...  This rule is independent of any shape: the method - together with
`__stems_entries`, `Strand.from_bpseq_entries`, `Stem.from_bpseq_entries`, `Loop`, `Hairpin`, `SingleStrand` and whatever
private helpers the class has - is *interpreted from the ast* (sa/microeval.py; nothing of the library is imported or
run) on every set of pairs over 2 .. N contiguous positions with at least one pair plus 18 larger named shapes (multi-way junctions, pseudoknotted multiloops, kissing hairpins; the quantifier of the property:
"every pairing on up to N positions"; N = 7: 347 structures, every shape the statement names occurs - zero-length
hairpins, bulges of one nucleotide, stems of length one, pseudoknotted multiloops, tails of every length 0..5), and the
result is compared with the clauses of the statement, computed here from the pairs alone:

  stems      the stems are exactly the maximal runs of directly stacked pairs, 5' strand ascending, 3' strand mirrored
  hairpins   the hairpins are exactly the windows i..j of the pairs (i, j) that enclose only unpaired nucleotides
  loops      every loop has at least two strands, consecutive strands (cyclically) are base-paired end to start, and
             every strand interior is unpaired; interior single strands never close such a cycle among themselves (a loop
             is not reported as separate single strands - the decomposition the pinned tree computes on all these inputs)
  coverage   every unpaired nucleotide lies in the interior of exactly one single strand, hairpin or loop strand
  text       every strand's sequence and structure are the slices first-1 .. last of the sequence and of the dot-bracket

The dot-bracket handed to the interpreted method is a position-coded text (one distinct character per position), so
the slice clause is decided exactly and no solver is involved.  Coverage of the interpreted code by the 347 inputs is
checked (sa/microeval.coverage_gaps): an arm no input reaches (a size cap, a special case for long chains) makes the
rule abstain, and the mechanism rules of c07e decide alone.
"""
from __future__ import annotations

from typing import Any, Dict, List, Optional, Sequence, Set, Tuple

from checks import c01e
from checks.c01e import E, K, attempt, bpseq, partial_matchings, reached_all, stems_ref
from sa.microeval import Instance, Interp, NotEvaluable

MOD = "common"
MAXN = 7
MAXN_THOROUGH = 9  # 3734 sets of pairs
CODE = "abcdefghijklmnopqrstuvwxyz"
LETTERS = "ACGUNRY"


# larger shapes the statement names and 7 positions cannot hold: multi-way junctions, pseudoknotted multiloops, kissing hairpins
SHAPES = [
    "((..((..))..((..))..))",
    "((.((.)).((.)).((.)).))",
    "(((..((...))..((...))..((...))..)))",
    "((..[[..))..]]",
    "((.[[.))..((.]].))",
    "(.(.[.).].)",
    "(.(.[.).(.].).)",
    "((.((...))..))",
    "((..((...))))",
    "(((.(((...))).)))",
    "(())(())",
    "((..))((..))",
    "((...)).((...))",
    "..((...))...",
    "((.[[.{{.)).]].}}",
    "(.().().)",
    ".((..[[..))..(((..]]..)))..",
    "(.(.(.).(.).).(.).)",
]


def pairs_of(text: str) -> List[Tuple[int, int]]:
    stacks: Dict[str, List[int]] = {}
    out = []
    close = {")": "(", "]": "[", "}": "{", ">": "<"}
    for k, c in enumerate(text, 1):
        if c in "([{<":
            stacks.setdefault(c, []).append(k)
        elif c in close:
            out.append((stacks[close[c]].pop(), k))
    return sorted(out)


class _DB:
    """Stand-in for the DotBracket object `self.dot_bracket`: only its text is read by the decomposition."""

    _folder_stub = True

    def __init__(self, sequence: str, structure: str):
        self.sequence = sequence
        self.structure = structure


def _attr(x: Any, name: str) -> Any:
    if isinstance(x, Instance):
        if name in x._attrs:
            return x._attrs[name]
        raise NotEvaluable(f"{x._cls} object without attribute {name}")
    return getattr(x, name)


def _strand(s: Any) -> Tuple[int, int, str, str]:
    return (_attr(s, "first"), _attr(s, "last"), _attr(s, "sequence"), _attr(s, "structure"))


def oracle(n: int, pairs: Sequence[Tuple[int, int]]) -> Dict[str, Any]:
    partner = {}
    for i, j in pairs:
        partner[i], partner[j] = j, i
    stems = set()
    for s, e, L in stems_ref(pairs):
        stems.add(((s, s + L - 1), (e - L + 1, e)))
    hairpins = {(i, j) for i, j in pairs if all(k not in partner for k in range(i + 1, j))}
    unpaired = {k for k in range(1, n + 1) if k not in partner}
    return {"partner": partner, "stems": stems, "hairpins": hairpins, "unpaired": unpaired}


def judge(n: int, pairs: Sequence[Tuple[int, int]], seq: str, db: str, result: Any) -> Optional[Tuple[str, str]]:
    """None if the four lists satisfy the statement for this structure, else (clause, what is wrong)."""
    try:
        stems, singles, hairpins, loops = result
    except Exception:
        return ("result", f"the result is {result!r:.80}, not four lists")
    o = oracle(n, pairs)
    partner = o["partner"]
    strands: List[Tuple[str, Tuple[int, int, str, str], Set[int]]] = []  # (kind, strand, interior)
    # stems
    got_stems = set()
    for st in stems:
        s5, s3 = _strand(_attr(st, "strand5p")), _strand(_attr(st, "strand3p"))
        got_stems.add(((s5[0], s5[1]), (s3[0], s3[1])))
        for s in (s5, s3):
            strands.append(("stem", s, set()))
    if got_stems != o["stems"]:
        miss, extra = sorted(o["stems"] - got_stems), sorted(got_stems - o["stems"])
        return ("stems", f"stems {sorted(got_stems)} are not the maximal stacked runs {sorted(o['stems'])}" + (f" (missing {miss[:2]})" if miss else "") + (f" (unexpected {extra[:2]})" if extra else ""))
    # hairpins
    got_h = set()
    for h in hairpins:
        s = _strand(_attr(h, "strand"))
        got_h.add((s[0], s[1]))
        strands.append(("hairpin", s, set(range(s[0] + 1, s[1]))))
    if got_h != o["hairpins"]:
        miss, extra = sorted(o["hairpins"] - got_h), sorted(got_h - o["hairpins"])
        return ("hairpins", f"hairpins {sorted(got_h)} are not exactly the pairs enclosing only unpaired nucleotides {sorted(o['hairpins'])}" + (f": {miss[0]} is missing" if miss else f": {extra[0]} is no such pair"))
    # loops
    for lp in loops:
        ss = [_strand(x) for x in _attr(lp, "strands")]
        if len(ss) < 2:
            return ("loops", f"a loop with {len(ss)} strand(s): {[(s[0], s[1]) for s in ss]}")
        for a, b in zip(ss, ss[1:] + ss[:1]):
            if partner.get(a[1]) != b[0]:
                return ("loops", f"loop {[(s[0], s[1]) for s in ss]}: strand {a[0]}-{a[1]} ends at {a[1]} (paired with {partner.get(a[1])}), the next strand starts at {b[0]}: consecutive strand ends are not base-paired")
        for s in ss:
            bad = [k for k in range(s[0] + 1, s[1]) if k in partner]
            if bad:
                return ("loops", f"loop strand {s[0]}-{s[1]} has the paired nucleotide {bad[0]} in its interior")
            strands.append(("loop", s, set(range(s[0] + 1, s[1]))))
    # single strands
    for sg in singles:
        s = _strand(_attr(sg, "strand"))
        is5, is3 = bool(_attr(sg, "is5p")), bool(_attr(sg, "is3p"))
        lo = s[0] if is5 else s[0] + 1
        hi = s[1] if is3 else s[1] - 1
        interior = set(range(lo, hi + 1))
        bad = [k for k in interior if k in partner]
        if bad:
            return ("coverage", f"single strand {s[0]}-{s[1]} (5' end: {is5}, 3' end: {is3}) has the paired nucleotide {bad[0]} in its interior")
        strands.append(("single" if (is5 or is3) else "single-mid", s, interior))
    # maximality of loops: interior single strands (neither end of the chain) that close a cycle among themselves - each one's
    # 3' end paired with the next one's 5' end, all the way round - and have an unpaired nucleotide are a loop that was not reported
    mids = [s for kind, s, _ in strands if kind == "single-mid"]
    nxt = {}
    for a in mids:
        for b in mids:
            if a is not b and partner.get(a[1]) == b[0]:
                nxt[(a[0], a[1])] = b
    for a in mids:
        walk, cur, seen_ = [a], a, {(a[0], a[1])}
        while (cur[0], cur[1]) in nxt:
            cur = nxt[(cur[0], cur[1])]
            if (cur[0], cur[1]) in seen_:
                break
            seen_.add((cur[0], cur[1]))
            walk.append(cur)
        if len(walk) >= 2 and partner.get(walk[-1][1]) == walk[0][0] and any(w[1] - w[0] > 1 for w in walk):
            return ("loops", f"the single strands {[(w[0], w[1]) for w in walk]} close a cycle (each 3' end pairs with the next 5' end) with an unpaired interior: a loop is reported as separate single strands")
    # coverage
    count: Dict[int, int] = {}
    for kind, s, interior in strands:
        for k in interior:
            count[k] = count.get(k, 0) + 1
    for k in sorted(o["unpaired"]):
        if count.get(k, 0) != 1:
            return ("coverage", f"unpaired nucleotide {k} lies in the interior of {count.get(k, 0)} single / hairpin / loop strands (exactly one expected)")
    # text
    for kind, s, _ in strands:
        if not (1 <= s[0] <= s[1] <= n):
            return ("text", f"{kind} strand {s[0]}-{s[1]} is not a span of the {n} nucleotides")
        if s[2] != seq[s[0] - 1 : s[1]] or s[3] != db[s[0] - 1 : s[1]]:
            return ("text", f"{kind} strand {s[0]}-{s[1]} carries sequence `{s[2]}` / structure `{s[3]}`, the slices are `{seq[s[0] - 1 : s[1]]}` / `{db[s[0] - 1 : s[1]]}`")
    return None


def elements_eval(chk, fi) -> Optional[str]:
    """Runs the evaluation; returns None when it decided (ok or violations recorded), else the reason it abstains."""
    repo = chk.repo
    it = Interp(repo, MOD, max_steps=2_000_000)
    it.override_ctor("Entry", E)
    problems: Dict[str, Tuple[str, str]] = {}
    n_cases = 0
    shapes = {"pseudoknot": 0, "zero-length hairpin": 0, "stem of one pair": 0, "tail": 0}
    anchors = [fi]
    # Strand.from_bpseq_entries has a `reverse=True` arm no caller of the decomposition uses; it is decided by `strand-eval`
    for q in ("BpSeq.__stems_entries", "Stem.from_bpseq_entries"):
        if repo.has_func(MOD, q):
            anchors.append(repo.func(MOD, q))
    maxn = MAXN if getattr(chk, "tier", "quick") == "quick" else MAXN_THOROUGH
    cases: List[Tuple[int, List[Tuple[int, int]]]] = [(n, pm) for n in range(2, maxn + 1) for pm in partial_matchings(n)] + [(len(t), pairs_of(t)) for t in SHAPES]
    try:
        for n, pm in cases:
            if True:
                n_cases += 1
                seq = "".join(LETTERS[(k * 3 + n) % len(LETTERS)] for k in range(n))
                db = (CODE * 3)[:n] if n <= len(CODE) else "".join(chr(0x100 + k) for k in range(n))
                ents = [E(k + 1, seq[k], 0) for k in range(n)]
                for i, j in pm:
                    ents[i - 1].pair, ents[j - 1].pair = j, i
                if any(a < c < b < d for a, b in pm for c, d in pm):
                    shapes["pseudoknot"] += 1
                if any(j == i + 1 for i, j in pm):
                    shapes["zero-length hairpin"] += 1
                if any(L == 1 for _, _, L in stems_ref(pm)):
                    shapes["stem of one pair"] += 1
                if ents[0].pair == 0 or ents[-1].pair == 0:
                    shapes["tail"] += 1
                recv = bpseq(it, ents, {"dot_bracket": _DB(seq, db), "sequence": seq})
                kind, val = attempt(lambda: it.getattr_(recv, "elements", None))
                desc = f"{n} nucleotides, pairs {pm}"
                if kind != "value":
                    problems.setdefault("raise", (c01e.site_of(fi, getattr(val, "lineno", None)), f"BpSeq.elements {'raises ' + str(val) if kind == 'raise' else 'does not finish'} for {desc}"))
                    continue
                if not pm:
                    # no pair at all: the documented answer is four empty lists (c07e `elements-prelude-fact`); the coverage clause
                    # is not applied to such input
                    try:
                        empty = all(len(x) == 0 for x in val) and len(val) == 4
                    except Exception:
                        empty = False
                    if not empty:
                        problems.setdefault("result", (fi.where, f"for {n} unpaired nucleotides the result is {val!r:.80}, not four empty lists"))
                    continue
                verdict = judge(n, pm, seq, db, val)
                if verdict is not None:
                    clause, why = verdict
                    problems.setdefault(clause, (fi.where, f"for {desc}: {why}"))
    except NotEvaluable as ex:
        return f"not evaluable: {ex}"
    if not problems:
        gap = _unreached(repo, it.cov, anchors)
        if gap:
            return f"the {n_cases} structures do not reach all of the code: {gap}"
        one_way, tolerated = _one_way_conditions(repo, it, anchors)
        if one_way:
            return f"a condition never took both truth values on the {n_cases} structures (its other side is not decided by them): {one_way}"
    rule = {"stems": "elements-eval-stems", "hairpins": "elements-eval-hairpins", "loops": "elements-eval-loops", "coverage": "elements-eval-coverage", "text": "elements-eval-text", "raise": "elements-eval-coverage", "result": "elements-eval-coverage"}
    for clause, (site, msg) in problems.items():
        chk.violation(rule[clause], site, msg, K(fi, f"elements-eval:{clause}"))
    if not problems:
        chk.ok(
            "elements-eval-coverage",
            fi.where,
            f"BpSeq.elements interpreted on all {n_cases - len(SHAPES)} sets of pairs over 2..{maxn} contiguous positions and {len(SHAPES)} larger named shapes up to {max(len(t) for t in SHAPES)} nt ({', '.join(f'{v} with a {k}' for k, v in shapes.items())}): stems = maximal stacked runs, hairpins = pairs "
            "enclosing only unpaired nucleotides, loops are closed cycles with unpaired interiors, every unpaired nucleotide in exactly one interior, every strand text is the slice of sequence and dot-bracket; "
            "every statement of the interpreted code was reached and every condition took both truth values"
            + (f" (except {'; '.join(tolerated)}: an equality between two positions read from the input, no size or constant involved)" if tolerated else ""),
        )
    return None


def _never_true_membership(fn, test) -> bool:
    """`X in S` where X is the integer counter of an enclosing `for X in range(...)` and S is a local set/list that is created
    empty and only ever receives whole collections of non-integers through `S.update(L)` / `S.extend(L)` with L a list built
    from subscripts of another list (strand objects), never X or an integer."""
    import ast

    from sa import astq

    if not (isinstance(test, ast.Compare) and len(test.ops) == 1 and isinstance(test.ops[0], ast.In) and isinstance(test.left, ast.Name) and isinstance(test.comparators[0], ast.Name)):
        return False
    x, s_ = test.left.id, test.comparators[0].id
    is_counter = any(isinstance(l, ast.For) and isinstance(l.target, ast.Name) and l.target.id == x and isinstance(l.iter, ast.Call) and isinstance(l.iter.func, ast.Name) and l.iter.func.id == "range" for l in ast.walk(fn))
    if not is_counter:
        return False
    binds = [v for st, v in astq.assignments(fn, s_) if v is not None]
    if len(binds) != 1 or not (isinstance(binds[0], ast.Call) and isinstance(binds[0].func, ast.Name) and binds[0].func.id in ("set", "list") and not binds[0].args or isinstance(binds[0], (ast.List, ast.Set)) and not binds[0].elts):
        return False
    for n in ast.walk(fn):
        if isinstance(n, ast.Call) and isinstance(n.func, ast.Attribute) and isinstance(n.func.value, ast.Name) and n.func.value.id == s_:
            if n.func.attr in ("update", "extend") and len(n.args) == 1 and isinstance(n.args[0], ast.Name):
                # the collection handed over is a list of elements of another list (objects), or the result of a call; a plain
                # alias (`loop = chain`) is followed, and whatever is appended to such a list must be an element of a list as well
                def objects_only(name: str, depth: int = 0) -> bool:
                    src = [v for st, v in astq.assignments(fn, name) if v is not None]
                    if not src or depth > 3:
                        return False
                    for v in src:
                        if isinstance(v, ast.Name):
                            if not objects_only(v.id, depth + 1):
                                return False
                        elif not (isinstance(v, ast.List) and all(isinstance(e, ast.Subscript) for e in v.elts) or isinstance(v, ast.Call)):
                            return False
                    for c in ast.walk(fn):
                        if isinstance(c, ast.Call) and isinstance(c.func, ast.Attribute) and isinstance(c.func.value, ast.Name) and c.func.value.id == name and c.func.attr in ("append", "insert", "extend", "add"):
                            if not all(isinstance(x, ast.Subscript) for x in c.args[-1:]):
                                return False
                    return True

                if objects_only(n.args[0].id):
                    continue
                return False
            if n.func.attr in ("add", "append", "insert", "update", "extend"):
                return False
        if isinstance(n, (ast.AugAssign,)) and isinstance(n.target, ast.Name) and n.target.id == s_:
            return False
    return True


def _input_only_equality(fn, test) -> bool:
    """`a == b` / `a != b` between two local names that are only ever bound to values read from the input (loop and comprehension
    targets, look-ups, attribute reads), with no numeric constant beyond 0/1 and no size (`len`, `count`) anywhere in their
    definitions.  A condition of this kind that never took its other value does not split the inputs by size or by a threshold
    (the classes the evaluation cannot see); it is recorded in the evidence and tolerated."""
    import ast

    from sa import astq

    if not (isinstance(test, ast.Compare) and len(test.ops) == 1 and isinstance(test.ops[0], (ast.Eq, ast.NotEq)) and isinstance(test.left, ast.Name) and isinstance(test.comparators[0], ast.Name)):
        return False
    params = {a.arg for a in fn.args.args + fn.args.kwonlyargs + fn.args.posonlyargs}
    par = astq.parents(fn)
    for nm in (test.left.id, test.comparators[0].id):
        if nm in params:
            return False
        bound = False
        # the closest enclosing loop that binds the name shadows every other binding of it
        scope = fn
        cur = test
        while id(cur) in par:
            cur = par[id(cur)]
            if isinstance(cur, ast.For) and nm in astq.target_names(cur.target):
                scope = cur
                break
            if isinstance(cur, (ast.ListComp, ast.SetComp, ast.GeneratorExp, ast.DictComp)) and any(nm in astq.target_names(g.target) for g in cur.generators):
                scope = cur
                break
        for n in ast.walk(scope):
            if isinstance(n, (ast.For, ast.comprehension)) and nm in astq.target_names(n.target):
                bound = True
                src = [n.iter]
            elif isinstance(n, ast.Assign) and any(nm in astq.target_names(t) for t in n.targets):
                bound = True
                src = [n.value]
            elif isinstance(n, (ast.AugAssign, ast.AnnAssign, ast.NamedExpr)) and nm in astq.target_names(n.target):
                return False
            else:
                continue
            for v in src:
                if isinstance(v, ast.Constant):
                    return False
                for x in ast.walk(v):
                    if isinstance(x, ast.Constant) and isinstance(x.value, (int, float)) and not isinstance(x.value, bool) and abs(x.value) > 1:
                        return False
                    if isinstance(x, ast.Call) and (isinstance(x.func, ast.Name) and x.func.id in ("len", "sum", "max", "min") or isinstance(x.func, ast.Attribute) and x.func.attr in ("count", "__len__")):
                        return False
        if not bound:
            return False
    return True


def _one_way_conditions(repo, it, anchors):
    """Atomic conditions of `if` / `while` tests, conditional expressions and and/or operands in the interpreted decomposition code
    that were evaluated but only ever came out one way.  Such a condition splits the inputs into a class the evaluation saw and one
    it did not (a size cap, a special case for long chains): the evaluation then says nothing about the unseen class."""
    import ast

    from sa.model import norm

    outcomes = getattr(it, "outcomes", set())
    tolerated: List[str] = []
    seen: Dict[int, Set[bool]] = {}
    for nid, b in outcomes:
        seen.setdefault(nid, set()).add(b)
    ref = getattr(repo, "reference", {}).get(MOD)
    targets = list(anchors)
    for q, f in repo.module(MOD).funcs.items():
        if "<locals>" in q or f in targets:
            continue
        if id(f.node) in it.cov and ref is not None and q not in ref.funcs:
            targets.append(f)
    for f in targets:
        for n in ast.walk(f.node):
            tests = []
            if isinstance(n, (ast.If, ast.While, ast.IfExp)):
                tests.append(n.test)
            elif isinstance(n, ast.comprehension):
                tests.extend(n.ifs)
            for t in tests:
                atoms = []
                stack = [t]
                while stack:
                    x = stack.pop()
                    if isinstance(x, ast.BoolOp):
                        stack.extend(x.values)
                    elif isinstance(x, ast.UnaryOp) and isinstance(x.op, ast.Not):
                        stack.append(x.operand)
                    else:
                        atoms.append(x)
                for a_ in atoms + [t]:
                    got = seen.get(id(a_))
                    if got is not None and len(got) == 1:
                        if isinstance(a_, ast.Constant) or (isinstance(n, ast.While) and isinstance(n.test, ast.Constant)):
                            continue
                        if _never_true_membership(f.node, a_):
                            continue
                        if _input_only_equality(f.node, a_):
                            tolerated.append(f"`{norm(a_)[:50]}` in {f.qualname}")
                            continue
                        return f"{f.qualname} line {getattr(a_, 'lineno', '?')}: `{norm(a_)[:70]}` was always {sorted(got)[0]}", tolerated
    return None, tolerated


def _unreached(repo, cov: set, anchors) -> Optional[str]:
    """Like c01e.reached_all, with the named dead statements of spec/exceptions.json tolerated (a guard that can never hold on
    any input - `i in used` compares a loop counter with a set of Strand objects - cannot be reached by any input class)."""
    import ast
    import json
    import os

    from sa import astq
    from sa.microeval import coverage_gaps
    from sa.model import norm

    spec = os.path.join(os.path.dirname(os.path.dirname(os.path.abspath(__file__))), "spec", "exceptions.json")
    try:
        dead = json.load(open(spec)).get("dead_code", [])
    except Exception:
        dead = []
    ref = getattr(repo, "reference", {}).get(MOD)
    targets = list(anchors)
    for q, f in repo.module(MOD).funcs.items():
        if "<locals>" in q or f in targets:
            continue
        if id(f.node) in cov and ref is not None and q not in ref.funcs:
            targets.append(f)
    for f in targets:
        node = f.node
        tolerated = set()
        par = astq.parents(node)
        for n in ast.walk(node):
            if isinstance(n, ast.If) and not n.orelse and id(n) in cov and _never_true_membership(node, n.test) and all(isinstance(x, (ast.Continue, ast.Pass)) for x in n.body):
                # the guard was evaluated (and false) on every input; by the types of its operands it cannot be true on any
                # input, so no input class can reach its body (spec/exceptions.json `dead_code` documents the one instance)
                tolerated |= {id(x) for x in n.body}
        cov2 = set(cov) | tolerated
        gaps = coverage_gaps(cov2, node)
        if gaps:
            return f"{f.qualname}: " + "; ".join(gaps)
    return None


EVAL_RULES = {"elements-eval-stems", "elements-eval-hairpins", "elements-eval-loops", "elements-eval-coverage", "elements-eval-text"}
