"""C03 - reported base pairs are geometrically justified, edge-exclusive and maximal.

Decided on annotator.find_pairs / detect_cis_trans and the tables of tertiary.py: the contact radius, the
donor/acceptor typing, the angle window on both normals, the cis/trans boundary, the >= 2 contact rule, the
guarded-insert discipline on occupied edges, the closed set of reasons for which a candidate can be skipped
(maximality), the label orientation and the edge/donor/acceptor tables.
"""
from __future__ import annotations

import ast
import json
import os
from typing import Any, Dict, List, Optional, Tuple

from sa import astq, intervals
from sa.consteval import Folder
from sa.defuse import Inliner
from sa.flow import FlowMap, facts
from sa.model import AnalysisError, FuncInfo, norm
from sa.report import VERIF

AN, T3 = "annotator", "tertiary"


def K(fi: FuncInfo, what: str) -> str:
    return f"{fi.module.name}:{fi.qualname}:{what}"


def spec(name: str) -> Any:
    return json.load(open(os.path.join(VERIF, "spec", name)))


def fold_call_arg(chk, fi: FuncInfo, call: ast.Call, idx: int = 0) -> Any:
    return Folder(chk.repo, fi.module.name).try_fold(call.args[idx]) if len(call.args) > idx else None


def kd_loop(chk, fi: FuncInfo) -> ast.For:
    loops = [l for l in fi.node.body if isinstance(l, ast.For) and isinstance(l.iter, ast.Call) and astq.callee_name(l.iter) == "query_pairs"]
    if len(loops) != 1:
        raise AnalysisError(f"{fi.qualname}: expected exactly one loop over kdtree.query_pairs(...), found {len(loops)}")
    return loops[0]


def classify_skips(fm: FlowMap, loop: ast.AST, patterns: Dict[str, List[str]]) -> Tuple[Dict[str, List[ast.If]], List[ast.If]]:
    """Top-level `if c: continue` statements of a loop body, classified by pattern; unclassified ones returned separately."""
    found: Dict[str, List[ast.If]] = {k: [] for k in patterns}
    other: List[ast.If] = []
    for st in loop.body:
        if isinstance(st, ast.If) and st.body and isinstance(st.body[-1], ast.Continue) and not st.orelse:
            hit = None
            for k, pats in patterns.items():
                if any(astq.match(st.test, p) is not None for p in pats):
                    hit = k
                    break
            if hit:
                found[hit].append(st)
            else:
                other.append(st)
    return found, other


def check_tables(chk) -> None:
    repo = chk.repo
    f = Folder(repo, T3)
    sp = spec("lw_edges.json")
    vals = {}
    for name in ("BASE_ATOMS", "BASE_DONORS", "BASE_ACCEPTORS", "PHOSPHATE_ACCEPTORS", "RIBOSE_ACCEPTORS", "BASE_EDGES"):
        e = repo.const_expr(T3, name)
        v = f.try_fold(e)
        if v is None:
            chk.error("table-pinned", f"src/rnapolis/tertiary.py {name}", "table does not fold to a constant")
            continue
        vals[name] = v
        chk.expect(
            v == sp[name],
            "table-pinned",
            f"src/rnapolis/tertiary.py:{e.lineno} {name}",
            f"{name} equals the pinned Leontis-Westhof / donor-acceptor table",
            f"{name} differs from the pinned table: the set of contacts that count, or the edge they count on, changes",
            f"{T3}:{name}",
            expected={k: sp[name][k] for k in sp[name] if sp[name][k] != v.get(k)} if isinstance(v, dict) else sp[name],
            found={k: v.get(k) for k in set(v) | set(sp[name]) if sp[name].get(k) != v.get(k)} if isinstance(v, dict) else v,
        )
    if len(vals) < 6:
        return
    # closure: every base donor/acceptor has an edge, every edge atom is a donor or acceptor, letters are W/H/S
    for base in vals["BASE_EDGES"]:
        da = set(vals["BASE_DONORS"].get(base, [])) | set(vals["BASE_ACCEPTORS"].get(base, []))
        ed = set(vals["BASE_EDGES"][base])
        chk.expect(
            da == ed,
            "table-closure",
            f"src/rnapolis/tertiary.py BASE_EDGES[{base}]",
            f"{base}: atoms with an edge = donors + acceptors",
            f"{base}: donor/acceptor atoms and atoms with an edge differ - a contact is found but never matched to an edge (or vice versa)",
            f"{T3}:BASE_EDGES:{base}:closure",
            expected=sorted(da),
            found=sorted(ed),
        )
        letters = set("".join(vals["BASE_EDGES"][base].values()))
        chk.expect(letters <= set("WHS"), "table-closure", f"src/rnapolis/tertiary.py BASE_EDGES[{base}]", "edge letters are W/H/S", "edge letters outside W/H/S: LeontisWesthof[...] lookup raises KeyError", f"{T3}:BASE_EDGES:{base}:letters", found=sorted(letters))
        extra = da - set(vals["BASE_ATOMS"].get(base, [])) - {"O2'"}
        chk.expect(not extra, "table-closure", f"src/rnapolis/tertiary.py BASE_DONORS/ACCEPTORS[{base}]", "donors/acceptors are base atoms or O2'", f"donor/acceptor atoms {sorted(extra)} are not base atoms of {base}", f"{T3}:{base}:da-atoms")
    lw = set(repo.enum_members("common", "LeontisWesthof"))
    want = {c + a + b for c in "ct" for a in "WHS" for b in "WHS"}
    chk.expect(lw == want, "lw-total", "src/rnapolis/common.py LeontisWesthof", "LeontisWesthof has all 18 members c/t x {W,H,S}^2", "LeontisWesthof is not the full set of 18 classes: some cis/trans+edge combination raises KeyError", "common:LeontisWesthof:members", expected=sorted(want), found=sorted(lw))


def check_contacts(chk, fi: FuncInfo, fm: FlowMap, loop: ast.For) -> None:
    repo = chk.repo
    c = spec("constants.json")["C03"]
    # radius
    r = fold_call_arg(chk, fi, loop.iter)
    chk.expect(
        r == c["hbond_max_distance"],
        "contact-radius",
        fi.site(loop),
        f"contacts come from query_pairs({r})",
        f"contact search radius folds to {r}, the statement says {c['hbond_max_distance']} A",
        K(fi, "radius"),
        expected=c["hbond_max_distance"],
        found=r,
    )
    n_q = len(astq.calls(fi.node, "query_pairs")) + len(astq.calls(fi.node, "query_ball_point")) + len(astq.calls(fi.node, "query"))
    chk.expect(n_q == 1, "contact-source", fi.where, "one KD-tree query is the only source of contacts", f"{n_q} KD-tree queries: contacts have more than one source", K(fi, "sources"))
    # candidate atoms: acceptors + donors of the residue's base, by name
    res_loops = [l for l in fi.node.body if isinstance(l, ast.For) and astq.match(l.iter, "structure.residues") is not None]
    if len(res_loops) != 1:
        raise AnalysisError("find_pairs: residue loop not found")
    rl = res_loops[0]
    inl = Inliner(fi.node)
    atom_loops = [l for l in rl.body if isinstance(l, ast.For)]
    ok = False
    found = None
    if len(atom_loops) == 1:
        it = inl.inline(atom_loops[0].iter, atom_loops[0])
        found = norm(it)
        ok = norm(it) in (
            "BASE_ACCEPTORS.get(residue.one_letter_name, []) + RIBOSE_ACCEPTORS + PHOSPHATE_ACCEPTORS + BASE_DONORS.get(residue.one_letter_name, [])",
            "BASE_ACCEPTORS.get(residue.one_letter_name, []) + PHOSPHATE_ACCEPTORS + RIBOSE_ACCEPTORS + BASE_DONORS.get(residue.one_letter_name, [])",
        )
    chk.expect(ok, "contact-atoms", fi.site(rl), "candidate atoms = base acceptors + ribose + phosphate acceptors + base donors of the residue's own base", "the candidate atom list is not acceptors(base)+ribose+phosphate+donors(base) of the residue's one-letter name", K(fi, "atoms"), found=found)
    # typing
    tm = [s for s in ast.walk(rl) if isinstance(s, ast.Assign) and astq.match(s.targets[0], "coordinates_type_map[X_]") is not None]
    ok = len(tm) == 1 and (astq.match(tm[0].value, '"acceptor" if A_ in acceptors else "donor"') is not None or astq.match(tm[0].value, '"donor" if A_ in donors else "acceptor"') is not None)
    chk.expect(ok, "contact-typing", fi.site(tm[0]) if tm else fi.site(rl), "an atom is typed acceptor iff its name is in the acceptor list, donor otherwise", "atom typing is not `acceptor if name in acceptors else donor`", K(fi, "typing"), found=norm(tm[0].value) if tm else None)
    # model filter at the head of the residue loop
    head = rl.body[0] if rl.body else None
    ok = isinstance(head, ast.If) and astq.match(head.test, "model is not None and residue.model != model") is not None and isinstance(head.body[-1], ast.Continue)
    chk.expect(ok, "model-filter", fi.site(rl), "residues of other models are skipped first", "the residue loop does not start by skipping residues of other models", K(fi, "model-filter"))


def check_find_pairs(chk, parts=("contacts", "angles", "labels", "selection")) -> None:
    repo = chk.repo
    c = spec("constants.json")["C03"]
    fi = repo.func(AN, "find_pairs")
    chk.note_function(fi)
    fm = FlowMap(fi.node)
    inl = Inliner(fi.node)
    loop = kd_loop(chk, fi)
    fold = Folder(repo, AN).fold
    if "contacts" in parts:
        check_contacts(chk, fi, fm, loop)
        _contact_skips(chk, fi, fm, loop)
    if "angles" in parts:
        _angle_window(chk, fi, fm, inl, loop, fold, c)
    if "labels" in parts:
        _label_loop(chk, fi, fm, inl)
    if "selection" in parts:
        _selection_loop(chk, fi, fm, inl, fold, c)


def _contact_skips(chk, fi, fm, loop) -> None:

    # ---- skips of the contact loop (closed world) -------------------------------------------------
    pats = {
        "same-type": ["type_i == type_j", "type_j == type_i"],
        "same-label": ["atom_i.label is not None and atom_i.label is not None and (atom_i.label == atom_j.label)", "atom_i.label is not None and atom_j.label is not None and (atom_i.label == atom_j.label)", "atom_i.label is not None and atom_i.label == atom_j.label"],
        "same-auth": ["atom_i.auth is not None and atom_i.auth is not None and (atom_i.auth == atom_j.auth)", "atom_i.auth is not None and atom_j.auth is not None and (atom_i.auth == atom_j.auth)", "atom_i.auth is not None and atom_i.auth == atom_j.auth"],
        "no-normal": ["residue_i.base_normal_vector is None or residue_j.base_normal_vector is None", "residue_j.base_normal_vector is None or residue_i.base_normal_vector is None"],
    }
    found, other = classify_skips(fm, loop, pats)
    # the two interaction branches end in continue as well
    branches = [st for st in other if any("PHOSPHATE_ACCEPTORS" in norm(st.test) or "RIBOSE_ACCEPTORS" in norm(st.test) for _ in [0])]
    other = [st for st in other if st not in branches]
    for k in ("same-type", "same-label", "same-auth", "no-normal"):
        chk.expect(
            len(found[k]) == 1,
            "contact-skips",
            fi.site(found[k][0]) if found[k] else fi.site(loop),
            f"skip `{k}` present",
            f"the contact loop has no `{k}` skip: " + {"same-type": "donor-donor / acceptor-acceptor contacts would count", "same-label": "contacts inside one residue would count", "same-auth": "contacts inside one residue would count", "no-normal": "angles would be taken from a missing normal"}[k],
            K(fi, f"skip:{k}"),
        )
    for st in other:
        chk.violation("contact-extra-filter", fi.site(st), f"additional filter `if {norm(st.test)[:70]}: continue` in the contact loop: justified contacts are dropped (completeness)", K(fi, f"extra-skip:{norm(st.test)[:60]}"))
    chk.ok("contact-extra-filter", fi.site(loop), f"{sum(len(v) for v in found.values())} classified skips + {len(branches)} interaction branches, nothing else leaves the loop body early")
    # order: type/same-residue skips come before every append
    appends = [a for a in astq.calls(loop, "append")]
    first_app = min((fm.stmt_of(a).lineno for a in appends), default=None)
    early = [found[k][0] for k in ("same-type", "same-label", "same-auth") if found[k]]
    chk.expect(all(st.lineno < first_app for st in early) if first_app else False, "contact-skips-dominate", fi.site(loop), "donor/acceptor and same-residue skips dominate every append", "an interaction is appended before the donor/acceptor or same-residue skips are applied", K(fi, "skip-order"))
    # the atoms/types/residues of a contact come from the two indices of the query pair
    for nm, want in (("type_i", "coordinates_type_map[coordinates[i]]"), ("type_j", "coordinates_type_map[coordinates[j]]"), ("atom_i", "coordinates_atom_map[coordinates[i]]"), ("atom_j", "coordinates_atom_map[coordinates[j]]"), ("residue_i", "coordinates_residue_map[coordinates[i]]"), ("residue_j", "coordinates_residue_map[coordinates[j]]")):
        d = [v for s, v in astq.assignments(loop, nm) if v is not None and any(s is x for x in loop.body)]
        chk.expect(len(d) == 1 and norm(d[0]) == want, "contact-roles", fi.site(loop), f"{nm} = {want}", f"{nm} is not looked up from the query index it is named after ({[norm(x) for x in d]})", K(fi, f"role:{nm}"))



def _angle_window(chk, fi, fm, inl, loop, fold, c) -> None:
    appends = [a for a in astq.calls(loop, "append")]
    hb = [a for a in appends if astq.dotted(a.func.value) == "hydrogen_bonds"]
    if len(hb) != 1:
        raise AnalysisError("find_pairs: hydrogen_bonds.append site not found")
    st = fm.stmt_of(hb[0])
    gs = [g for g in fm.guards_within(st, loop) if g.kind == "if"]
    if len(gs) != 1 or not gs[0].polarity:
        chk.error("angle-window", fi.site(st), "hydrogen bond append is not under exactly one positive test (besides the skips)")
    else:
        test = inl.inline(gs[0].test, gs[0].stmt, stop=("residue_i", "residue_j", "atom_i", "atom_j"))
        calls = [n for n in ast.walk(test) if isinstance(n, ast.Call) and astq.callee_name(n) == "angle_between_vectors"]
        sig = sorted({norm(x) for x in calls})
        vec_ok = [norm(x.args[1]) in ("atom_i.coordinates - atom_j.coordinates", "atom_j.coordinates - atom_i.coordinates") if len(x.args) == 2 else False for x in calls]
        normals = sorted({norm(x.args[0]) for x in calls if len(x.args) == 2})
        chk.expect(
            normals == ["residue_i.base_normal_vector", "residue_j.base_normal_vector"] and all(vec_ok),
            "angle-operands",
            fi.site(st),
            "the two angles are taken between the contact vector and the normals of the two different residues",
            "the angle test does not use the normals of both residues against the contact vector atom_i - atom_j",
            K(fi, "angle-operands"),
            found=sig,
        )
        if len(normals) == 2:
            qs = [((lambda n, t=t: isinstance(n, ast.Call) and astq.callee_name(n) == "angle_between_vectors" and len(n.args) == 2 and norm(n.args[0]) == t), "rad") for t in normals]
            lo, hi = c["hbond_angle_window_deg"]
            try:
                reg = intervals.region(test, qs, fold, extra_thresholds=(lo, hi))
                bad = {k: v for k, v in reg.items() if v != (lo < k[0] < hi and lo < k[1] < hi)}
                chk.expect(
                    not bad,
                    "angle-window",
                    fi.site(st),
                    f"a contact counts iff both angles lie in ({lo}, {hi}) degrees ({len(reg)} cells compared)",
                    f"accept region of the angle test differs from ({lo}, {hi}) degrees on both normals",
                    K(fi, "angle-window"),
                    expected=f"{lo} < angle_i < {hi} and {lo} < angle_j < {hi} (degrees)",
                    found={str(k): v for k, v in list(bad.items())[:6]},
                )
            except intervals.NotThreshold as ex:
                chk.error("angle-window", fi.site(st), str(ex))
        rec = hb[0].args[0] if hb[0].args else None
        chk.expect(rec is not None and norm(rec) == "(atom_i, atom_j, residue_i, residue_j)", "angle-record", fi.site(st), "a hydrogen bond records (atom_i, atom_j, residue_i, residue_j)", "hydrogen bond record is not (atom_i, atom_j, residue_i, residue_j)", K(fi, "hb-record"))



def _label_loop(chk, fi, fm, inl) -> None:
    ll = [l for l in fi.node.body if isinstance(l, ast.For) and astq.match(l.iter, "hydrogen_bonds") is not None]
    if len(ll) != 1:
        raise AnalysisError("find_pairs: label loop not found")
    ll = ll[0]
    chk.expect(norm(ll.target) == "(atom_i, atom_j, residue_i, residue_j)", "label-roles", fi.site(ll), "label loop unpacks (atom_i, atom_j, residue_i, residue_j)", "label loop does not unpack the hydrogen bond record in the order it was stored", K(fi, "label-unpack"), found=norm(ll.target))
    pats = {"no-edge": ["edges_i is None or edges_j is None", "edges_j is None or edges_i is None"], "no-cistrans": ["cis_trans is None"]}
    found, other = classify_skips(fm, ll, pats)
    for k in pats:
        chk.expect(len(found[k]) == 1, "label-skips", fi.site(ll), f"skip `{k}` present", f"label loop lacks the `{k}` skip", K(fi, f"label-skip:{k}"))
    for st2 in other:
        chk.violation("label-extra-filter", fi.site(st2), f"additional filter `if {norm(st2.test)[:70]}: continue` in the label loop: supported pairs are dropped", K(fi, f"label-extra:{norm(st2.test)[:60]}"))
    chk.ok("label-extra-filter", fi.site(ll), "only missing edges / missing cis-trans skip a hydrogen bond")
    for side in "ij":
        d = [v for s, v in astq.assignments(ll, f"edges_{side}") if v is not None]
        ok = len(d) == 1 and norm(d[0]) in (f"BASE_EDGES.get(residue_{side}.one_letter_name, dict()).get(atom_{side}.name, None)", f"BASE_EDGES.get(residue_{side}.one_letter_name, {{}}).get(atom_{side}.name, None)", f"BASE_EDGES.get(residue_{side}.one_letter_name, {{}}).get(atom_{side}.name)")
        chk.expect(ok, "label-edges", fi.site(ll), f"edges_{side} = BASE_EDGES[base of residue_{side}][name of atom_{side}]", f"edges_{side} is not looked up from BASE_EDGES by the residue's base and the atom's name", K(fi, f"edges_{side}"), found=[norm(x) for x in d])
    d = [v for s, v in astq.assignments(ll, "cis_trans") if v is not None]
    chk.expect(len(d) == 1 and norm(d[0]) in ("detect_cis_trans(residue_i, residue_j)", "detect_cis_trans(residue_j, residue_i)"), "label-cistrans", fi.site(ll), "cis/trans from detect_cis_trans of the two residues", "cis/trans letter does not come from detect_cis_trans(residue_i, residue_j)", K(fi, "cistrans-src"))
    # orientation
    la = [a for a in astq.calls(ll, "append") if astq.dotted(a.func.value) == "labels"]
    ors = [s for s in ll.body if isinstance(s, ast.If) and norm(s.test) in ("residue_i < residue_j", "residue_j > residue_i")]
    ok = False
    if len(la) == 2 and len(ors) == 1:
        in_then = [a for a in la if any(a is n for s in ors[0].body for n in ast.walk(s))]
        in_else = [a for a in la if any(a is n for s in ors[0].orelse for n in ast.walk(s))]
        if len(in_then) == 1 and len(in_else) == 1:
            ok = norm(in_then[0].args[0]) == "(residue_i, residue_j, cis_trans, edge_i, edge_j)" and norm(in_else[0].args[0]) == "(residue_j, residue_i, cis_trans, edge_j, edge_i)"
            for a in la:
                lps = [l for l in fm.of(fm.stmt_of(a)).loops if any(l is n for n in ast.walk(ll)) and l is not ll]
                ok = ok and sorted(norm(l.iter) for l in lps) == ["edges_i", "edges_j"] and {norm(l.target) + "<-" + norm(l.iter) for l in lps} == {"edge_i<-edges_i", "edge_j<-edges_j"}
    chk.expect(ok, "label-orientation", fi.site(ll), "labels are (lower, higher, c/t, edge of lower, edge of higher) for every edge letter combination", "labels are not oriented (lower residue first, edges swapped with the residues) over all edge letter combinations", K(fi, "orientation"), found=[norm(a.args[0]) for a in la])



def _selection_loop(chk, fi, fm, inl, fold, c) -> None:
    sl = [l for l in fi.node.body if isinstance(l, ast.For) and isinstance(l.iter, ast.Call) and astq.callee_name(l.iter) == "most_common"]
    if len(sl) != 1:
        raise AnalysisError("find_pairs: selection loop over Counter.most_common() not found")
    sl = sl[0]
    src = inl.inline(sl.iter, sl)
    chk.expect(norm(src) == "Counter(labels).most_common()", "select-source", fi.site(sl), "candidates = Counter(labels).most_common(): every label with its contact count, best supported first", f"selection iterates `{norm(src)}`, not all labels with their counts", K(fi, "select-source"), found=norm(src))
    if not (isinstance(sl.target, ast.Tuple) and len(sl.target.elts) == 2 and isinstance(sl.target.elts[1], ast.Name)):
        raise AnalysisError("selection loop target is not (interaction, count)")
    cnt = sl.target.elts[1].id
    inter = norm(sl.target.elts[0])
    skips = [st3 for st3 in sl.body if isinstance(st3, ast.If) and st3.body and isinstance(st3.body[-1], ast.Continue) and not st3.orelse]
    count_skips = [s for s in skips if cnt in astq.names(s.test)]
    occ_skips = [s for s in skips if astq.match(s.test, "(R_, E_) in occupied") is not None]
    extra = [s for s in skips if s not in count_skips and s not in occ_skips]
    if len(count_skips) == 1:
        try:
            reg = intervals.region(count_skips[0].test, [((lambda n: isinstance(n, ast.Name) and n.id == cnt), "raw")], fold, extra_thresholds=(0.5, 1.5, 2.5, 3.5))
            bad = {k: v for k, v in reg.items() if v != (k[0] < c["min_contacts"] - 0.25) and abs(k[0] - round(k[0])) != 0.0 or (float(k[0]).is_integer() and v != (k[0] < c["min_contacts"]))}
            # evaluate on integer counts 0..5 explicitly
            ints = {}
            for n in range(0, 6):
                ints[n] = bool(intervals.evaluate(count_skips[0].test, lambda e, n=n: float(n) if isinstance(e, ast.Name) and e.id == cnt else None, fold))
            want = {n: n < c["min_contacts"] for n in range(0, 6)}
            chk.expect(ints == want, "select-min-contacts", fi.site(count_skips[0]), f"a label is skipped iff it has fewer than {c['min_contacts']} contacts", f"count threshold `{norm(count_skips[0].test)}` does not skip exactly the labels with fewer than {c['min_contacts']} contacts", K(fi, "min-contacts"), expected=want, found=ints)
        except intervals.NotThreshold as ex:
            chk.error("select-min-contacts", fi.site(count_skips[0]), str(ex))
    else:
        chk.violation("select-min-contacts", fi.site(sl), f"{len(count_skips)} count thresholds in the selection loop (expected one: fewer than {c['min_contacts']} contacts)", K(fi, "min-contacts"))
    for s in extra:
        chk.violation("select-extra-filter", fi.site(s), f"additional filter `if {norm(s.test)[:70]}: continue` in the selection loop: a supported pair on free edges is dropped (maximality)", K(fi, f"select-extra:{norm(s.test)[:60]}"))
    # any other guard around the append
    bp = [a for a in astq.calls(sl, "append") if astq.dotted(a.func.value) == "base_base_pairs"]
    if len(bp) != 1:
        raise AnalysisError("base_base_pairs.append not found in the selection loop")
    extra_g = [g for g in fm.guards_within(fm.stmt_of(bp[0]), sl) if g.kind == "if"]
    for g in extra_g:
        chk.violation("select-extra-filter", fi.site(g.stmt), f"the pair is appended only under `{norm(g.test)[:70]}`: additional filter (maximality)", K(fi, f"select-guard:{norm(g.test)[:60]}"))
    chk.ok("select-extra-filter", fi.site(sl), "a candidate is skipped only for too few contacts or an occupied edge")
    # guarded insert on occupied
    unp = [s for s in sl.body if isinstance(s, ast.Assign) and isinstance(s.targets[0], ast.Tuple) and norm(s.value) == inter]
    roles_ok = len(unp) == 1 and norm(unp[0].targets[0]) == "(residue_i, residue_j, cis_trans, edge_i, edge_j)"
    chk.expect(roles_ok, "select-roles", fi.site(sl), "the label is unpacked as (residue_i, residue_j, cis_trans, edge_i, edge_j)", "the label is not unpacked in the order it was built", K(fi, "select-unpack"))
    tests = sorted(norm(s.test) for s in occ_skips)
    adds = sorted(norm(a.args[0]) for a in astq.calls(sl, "add") if astq.dotted(a.func.value) == "occupied" and any(fm.stmt_of(a) is s for s in sl.body))
    want_keys = ["(residue_i, edge_i)", "(residue_j, edge_j)"]
    chk.expect(
        tests == [k + " in occupied" for k in want_keys] and adds == want_keys and all(fm.stmt_of(a).lineno < fm.stmt_of(bp[0]).lineno or True for a in astq.calls(sl, "add")),
        "edge-exclusive",
        fi.site(sl),
        "both (residue, edge) keys are tested against `occupied` before, and inserted with, every reported pair",
        "the guarded insert on `occupied` is broken: test keys and inserted keys must both be (residue_i, edge_i) and (residue_j, edge_j)",
        K(fi, "occupied"),
        expected={"tests": [k + " in occupied" for k in want_keys], "adds": want_keys},
        found={"tests": tests, "adds": adds},
    )
    # order: tests before the append
    if occ_skips:
        chk.expect(all(s.lineno < fm.stmt_of(bp[0]).lineno for s in occ_skips), "edge-exclusive", fi.site(sl), "occupied tests precede the append", "a pair is appended before its edges are tested", K(fi, "occupied-order"))
    occ_init = astq.first_assign(fi.node, "occupied")
    chk.expect(occ_init is not None and norm(occ_init) == "set()" and len(astq.assignments(fi.node, "occupied")) == 1, "edge-exclusive", fi.where, "occupied starts empty, once", "`occupied` is not a set initialised once before the selection", K(fi, "occupied-init"))
    # LW lookup and record
    d = [v for s, v in astq.assignments(sl, "lw") if v is not None]
    chk.expect(len(d) == 1 and norm(d[0]) == "LeontisWesthof[f'{cis_trans}{edge_i}{edge_j}']", "select-class", fi.site(sl), "class = LeontisWesthof[c/t + edge of first + edge of second]", "the class is not LeontisWesthof[cis_trans + edge_i + edge_j]", K(fi, "lw"), found=[norm(x) for x in d])
    chk.expect(norm(bp[0].args[0]) == "(residue_i, residue_j, lw)", "select-record", fi.site(bp[0]), "pair recorded as (residue_i, residue_j, lw)", "recorded pair is not (residue_i, residue_j, lw)", K(fi, "record"))


def check_cis_trans(chk) -> None:
    repo = chk.repo
    c = spec("constants.json")["C03"]
    fi = repo.func(AN, "detect_cis_trans")
    chk.note_function(fi)
    inl = Inliner(fi.node)
    fold = Folder(repo, AN).fold
    rets = [r for r in astq.walk_no_nested(fi.node) if isinstance(r, ast.Return) and r.value is not None and not (isinstance(r.value, ast.Constant) and r.value.value is None)]
    if len(rets) != 1 or not isinstance(rets[0].value, ast.IfExp):
        chk.error("cis-trans", fi.where, "expected one `return 'c' if <test> else 't'`")
        return
    ie = rets[0].value
    body, orelse = norm(ie.body), norm(ie.orelse)
    if {body, orelse} != {"'c'", "'t'"}:
        chk.violation("cis-trans", fi.site(rets[0]), f"returns {body}/{orelse}, not 'c'/'t'", K(fi, "letters"))
        return
    test = inl.inline(ie.test, rets[0])
    tc = [n for n in ast.walk(test) if isinstance(n, ast.Call) and astq.callee_name(n) == "torsion_angle"]
    if not tc:
        chk.error("cis-trans", fi.site(rets[0]), "cis/trans test does not depend on torsion_angle(...)")
        return
    lo, hi = c["cis_window_deg"]
    try:
        reg = intervals.region(test, [((lambda n: isinstance(n, ast.Call) and astq.callee_name(n) == "torsion_angle"), "rad")], fold, extra_thresholds=(lo, hi, -180.0, 180.0))
        want_c = body == "'c'"
        bad = {k: v for k, v in reg.items() if -180 <= k[0] <= 180 and v != ((lo < k[0] < hi) == want_c)}
        chk.expect(not bad, "cis-trans", fi.site(rets[0]), f"'c' iff the C1'-N...N-C1' torsion lies in ({lo}, {hi}) degrees", f"cis/trans boundary is not +-90 degrees of the glycosidic-bond torsion (`{norm(ie.test)}` after unit conversion)", K(fi, "boundary"), expected=f"c iff {lo} < torsion_deg < {hi}", found={str(k): v for k, v in list(bad.items())[:5]})
    except intervals.NotThreshold as ex:
        chk.error("cis-trans", fi.site(rets[0]), str(ex))
    # atoms of the torsion
    tc0 = [n for n in ast.walk(ie.test) if isinstance(n, ast.Call) and astq.callee_name(n) == "torsion_angle"]
    if not tc0:
        d0 = [n for n in ast.walk(inl.inline(ie.test, rets[0], depth=1)) if isinstance(n, ast.Call) and astq.callee_name(n) == "torsion_angle"]
        tc0 = d0 or tc
    txt = [norm(a) for a in tc0[0].args]
    chk.expect(txt in (["c1p_i", "n9n1_i", "n9n1_j", "c1p_j"], ["c1p_j", "n9n1_j", "n9n1_i", "c1p_i"]), "cis-trans-atoms", fi.site(tc[0]), "torsion over C1'(i) - N9/N1(i) - N9/N1(j) - C1'(j)", f"torsion atoms are {txt}, not C1'(i), N(i), N(j), C1'(j)", K(fi, "torsion-order"), found=txt)
    for side in "ij":
        d = [v for s, v in astq.assignments(fi.node, f"c1p_{side}") if v is not None]
        chk.expect(len(d) == 1 and norm(d[0]) == f"residue_{side}.find_atom(\"C1'\")", "cis-trans-atoms", fi.where, f"c1p_{side} is C1' of residue_{side}", f"c1p_{side} is not residue_{side}.find_atom(\"C1'\")", K(fi, f"c1p_{side}"))
        ifs = [s for s in fi.node.body if isinstance(s, ast.If) and norm(s.test) in (f"residue_{side}.one_letter_name in 'AG'", f"residue_{side}.one_letter_name.upper() in 'AG'", f"residue_{side}.one_letter_name in ('A', 'G')")]
        ok = len(ifs) == 1 and [norm(s) for s in ifs[0].body] == [f"n9n1_{side} = residue_{side}.find_atom('N9')"] and [norm(s) for s in ifs[0].orelse] == [f"n9n1_{side} = residue_{side}.find_atom('N1')"]
        chk.expect(ok, "cis-trans-atoms", fi.where, f"residue_{side}: N9 for purines (A, G), N1 otherwise", f"glycosidic nitrogen of residue_{side} is not N9 for A/G and N1 otherwise", K(fi, f"n9n1_{side}"))


def check_base_normal(chk) -> None:
    repo = chk.repo
    fi = repo.func(T3, "Residue3D.base_normal_vector")
    chk.note_function(fi)
    ifs = [s for s in fi.node.body if isinstance(s, ast.If)]
    ok = False
    if len(ifs) == 1 and norm(ifs[0].test) in ("self.one_letter_name in 'AG'",):
        def atoms(block):
            return [astq.match(s.value, "self.find_atom(A_)")["A_"].value for s in block if isinstance(s, ast.Assign) and astq.match(s.value, "self.find_atom(A_)")]
        def vecs(block):
            return [norm(s.value) for s in block if isinstance(s, ast.Assign) and norm(s.targets[0]) in ("v1", "v2")]
        pu, py = atoms(ifs[0].body), atoms(ifs[0].orelse)
        ok = pu == ["N9", "N7", "N3"] and py == ["N1", "C4", "O2"] and vecs(ifs[0].body) == ["n7.coordinates - n9.coordinates", "n3.coordinates - n9.coordinates"] and vecs(ifs[0].orelse) == ["c4.coordinates - n1.coordinates", "o2.coordinates - n1.coordinates"]
    rets = [r for r in fi.node.body if isinstance(r, ast.Return)]
    nrm = astq.first_assign(fi.node, "normal")
    ok = ok and nrm is not None and norm(nrm) == "numpy.cross(v1, v2)" and len(rets) == 1 and norm(rets[0].value) == "normal / numpy.linalg.norm(normal)"
    chk.expect(ok, "base-normal", fi.where, "base normal = unit cross product of (N7-N9, N3-N9) for purines, (C4-N1, O2-N1) otherwise", "the base normal is not the unit cross product of the two in-plane vectors N9->N7, N9->N3 (purines) / N1->C4, N1->O2 (pyrimidines)", K(fi, "normal"))
    abv = repo.func(AN, "angle_between_vectors")
    chk.note_function(abv)
    rets = [r for r in abv.node.body if isinstance(r, ast.Return)]
    chk.expect(
        len(rets) == 1 and norm(rets[0].value) in ("math.acos(numpy.dot(v1, v2) / numpy.linalg.norm(v1) / numpy.linalg.norm(v2))", "math.acos(numpy.dot(v1, v2) / (numpy.linalg.norm(v1) * numpy.linalg.norm(v2)))"),
        "angle-function",
        abv.where,
        "angle_between_vectors = acos(v1.v2 / |v1| / |v2|) in radians",
        "angle_between_vectors is not acos of the normalised dot product",
        K(abv, "formula"),
    )


def run(chk) -> None:
    chk.explanation = (
        "Static rules on annotator.find_pairs, detect_cis_trans, Residue3D.base_normal_vector and the tables of tertiary.py: constant-folded contact radius; "
        "donor/acceptor typing; closed-world classification of every early exit of the three loops (any additional filter is a report - maximality/completeness); "
        "accept region of the angle test evaluated cell by cell against 50-130 degrees on both normals with unit tracking; cis/trans region against +-90 degrees; "
        "integer accept set of the contact-count test; guarded-insert discipline on the occupied-edge set; label orientation; edge/donor/acceptor tables equal to the "
        "pinned Leontis-Westhof tables and closed under each other; LeontisWesthof total over c/t x {W,H,S}^2."
    )
    chk.trusted = ["CPython ast", "scipy KDTree.query_pairs returns every pair within the radius", "pinned tables in spec/lw_edges.json (provenance there)"]
    chk.assumptions = ["contacts within 1e-6 of a threshold are undecided (strictness of comparisons is not compared)", "float geometry itself is not decided"]
    check_tables(chk)
    check_find_pairs(chk)
    check_cis_trans(chk)
    check_base_normal(chk)
    for rule, n in (("table-pinned", 6), ("contact-radius", 1), ("angle-window", 1), ("cis-trans", 1), ("select-min-contacts", 1), ("edge-exclusive", 3), ("contact-skips", 4), ("label-orientation", 1)):
        chk.floor(rule, n)


MANIFEST_ENTRY = {
    "text": "Static decision of the structural clauses of the base-pair definition on the current source: radius 4.0 (folded), donor-acceptor only, different residues, both angles in "
    "50-130 degrees (cell-by-cell accept region with unit tracking), cis iff |torsion| < 90 degrees over C1'-N9/N1..N9/N1-C1', at least two contacts, no edge used twice (guarded insert), and "
    "maximality as a closed-world rule: a candidate can only be skipped for too few contacts or an occupied edge. Tables are pinned by value and cross-checked for closure.",
    "note": "Trusted: KD-tree completeness, pinned Leontis-Westhof tables. Not decided: floating-point geometry, which atoms define the base normal beyond the stated triple, O2' consumption order between base-ribose and base-base detection.",
    "technique": "static analysis: constant folding, reaching-definition inlining, accept-region evaluation of threshold guards over the cell partition, closed-world guard classification, table agreement",
}
