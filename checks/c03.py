"""C03 - reported base pairs are geometrically justified, edge-exclusive and maximal.

Decided on annotator.find_pairs / detect_cis_trans and the tables of tertiary.py: the contact radius, the
donor/acceptor typing, the angle window on both normals, the cis/trans boundary, the >= 2 contact rule, the
guarded-insert discipline on occupied edges, the closed set of reasons for which a candidate can be skipped
(maximality), the label orientation and the edge/donor/acceptor tables.
"""
from __future__ import annotations

import ast
import copy
import json
import os
from typing import Any, Dict, List, Optional, Tuple

from sa import astq, intervals
from sa.consteval import Folder
from sa.defuse import Inliner
from sa.flow import FlowMap, Guard, facts
from sa.model import AnalysisError, FuncInfo, norm
from sa.report import VERIF

AN, T3 = "annotator", "tertiary"


def K(fi: FuncInfo, what: str) -> str:
    return f"{fi.module.name}:{fi.qualname}:{what}"


def spec(name: str) -> Any:
    return json.load(open(os.path.join(VERIF, "spec", name)))


def fold_call_arg(chk, fi: FuncInfo, call: ast.Call, idx: int = 0) -> Any:
    return Folder(chk.repo, fi.module.name).try_fold(call.args[idx]) if len(call.args) > idx else None


def kd_loop(chk, fi: FuncInfo) -> ast.For:
    loops = [l for l in fi.node.body if isinstance(l, ast.For) and isinstance(l.iter, ast.Call) and astq.callee_name(l.iter) == "query_pairs"]
    if len(loops) != 1:
        raise AnalysisError(f"{fi.qualname}: expected exactly one loop over kdtree.query_pairs(...), found {len(loops)}")
    return loops[0]


def classify_skips(fm: FlowMap, loop: ast.AST, patterns: Dict[str, List[str]]) -> Tuple[Dict[str, List[ast.If]], List[ast.If]]:
    """Top-level `if c: continue` statements of a loop body, classified by pattern; unclassified ones returned separately."""
    found: Dict[str, List[ast.If]] = {k: [] for k in patterns}
    other: List[ast.If] = []
    for st in loop.body:
        if isinstance(st, ast.If) and st.body and isinstance(st.body[-1], ast.Continue) and not st.orelse:
            hit = None
            for k, pats in patterns.items():
                if any(astq.match(st.test, p) is not None for p in pats):
                    hit = k
                    break
            if hit:
                found[hit].append(st)
            else:
                other.append(st)
    return found, other


def check_tables(chk) -> None:
    repo = chk.repo
    f = Folder(repo, T3)
    sp = spec("lw_edges.json")
    vals = {}
    for name in ("BASE_ATOMS", "BASE_DONORS", "BASE_ACCEPTORS", "PHOSPHATE_ACCEPTORS", "RIBOSE_ACCEPTORS", "BASE_EDGES"):
        e = repo.const_expr(T3, name)
        v = f.try_fold(e)
        if v is None:
            chk.error("table-pinned", f"src/rnapolis/tertiary.py {name}", "table does not fold to a constant")
            continue
        vals[name] = v
        chk.expect(
            v == sp[name],
            "table-pinned",
            f"src/rnapolis/tertiary.py:{e.lineno} {name}",
            f"{name} equals the pinned Leontis-Westhof / donor-acceptor table",
            f"{name} differs from the pinned table: the set of contacts that count, or the edge they count on, changes",
            f"{T3}:{name}",
            expected={k: sp[name][k] for k in sp[name] if sp[name][k] != v.get(k)} if isinstance(v, dict) else sp[name],
            found={k: v.get(k) for k in set(v) | set(sp[name]) if sp[name].get(k) != v.get(k)} if isinstance(v, dict) else v,
        )
    if len(vals) < 6:
        return
    # closure: every base donor/acceptor has an edge, every edge atom is a donor or acceptor, letters are W/H/S
    for base in vals["BASE_EDGES"]:
        da = set(vals["BASE_DONORS"].get(base, [])) | set(vals["BASE_ACCEPTORS"].get(base, []))
        ed = set(vals["BASE_EDGES"][base])
        chk.expect(
            da == ed,
            "table-closure",
            f"src/rnapolis/tertiary.py BASE_EDGES[{base}]",
            f"{base}: atoms with an edge = donors + acceptors",
            f"{base}: donor/acceptor atoms and atoms with an edge differ - a contact is found but never matched to an edge (or vice versa)",
            f"{T3}:BASE_EDGES:{base}:closure",
            expected=sorted(da),
            found=sorted(ed),
        )
        letters = set("".join(vals["BASE_EDGES"][base].values()))
        chk.expect(letters <= set("WHS"), "table-closure", f"src/rnapolis/tertiary.py BASE_EDGES[{base}]", "edge letters are W/H/S", "edge letters outside W/H/S: LeontisWesthof[...] lookup raises KeyError", f"{T3}:BASE_EDGES:{base}:letters", found=sorted(letters))
        extra = da - set(vals["BASE_ATOMS"].get(base, [])) - {"O2'"}
        chk.expect(not extra, "table-closure", f"src/rnapolis/tertiary.py BASE_DONORS/ACCEPTORS[{base}]", "donors/acceptors are base atoms or O2'", f"donor/acceptor atoms {sorted(extra)} are not base atoms of {base}", f"{T3}:{base}:da-atoms")
    lw = set(repo.enum_members("common", "LeontisWesthof"))
    want = {c + a + b for c in "ct" for a in "WHS" for b in "WHS"}
    chk.expect(lw == want, "lw-total", "src/rnapolis/common.py LeontisWesthof", "LeontisWesthof has all 18 members c/t x {W,H,S}^2", "LeontisWesthof is not the full set of 18 classes: some cis/trans+edge combination raises KeyError", "common:LeontisWesthof:members", expected=sorted(want), found=sorted(lw))


def check_exact_query(chk, fi: FuncInfo, call: ast.Call, rule: str) -> None:
    """The neighbour search decides the distance clause by itself (nothing downstream measures the distance again), so it has
    to be the exact Euclidean query: scipy's `eps` > 0 accepts / rejects whole node pairs within r*(1+eps) / r/(1+eps) without a
    distance test, and `p` != 2 is another metric.  Any further argument of the query is read as a fact: folded and compared."""
    f = Folder(chk.repo, fi.module.name)
    extra = {}
    for k in call.keywords:
        if k.arg in (None, "r"):
            continue
        extra[k.arg] = f.try_fold(k.value, "<not a constant>")
    names = ["r", "p", "eps", "output_type"]
    for i, a in enumerate(call.args[1:], start=1):
        extra[names[i] if i < len(names) else f"arg{i}"] = f.try_fold(a, "<not a constant>")
    bad = {k: v for k, v in extra.items() if not ((k == "eps" and v in (0, 0.0)) or (k == "p" and v in (2, 2.0)) or (k == "output_type" and v == "set"))}
    chk.expect(
        not bad,
        rule,
        fi.site(call),
        "the neighbour query is the exact Euclidean one (no eps, p = 2): the pairs it returns are exactly those within the radius",
        f"the neighbour query is called with {bad}: " + ("with eps > 0 scipy accepts or rejects whole pairs of tree nodes without computing distances, so the cut-off becomes a band r/(1+eps) .. r*(1+eps) and no later statement re-checks the distance" if "eps" in bad else "the pairs returned are no longer exactly those within the Euclidean radius"),
        K(fi, "query-exact"),
        expected="query_pairs(r)",
        found={k: str(v) for k, v in bad.items()},
    )


def check_radius(chk, fi: FuncInfo, loop: ast.For) -> None:
    c = spec("constants.json")["C03"]
    # radius
    r = fold_call_arg(chk, fi, loop.iter)
    chk.expect(
        r == c["hbond_max_distance"],
        "contact-radius",
        fi.site(loop),
        f"contacts come from query_pairs({r})",
        f"contact search radius folds to {r}, the statement says {c['hbond_max_distance']} A",
        K(fi, "radius"),
        expected=c["hbond_max_distance"],
        found=r,
    )
    check_exact_query(chk, fi, loop.iter, "contact-radius")
    n_q = len(astq.calls(fi.node, "query_pairs")) + len(astq.calls(fi.node, "query_ball_point")) + len(astq.calls(fi.node, "query"))
    chk.expect(n_q == 1, "contact-source", fi.where, "one KD-tree query is the only source of contacts", f"{n_q} KD-tree queries: contacts have more than one source", K(fi, "sources"))


def check_contacts(chk, fi: FuncInfo, fm: FlowMap, loop: ast.For) -> None:
    """Pinned-form reading of the residue loop (fallback of c03e.check_registration)."""
    repo = chk.repo
    # candidate atoms: acceptors + donors of the residue's base, by name
    res_loops = [l for l in fi.node.body if isinstance(l, ast.For) and astq.match(l.iter, "structure.residues") is not None]
    if len(res_loops) != 1:
        raise AnalysisError("find_pairs: residue loop not found")
    rl = res_loops[0]
    inl = Inliner(fi.node)
    atom_loops = [l for l in rl.body if isinstance(l, ast.For)]
    ok = False
    found = None
    if len(atom_loops) == 1:
        it = inl.inline(atom_loops[0].iter, atom_loops[0])
        found = norm(it)
        ok = norm(it) in (
            "BASE_ACCEPTORS.get(residue.one_letter_name, []) + RIBOSE_ACCEPTORS + PHOSPHATE_ACCEPTORS + BASE_DONORS.get(residue.one_letter_name, [])",
            "BASE_ACCEPTORS.get(residue.one_letter_name, []) + PHOSPHATE_ACCEPTORS + RIBOSE_ACCEPTORS + BASE_DONORS.get(residue.one_letter_name, [])",
        )
    chk.expect(ok, "contact-atoms", fi.site(rl), "candidate atoms = base acceptors + ribose + phosphate acceptors + base donors of the residue's own base", "the candidate atom list is not acceptors(base)+ribose+phosphate+donors(base) of the residue's one-letter name", K(fi, "atoms"), found=found)
    # typing
    tm = [s for s in ast.walk(rl) if isinstance(s, ast.Assign) and astq.match(s.targets[0], "coordinates_type_map[X_]") is not None]
    ok = len(tm) == 1 and (astq.match(tm[0].value, '"acceptor" if A_ in acceptors else "donor"') is not None or astq.match(tm[0].value, '"donor" if A_ in donors else "acceptor"') is not None)
    chk.expect(ok, "contact-typing", fi.site(tm[0]) if tm else fi.site(rl), "an atom is typed acceptor iff its name is in the acceptor list, donor otherwise", "atom typing is not `acceptor if name in acceptors else donor`", K(fi, "typing"), found=norm(tm[0].value) if tm else None)
    # model filter at the head of the residue loop
    head = rl.body[0] if rl.body else None
    ok = isinstance(head, ast.If) and astq.match(head.test, "model is not None and residue.model != model") is not None and isinstance(head.body[-1], ast.Continue)
    chk.expect(ok, "model-filter", fi.site(rl), "residues of other models are skipped first", "the residue loop does not start by skipping residues of other models", K(fi, "model-filter"))


# rules that have a fact-level reading in checks/c03e.py: VIOLATION there, ANALYSIS-ERROR when only the pinned form could be tried
FACT = {
    "contact-skips", "contact-extra-filter", "contact-atoms", "contact-typing", "contact-roles", "model-filter", "contact-skips-dominate",
    "label-extra-filter", "label-edges", "label-cistrans", "label-skips", "label-roles", "angle-record", "angle-operands",
    "select-record", "select-source", "select-roles", "base-normal", "contact-distinct-points",
}


def _pinned(chk, fn, *a) -> None:
    """Run a pinned-form rule group as a fallback: its findings in a rewritten function are 'idiom not recognised', not verdicts."""
    saved = set(chk.robust)
    # the pinned group reads locals by the names they have at the reference commit: in a rewritten function none of its findings is a
    # verdict, the closed-world and orientation rules included (they abstain with `idiom not recognised`)
    chk.robust -= FACT | {"label-orientation", "edge-exclusive", "select-extra-filter", "select-class", "select-min-contacts", "angle-window", "same-residue-identity", "cis-trans", "cis-trans-atoms"}
    try:
        fn(*a)
    finally:
        chk.robust |= saved


def check_find_pairs(chk, parts=("contacts", "angles", "labels", "selection")) -> None:
    from checks import c03e

    repo = chk.repo
    c = spec("constants.json")["C03"]
    fi = repo.func(AN, "find_pairs")
    chk.note_function(fi)
    fi = c03e.unfolded(repo, fi)  # a generator helper consumed here is read as the loop it stands for
    fm = FlowMap(fi.node)
    inl = Inliner(fi.node)
    loop = kd_loop(chk, fi)
    fold = Folder(repo, AN).fold
    model = None
    why = None
    try:
        model = c03e.pairs_model(chk, fi, loop)
    except c03e.NotReadable as ex:
        why = str(ex)
    chk.robust |= FACT

    def fact(name, fn, fallback) -> None:
        """fact-level rule group; the pinned-form group only when the fact-level reading is impossible"""
        if model is not None:
            try:
                fn()
                return
            except (c03e.NotReadable, c03e.SX.TooManyPaths) as ex:
                reason = str(ex)
            except AnalysisError:
                raise
            except Exception as ex:  # a crash of the reading is an analysis error of this rule group, never a verdict and never a traceback
                chk.error("reading", fi.where, f"{name}: internal error of the fact-level reading ({type(ex).__name__}: {str(ex)[:120]})")
                return
        else:
            reason = why
        chk.ok("reading", fi.where, f"{name}: fact-level reading not possible ({reason[:120]}); pinned-form rules used")
        _pinned(chk, fallback)

    if "contacts" in parts:
        check_radius(chk, fi, loop)
        fact("registration", lambda: c03e.check_registration(chk, fi, model, spec, distinct="selection" in parts), lambda: check_contacts(chk, fi, fm, loop))
        fact("contact loop", lambda: c03e.check_contacts(chk, fi, loop, model, _eq_fields), lambda: _contact_skips(chk, fi, fm, loop))
    if "angles" in parts:
        fact("angle window", lambda: c03e.check_angles(chk, fi, model, fold, c), lambda: _angle_window(chk, fi, fm, inl, loop, fold, c))
    if "labels" in parts:
        fact("labels", lambda: c03e.check_labels(chk, fi, model), lambda: _label_loop(chk, fi, fm, inl))
    if "selection" in parts:
        fact("selection", lambda: c03e.check_selection(chk, fi, model, fold, c), lambda: _selection_loop(chk, fi, fm, inl, fold, c))


def _contact_skips(chk, fi, fm, loop) -> None:

    # ---- skips of the contact loop (closed world) -------------------------------------------------
    pats = {
        "same-type": ["type_i == type_j", "type_j == type_i"],
        "same-label": ["atom_i.label is not None and atom_i.label is not None and (atom_i.label == atom_j.label)", "atom_i.label is not None and atom_j.label is not None and (atom_i.label == atom_j.label)", "atom_i.label is not None and atom_i.label == atom_j.label"],
        "same-auth": ["atom_i.auth is not None and atom_i.auth is not None and (atom_i.auth == atom_j.auth)", "atom_i.auth is not None and atom_j.auth is not None and (atom_i.auth == atom_j.auth)", "atom_i.auth is not None and atom_i.auth == atom_j.auth"],
        "no-normal": ["residue_i.base_normal_vector is None or residue_j.base_normal_vector is None", "residue_j.base_normal_vector is None or residue_i.base_normal_vector is None"],
    }
    found, other = classify_skips(fm, loop, pats)
    # the two interaction branches end in continue as well
    branches = [st for st in other if any("PHOSPHATE_ACCEPTORS" in norm(st.test) or "RIBOSE_ACCEPTORS" in norm(st.test) for _ in [0])]
    other = [st for st in other if st not in branches]
    for k in ("same-type", "same-label", "same-auth", "no-normal"):
        chk.expect(
            len(found[k]) == 1,
            "contact-skips",
            fi.site(found[k][0]) if found[k] else fi.site(loop),
            f"skip `{k}` present",
            f"the contact loop has no `{k}` skip: " + {"same-type": "donor-donor / acceptor-acceptor contacts would count", "same-label": "contacts inside one residue would count", "same-auth": "contacts inside one residue would count", "no-normal": "angles would be taken from a missing normal"}[k],
            K(fi, f"skip:{k}"),
        )
    # same-residue skips compare the whole identity: a skip on part of (chain, number, icode) merges different residues
    ident = []
    for st in list(other):
        eqs = set()
        for g in facts([Guard(st.test, True, "if", st)]):
            t = g.test
            if isinstance(t, ast.Compare) and len(t.ops) == 1 and isinstance(t.ops[0], ast.Eq) and isinstance(t.left, ast.Attribute) and isinstance(t.comparators[0], ast.Attribute) and t.left.attr == t.comparators[0].attr:
                a, b = norm(t.left.value).split("."), norm(t.comparators[0].value).split(".")
                if {a[0][-2:], b[0][-2:]} == {"_i", "_j"} and a[0][:-2] == b[0][:-2] and a[1:] == b[1:]:
                    eqs.add(t.left.attr)
        if eqs and eqs <= {"chain", "number", "icode", "model", "name"}:
            ident.append((st, eqs))
            other.remove(st)
    # object equality of the two residues: what does Residue3D.__eq__ compare?
    for st in list(other):
        for g in facts([Guard(st.test, True, "if", st)]):
            if norm(g.test) in ("residue_i == residue_j", "residue_j == residue_i") and g.polarity:
                cmp_fields = _eq_fields(chk.repo, "tertiary", "Residue3D")
                if cmp_fields is None:
                    chk.error("same-residue-identity", fi.site(st), "equality of Residue3D not understood")
                elif "atoms" in cmp_fields:
                    chk.violation("same-residue-identity", fi.site(st), f"`{norm(g.test)}` uses the dataclass equality of Residue3D, which also compares the atom tuples {sorted(cmp_fields)}: two fragments of one residue (atoms not contiguous in the file) are different objects, so contacts inside that residue are reported as interactions of the residue with itself", K(fi, "same-residue-object-eq"), found=sorted(cmp_fields))
                else:
                    chk.ok("same-residue-identity", fi.site(st), f"`{norm(g.test)}` compares {sorted(cmp_fields)}")
                other.remove(st)
                if not (found["same-label"] or found["same-auth"]):
                    found["same-label"] = found["same-auth"] = [st]
                break
    for st, eqs in ident:
        missing = {"chain", "number", "icode"} - eqs
        chk.expect(
            not missing,
            "same-residue-identity",
            fi.site(st),
            "the same-residue skip compares chain, number and insertion code",
            f"the same-residue skip compares only {sorted(eqs)}: two different residues that share them (insertion codes {'' if 'icode' in missing else 'aside'}, label vs author numbering) are treated as one and every contact between them is dropped",
            K(fi, "same-residue-partial"),
            expected=["chain", "number", "icode"],
            found=sorted(eqs),
        )
    if ident and not (found["same-label"] or found["same-auth"]):
        found["same-label"] = found["same-auth"] = [ident[0][0]]
    for st in other:
        chk.violation("contact-extra-filter", fi.site(st), f"additional filter `if {norm(st.test)[:70]}: continue` in the contact loop: justified contacts are dropped (completeness)", K(fi, f"extra-skip:{norm(st.test)[:60]}"))
    chk.ok("contact-extra-filter", fi.site(loop), f"{sum(len(v) for v in found.values())} classified skips + {len(branches)} interaction branches, nothing else leaves the loop body early")
    # order: type/same-residue skips come before every append
    appends = [a for a in astq.calls(loop, "append")]
    first_app = min((fm.stmt_of(a).lineno for a in appends), default=None)
    early = [found[k][0] for k in ("same-type", "same-label", "same-auth") if found[k]]
    chk.expect(all(st.lineno < first_app for st in early) if first_app else False, "contact-skips-dominate", fi.site(loop), "donor/acceptor and same-residue skips dominate every append", "an interaction is appended before the donor/acceptor or same-residue skips are applied", K(fi, "skip-order"))
    # the atoms/types/residues of a contact come from the two indices of the query pair
    for nm, want in (("type_i", "coordinates_type_map[coordinates[i]]"), ("type_j", "coordinates_type_map[coordinates[j]]"), ("atom_i", "coordinates_atom_map[coordinates[i]]"), ("atom_j", "coordinates_atom_map[coordinates[j]]"), ("residue_i", "coordinates_residue_map[coordinates[i]]"), ("residue_j", "coordinates_residue_map[coordinates[j]]")):
        d = [v for s, v in astq.assignments(loop, nm) if v is not None and any(s is x for x in loop.body)]
        chk.expect(len(d) == 1 and norm(d[0]) == want, "contact-roles", fi.site(loop), f"{nm} = {want}", f"{nm} is not looked up from the query index it is named after ({[norm(x) for x in d]})", K(fi, f"role:{nm}"))



def find_emission(fi: FuncInfo, container: str):
    """Where the recorded tuples of `container` are turned into output objects:
    [(iter expression, target, element expression with temporaries inlined, site)] for loops with one append and for comprehensions."""
    out = []
    inl = Inliner(fi.node)
    fm = FlowMap(fi.node)
    for n in ast.walk(fi.node):
        if isinstance(n, ast.For) and container in astq.names(n.iter):
            apps = [c for c in astq.calls(n, "append") if c.args]
            if len(apps) == 1:
                tnames = tuple(x.id for x in ast.walk(n.target) if isinstance(x, ast.Name))
                out.append((n.iter, n.target, inl.inline(apps[0].args[0], fm.stmt_of(apps[0]), stop=tnames), n))
        elif isinstance(n, (ast.ListComp, ast.GeneratorExp)) and len(n.generators) == 1 and container in astq.names(n.generators[0].iter) and not n.generators[0].ifs:
            out.append((n.generators[0].iter, n.generators[0].target, n.elt, n))
    return out


def _eq_fields(repo, module: str, cls: str) -> Optional[set]:
    """Fields compared by `==` on instances of a dataclass (explicit __eq__: the self attributes it reads)."""
    mod = repo.module(module)
    cd = mod.classes.get(cls)
    if cd is None:
        return None
    fields = set()
    seen = set()
    cur = cd
    chain = []
    while cur is not None and cur.name not in seen:
        seen.add(cur.name)
        chain.append((module, cur))
        nxt = None
        for b in cur.bases:
            if isinstance(b, ast.Name):
                for m2 in repo.modules.values():
                    if b.id in m2.classes:
                        nxt = m2.classes[b.id]
                        module = m2.name
        cur = nxt
    for m2, c2 in chain:
        for st in c2.body:
            if isinstance(st, ast.FunctionDef) and st.name == "__eq__":
                return {x.attr for x in ast.walk(st) if isinstance(x, ast.Attribute) and isinstance(x.value, ast.Name) and x.value.id == "self"}
        break  # only the class itself may override; inherited dataclass eq is regenerated by @dataclass
    is_dc = any("dataclass" in norm(d) for d in cd.decorator_list)
    if not is_dc:
        return None
    if any("eq=False" in norm(d) for d in cd.decorator_list):
        return set()
    for m2, c2 in reversed(chain):
        for st in c2.body:
            if isinstance(st, ast.AnnAssign) and isinstance(st.target, ast.Name) and "ClassVar" not in norm(st.annotation):
                if st.value is not None and isinstance(st.value, ast.Call) and astq.callee_name(st.value) == "field" and any(k.arg == "compare" and norm(k.value) == "False" for k in st.value.keywords):
                    continue
                fields.add(st.target.id)
    return fields


def _angle_window(chk, fi, fm, inl, loop, fold, c) -> None:
    appends = [a for a in astq.calls(loop, "append")]
    hb = [a for a in appends if astq.dotted(a.func.value) == "hydrogen_bonds"]
    if len(hb) != 1:
        raise AnalysisError("find_pairs: hydrogen_bonds.append site not found")
    st = fm.stmt_of(hb[0])
    gs = [g for g in fm.guards_within(st, loop) if g.kind == "if"]
    if len(gs) != 1 or not gs[0].polarity:
        chk.error("angle-window", fi.site(st), "hydrogen bond append is not under exactly one positive test (besides the skips)")
    else:
        test = inl.inline(gs[0].test, gs[0].stmt, stop=("residue_i", "residue_j", "atom_i", "atom_j"))
        calls = [n for n in ast.walk(test) if isinstance(n, ast.Call) and astq.callee_name(n) == "angle_between_vectors"]
        sig = sorted({norm(x) for x in calls})
        vec_ok = [norm(x.args[1]) in ("atom_i.coordinates - atom_j.coordinates", "atom_j.coordinates - atom_i.coordinates") if len(x.args) == 2 else False for x in calls]
        normals = sorted({norm(x.args[0]) for x in calls if len(x.args) == 2})
        chk.expect(
            normals == ["residue_i.base_normal_vector", "residue_j.base_normal_vector"] and all(vec_ok),
            "angle-operands",
            fi.site(st),
            "the two angles are taken between the contact vector and the normals of the two different residues",
            "the angle test does not use the normals of both residues against the contact vector atom_i - atom_j",
            K(fi, "angle-operands"),
            found=sig,
        )
        if len(normals) == 2:
            qs = [((lambda n, t=t: isinstance(n, ast.Call) and astq.callee_name(n) == "angle_between_vectors" and len(n.args) == 2 and norm(n.args[0]) == t), "rad") for t in normals]
            lo, hi = c["hbond_angle_window_deg"]
            try:
                reg = intervals.region(test, qs, fold, extra_thresholds=(lo, hi))
                bad = {k: v for k, v in reg.items() if v != (lo < k[0] < hi and lo < k[1] < hi)}
                chk.expect(
                    not bad,
                    "angle-window",
                    fi.site(st),
                    f"a contact counts iff both angles lie in ({lo}, {hi}) degrees ({len(reg)} cells compared)",
                    f"accept region of the angle test differs from ({lo}, {hi}) degrees on both normals",
                    K(fi, "angle-window"),
                    expected=f"{lo} < angle_i < {hi} and {lo} < angle_j < {hi} (degrees)",
                    found={str(k): v for k, v in list(bad.items())[:6]},
                )
            except intervals.NotThreshold as ex:
                chk.error("angle-window", fi.site(st), str(ex))
        rec = hb[0].args[0] if hb[0].args else None
        chk.expect(rec is not None and norm(rec) == "(atom_i, atom_j, residue_i, residue_j)", "angle-record", fi.site(st), "a hydrogen bond records (atom_i, atom_j, residue_i, residue_j)", "hydrogen bond record is not (atom_i, atom_j, residue_i, residue_j)", K(fi, "hb-record"))



def _label_loop(chk, fi, fm, inl) -> None:
    ll = [l for l in fi.node.body if isinstance(l, ast.For) and astq.match(l.iter, "hydrogen_bonds") is not None]
    if len(ll) != 1:
        raise AnalysisError("find_pairs: label loop not found")
    ll = ll[0]
    chk.expect(norm(ll.target) == "(atom_i, atom_j, residue_i, residue_j)", "label-roles", fi.site(ll), "label loop unpacks (atom_i, atom_j, residue_i, residue_j)", "label loop does not unpack the hydrogen bond record in the order it was stored", K(fi, "label-unpack"), found=norm(ll.target))
    pats = {"no-edge": ["edges_i is None or edges_j is None", "edges_j is None or edges_i is None"], "no-cistrans": ["cis_trans is None"]}
    found, other = classify_skips(fm, ll, pats)
    for k in pats:
        chk.expect(len(found[k]) == 1, "label-skips", fi.site(ll), f"skip `{k}` present", f"label loop lacks the `{k}` skip", K(fi, f"label-skip:{k}"))
    for st2 in other:
        chk.violation("label-extra-filter", fi.site(st2), f"additional filter `if {norm(st2.test)[:70]}: continue` in the label loop: supported pairs are dropped", K(fi, f"label-extra:{norm(st2.test)[:60]}"))
    chk.ok("label-extra-filter", fi.site(ll), "only missing edges / missing cis-trans skip a hydrogen bond")
    for side in "ij":
        d = [v for s, v in astq.assignments(ll, f"edges_{side}") if v is not None]
        ok = len(d) == 1 and norm(d[0]) in (f"BASE_EDGES.get(residue_{side}.one_letter_name, dict()).get(atom_{side}.name, None)", f"BASE_EDGES.get(residue_{side}.one_letter_name, {{}}).get(atom_{side}.name, None)", f"BASE_EDGES.get(residue_{side}.one_letter_name, {{}}).get(atom_{side}.name)")
        chk.expect(ok, "label-edges", fi.site(ll), f"edges_{side} = BASE_EDGES[base of residue_{side}][name of atom_{side}]", f"edges_{side} is not looked up from BASE_EDGES by the residue's base and the atom's name", K(fi, f"edges_{side}"), found=[norm(x) for x in d])
    d = [v for s, v in astq.assignments(ll, "cis_trans") if v is not None]
    chk.expect(len(d) == 1 and norm(d[0]) in ("detect_cis_trans(residue_i, residue_j)", "detect_cis_trans(residue_j, residue_i)"), "label-cistrans", fi.site(ll), "cis/trans from detect_cis_trans of the two residues", "cis/trans letter does not come from detect_cis_trans(residue_i, residue_j)", K(fi, "cistrans-src"))
    # orientation: every site that adds labels, read symbolically
    _label_orientation(chk, fi, fm, inl, ll)


def _pair_sources(it: ast.expr, inl, at) -> Optional[List[str]]:
    """For an iterable of tuples: the list each tuple position ranges over, when the iterable is the full product of plain lists."""
    if isinstance(it, ast.Name):
        d = inl.reaching(it.id, at)
        if d is None:
            return None
        it = d
    if isinstance(it, ast.Call) and astq.dotted(it.func) in ("itertools.product", "product") and not it.keywords and all(isinstance(a, ast.Name) for a in it.args):
        return [a.id for a in it.args]
    if isinstance(it, (ast.ListComp, ast.GeneratorExp)) and isinstance(it.elt, ast.Tuple) and all(isinstance(e, ast.Name) for e in it.elt.elts):
        src = {}
        for g in it.generators:
            if g.ifs or not isinstance(g.target, ast.Name) or not isinstance(g.iter, ast.Name):
                return None
            src[g.target.id] = g.iter.id
        if sorted(src) != sorted(e.id for e in it.elt.elts):
            return None
        return [src[e.id] for e in it.elt.elts]
    return None


def _label_orientation(chk, fi, fm, inl, ll) -> None:
    sites = []  # (tuple expr, {edge var: source list}, stmt)
    for call in [c for c in ast.walk(ll) if isinstance(c, ast.Call) and isinstance(c.func, ast.Attribute) and astq.dotted(c.func.value) == "labels" and c.func.attr in ("append", "extend")]:
        st = fm.stmt_of(call)
        binds: Dict[str, Optional[str]] = {}
        complete = True

        def bind(target, it, at):
            nonlocal complete
            if isinstance(target, ast.Name):
                if isinstance(it, ast.Name):
                    binds[target.id] = it.id
                else:
                    complete = False
            elif isinstance(target, ast.Tuple) and all(isinstance(e, ast.Name) for e in target.elts):
                ps = _pair_sources(it, inl, at)
                if ps is None or len(ps) != len(target.elts):
                    complete = False
                else:
                    for e, p in zip(target.elts, ps):
                        binds[e.id] = p
            else:
                complete = False

        for l in fm.of(st).loops:
            if l is ll or not any(l is n for n in ast.walk(ll)):
                continue
            if any(isinstance(n, (ast.Break, ast.Continue)) for b in l.body for n in ast.walk(b)):
                complete = False
            bind(l.target, l.iter, l)
        arg = call.args[0] if call.args else None
        if call.func.attr == "extend":
            if not isinstance(arg, (ast.GeneratorExp, ast.ListComp)):
                chk.error("label-orientation", fi.site(call), f"`{norm(call)[:80]}`: extend argument not a comprehension")
                continue
            for g in arg.generators:
                if g.ifs:
                    complete = False
                bind(g.target, g.iter, st)
            tup = arg.elt
        else:
            tup = arg
        if not complete or not isinstance(tup, ast.Tuple) or len(tup.elts) != 5:
            chk.error("label-orientation", fi.site(call), f"label site `{norm(call)[:90]}` not understood (iteration over edge letters or the 5-tuple)")
            continue
        sites.append((tup, binds, st, call))
    if not sites:
        chk.error("label-orientation", fi.site(ll), "no site adding to `labels` found in the label loop")
        return
    covered = set()
    for tup, binds, st, call in sites:
        fs = facts(fm.guards_within(st, ll))
        lower = None  # name of the residue known to be the lower one on this path
        for g in fs:
            t = norm(g.test)
            if t in ("residue_i < residue_j", "residue_j > residue_i"):
                lower = "i" if g.polarity else "j"
            elif t in ("residue_j < residue_i", "residue_i > residue_j"):
                lower = "j" if g.polarity else "i"
        if lower is None:
            chk.violation("label-orientation", fi.site(call), f"`{norm(call)[:80]}` adds labels without a `residue_i < residue_j` decision: the same pair gets two different labels depending on atom order, and the contact counts split", K(fi, "orientation-unguarded"))
            continue
        covered.add(lower)
        hi = "j" if lower == "i" else "i"
        e = [norm(x) for x in tup.elts]
        src = [binds.get(e[3]), binds.get(e[4])]
        want = ([f"residue_{lower}", f"residue_{hi}", "cis_trans"], [f"edges_{lower}", f"edges_{hi}"])
        if e[:3] == want[0] and src == want[1]:
            chk.ok("label-orientation", fi.site(call), f"lower residue_{lower} first: ({', '.join(e)}) with edges from {src[0]} x {src[1]} (full product)")
        elif None in src or e[2] != "cis_trans" or {e[0], e[1]} != {"residue_i", "residue_j"}:
            chk.error("label-orientation", fi.site(call), f"label tuple `({', '.join(e)})` / edge sources {src} not understood")
        else:
            chk.violation(
                "label-orientation",
                fi.site(call),
                f"when residue_{lower} is the lower one the label is ({', '.join(e)}) with edges from {src}: expected ({', '.join(want[0])}, edge of {want[1][0]}, edge of {want[1][1]}) - residues and their edges are not swapped together",
                K(fi, "orientation"),
                expected=want[0] + want[1],
                found=e[:3] + src,
            )
    if covered != {"i", "j"} and not any(True for _ in []):
        miss = {"i", "j"} - covered
        if miss:
            chk.violation("label-orientation", fi.site(ll), f"no labels are added when residue_{sorted(miss)[0]} is the lower residue", K(fi, "orientation-missing"))



def _selection_loop(chk, fi, fm, inl, fold, c) -> None:
    """Path-based reading of the selection loop: on every path through its body, a candidate is reported iff it has enough
    contacts and both its (residue, edge) keys were tested free; exactly the reported candidates claim their two keys."""
    sl = [l for l in fi.node.body if isinstance(l, ast.For) and isinstance(l.iter, ast.Call) and astq.callee_name(l.iter) == "most_common"]
    if len(sl) != 1:
        raise AnalysisError("find_pairs: selection loop over Counter.most_common() not found")
    sl = sl[0]
    src = inl.inline(sl.iter, sl)
    chk.expect(norm(src) == "Counter(labels).most_common()", "select-source", fi.site(sl), "candidates = Counter(labels).most_common(): every label with its contact count, best supported first", f"selection iterates `{norm(src)}`, not all labels with their counts", K(fi, "select-source"), found=norm(src))
    if not (isinstance(sl.target, ast.Tuple) and len(sl.target.elts) == 2 and isinstance(sl.target.elts[1], ast.Name)):
        raise AnalysisError("selection loop target is not (interaction, count)")
    cnt = sl.target.elts[1].id
    inter = norm(sl.target.elts[0])
    unp = [s for s in sl.body if isinstance(s, ast.Assign) and isinstance(s.targets[0], ast.Tuple) and norm(s.value) == inter]
    if isinstance(sl.target.elts[0], ast.Tuple) and len(sl.target.elts[0].elts) == 5:
        names = [norm(e) for e in sl.target.elts[0].elts]
    elif len(unp) == 1 and len(unp[0].targets[0].elts) == 5:
        names = [norm(e) for e in unp[0].targets[0].elts]
    else:
        chk.error("select-roles", fi.site(sl), "the label is not unpacked into five names (residue, residue, c/t, edge, edge)")
        return
    r_i, r_j, ct, e_i, e_j = names
    chk.ok("select-roles", fi.site(sl), f"the label is unpacked as ({', '.join(names)}) in the order the label loop built it")
    keys = {f"({r_i}, {e_i})": "first", f"({r_j}, {e_j})": "second"}
    mixed = {f"({r_i}, {e_j})", f"({r_j}, {e_i})"}
    from sa import paths as P

    try:
        all_paths = P.paths(sl.body)
    except P.TooManyPaths as ex:
        chk.error("edge-exclusive", fi.site(sl), str(ex))
        return

    alias = {}
    for s2 in ast.walk(sl):
        if isinstance(s2, ast.Assign) and len(s2.targets) == 1 and isinstance(s2.targets[0], ast.Name) and isinstance(s2.value, ast.Tuple) and len(astq.assignments(sl, s2.targets[0].id)) == 1:
            alias[s2.targets[0].id] = norm(s2.value)
        elif isinstance(s2, ast.Assign) and len(s2.targets) == 1 and isinstance(s2.targets[0], ast.Tuple) and isinstance(s2.value, ast.Tuple) and len(s2.targets[0].elts) == len(s2.value.elts):
            for t2, v2 in zip(s2.targets[0].elts, s2.value.elts):
                if isinstance(t2, ast.Name) and isinstance(v2, ast.Tuple) and len(astq.assignments(sl, t2.id)) == 1:
                    alias[t2.id] = norm(v2)

    def occ_atom(text: str):
        """(key, truth-of-'key in occupied') for a membership atom, else None"""
        for neg, op in ((False, " in occupied"), (True, " not in occupied")):
            if text.endswith(op):
                k = text[: -len(op)]
                return alias.get(k, k), neg
        return None

    def claimed(events) -> list:
        out = []
        for a in P.calls_on(events, "occupied", "add"):
            out.append((alias.get(norm(a.args[0]), norm(a.args[0])) if a.args else "?", a))
        for a in P.calls_on(events, "occupied", "update"):
            if a.args and isinstance(a.args[0], (ast.Tuple, ast.List, ast.Set)):
                for e in a.args[0].elts:
                    out.append((alias.get(norm(e), norm(e)), a))
            else:
                out.append(("?", a))
        return out

    def count_consistent(decisions, n: int) -> bool:
        for (_, text, val, node) in decisions:
            if cnt in astq.names(node):
                try:
                    if bool(intervals.evaluate(node, lambda e, n=n: float(n) if isinstance(e, ast.Name) and e.id == cnt else None, fold)) != val:
                        return False
                except Exception:
                    raise intervals.NotThreshold(f"count test `{text}` not evaluable")
        return True

    n_report = 0
    problems = []
    reported_for = {n: False for n in range(0, 6)}
    try:
        for events, exit_ in all_paths:
            decisions = [e for e in events if e[0] == "test"]
            order = {id(e): k for k, e in enumerate(events)}
            appended = P.calls_on(events, "base_base_pairs", "append")
            cl = claimed(events)
            adds = [a for _, a in cl]
            add_keys = [k for k, _ in cl]
            occ = {}
            for d in decisions:
                oa = occ_atom(d[1])
                if oa:
                    key, neg = oa
                    occ[key] = (d[2] != neg, d)  # truth of 'key in occupied'
            cnt_dec = [d for d in decisions if cnt in astq.names(d[3])]
            feasible_counts = [n for n in range(0, 6) if count_consistent(decisions, n)]
            if not feasible_counts:
                continue  # contradictory count decisions: infeasible path
            if appended:
                n_report += 1
                for key, which in keys.items():
                    if key not in occ or occ[key][0] is not False:
                        problems.append(("edge-exclusive", appended[0], f"a pair is reported on a path where the {which} residue's edge key {key} was not tested free in `occupied`: the same edge can be used by two pairs", f"untested:{which}"))
                    if key not in add_keys:
                        problems.append(("edge-exclusive", appended[0], f"a reported pair does not claim {key} in `occupied`: a later candidate can reuse the {which} residue's edge", f"unclaimed:{which}"))
                for k in add_keys:
                    if k in mixed:
                        problems.append(("edge-exclusive", appended[0], f"`occupied.add({k})` pairs a residue with the other residue's edge", f"mixed:{k}"))
                if any(n < c["min_contacts"] for n in feasible_counts):
                    problems.append(("select-min-contacts", appended[0], f"a pair can be reported with {min(feasible_counts)} contact(s) (count decisions on the path: {[(d[1], d[2]) for d in cnt_dec] or 'none'}); the statement needs at least {c['min_contacts']}", "min-contacts"))
                if all(v[0] is False for v in occ.values()):
                    for n in feasible_counts:
                        reported_for[n] = True
            else:
                if add_keys:
                    problems.append(("edge-exclusive", adds[0], f"`occupied.add({add_keys[0]})` runs on a path that does not report the pair (decisions: {[(d[1], d[2]) for d in decisions]}): the edge is blocked for later, well supported candidates although nothing uses it (maximality)", "claim-without-report"))
                too_few = all(n < c["min_contacts"] for n in feasible_counts)
                blocked = any(v[0] is True and k in keys for k, v in occ.items())
                if not too_few and not blocked:
                    other = [d for d in decisions if d not in cnt_dec and not occ_atom(d[1])]
                    why = other[-1] if other else (decisions[-1] if decisions else None)
                    problems.append(("select-extra-filter", why[3] if why else sl, f"a candidate with enough contacts and both edges free is dropped when `{why[1] if why else '?'}` is {why[2] if why else '?'}: additional filter (maximality)", f"select-extra:{why[1][:60] if why else '?'}"))
    except intervals.NotThreshold as ex:
        chk.error("select-min-contacts", fi.site(sl), str(ex))
        return
    seen = set()
    for rule, node, msg, key in problems:
        if (rule, key) in seen:
            continue
        seen.add((rule, key))
        chk.violation(rule, fi.site(node), msg, K(fi, key))
    rules_hit = {r for r, *_ in problems}
    if n_report == 0:
        chk.violation("select-record", fi.site(sl), "no path through the selection loop reports a pair", K(fi, "record"))
        return
    if "edge-exclusive" not in rules_hit:
        chk.ok("edge-exclusive", fi.site(sl), f"{len(all_paths)} paths: a pair is reported only after both (residue, edge) keys were tested free")
        chk.ok("edge-exclusive", fi.site(sl), "every reported pair claims both of its keys; no key is claimed on a path that does not report")
    if "select-extra-filter" not in rules_hit:
        chk.ok("select-extra-filter", fi.site(sl), "a candidate is dropped only for too few contacts or an occupied edge (all non-reporting paths justified)")
    if "select-min-contacts" not in rules_hit:
        want = {n: n >= c["min_contacts"] for n in range(0, 6)}
        chk.expect(reported_for == want, "select-min-contacts", fi.site(sl), f"with free edges a label is reported iff it has at least {c['min_contacts']} contacts (counts 0..5 evaluated)", f"the count threshold does not report exactly the labels with at least {c['min_contacts']} contacts", K(fi, "min-contacts"), expected=want, found=reported_for)
    occ_binds = astq.assignments(fi.node, "occupied")
    occ_init = astq.first_assign(fi.node, "occupied")
    if occ_init is not None and norm(occ_init) in ("set()", "set([])") and len(occ_binds) == 1 and not any(occ_binds[0][0] is n for n in ast.walk(sl)):
        chk.ok("edge-exclusive", fi.where, "occupied starts empty, once, before the selection")
    elif any(any(b[0] is n for n in ast.walk(sl)) for b in occ_binds):
        chk.violation("edge-exclusive", fi.site(occ_binds[0][0]), "`occupied` is re-initialised inside the selection loop: edges claimed by earlier pairs are forgotten", K(fi, "occupied-init"))
    else:
        chk.error("edge-exclusive", fi.where, "initialisation of `occupied` not recognised")
    # LW lookup and record
    bp = [a for a in astq.calls(sl, "append") if astq.dotted(a.func.value) == "base_base_pairs"]
    if len(bp) != 1:
        chk.error("select-record", fi.site(sl), "expected one base_base_pairs.append site")
        return
    rec = inl.inline(bp[0].args[0], fm.stmt_of(bp[0]), stop=tuple(names)) if bp[0].args else None
    want_rec = f"({r_i}, {r_j}, LeontisWesthof[f'{{{ct}}}{{{e_i}}}{{{e_j}}}'])"
    alt = f"({r_i}, {r_j}, LeontisWesthof[{ct} + {e_i} + {e_j}])"
    if rec is not None and norm(rec) in (want_rec, alt):
        chk.ok("select-class", fi.site(bp[0]), "class = LeontisWesthof[c/t + edge of first + edge of second]")
        chk.ok("select-record", fi.site(bp[0]), "pair recorded as (first residue, second residue, class)")
    else:
        swapped = rec is not None and norm(rec) in (f"({r_i}, {r_j}, LeontisWesthof[f'{{{ct}}}{{{e_j}}}{{{e_i}}}'])", f"({r_j}, {r_i}, LeontisWesthof[f'{{{ct}}}{{{e_i}}}{{{e_j}}}'])")
        if swapped:
            chk.violation("select-class", fi.site(bp[0]), f"recorded pair `{norm(rec)}` gives the edges to the wrong residues", K(fi, "lw"), found=norm(rec))
        else:
            chk.violation("select-record", fi.site(bp[0]), f"recorded pair is `{norm(rec) if rec is not None else None}`, not (first residue, second residue, LeontisWesthof[c/t + edges])", K(fi, "record"), found=norm(rec) if rec is not None else None)


def check_cis_trans(chk) -> None:
    """Fact-level reading (paths of detect_cis_trans: accept region of the 'c' paths, torsion atoms per pair of base letters);
    the pinned-form reading only when that is impossible."""
    from checks import c03e

    repo = chk.repo
    c = spec("constants.json")["C03"]
    fi = repo.func(AN, "detect_cis_trans")
    chk.note_function(fi)
    try:
        c03e.check_cis_trans(chk, fi, Folder(repo, AN).fold, c)
        return
    except (c03e.NotReadable, c03e.SX.TooManyPaths) as ex:
        chk.ok("reading", fi.where, f"detect_cis_trans: fact-level reading not possible ({str(ex)[:120]}); pinned-form rules used")
    _cis_trans_pinned(chk)


def _cis_trans_pinned(chk) -> None:
    repo = chk.repo
    c = spec("constants.json")["C03"]
    fi = repo.func(AN, "detect_cis_trans")
    inl = Inliner(fi.node)
    fold = Folder(repo, AN).fold
    rets = [r for r in astq.walk_no_nested(fi.node) if isinstance(r, ast.Return) and r.value is not None and not (isinstance(r.value, ast.Constant) and r.value.value is None)]
    if len(rets) != 1 or not isinstance(rets[0].value, ast.IfExp):
        chk.error("cis-trans", fi.where, "expected one `return 'c' if <test> else 't'`")
        return
    ie = rets[0].value
    body, orelse = norm(ie.body), norm(ie.orelse)
    if {body, orelse} != {"'c'", "'t'"}:
        chk.violation("cis-trans", fi.site(rets[0]), f"returns {body}/{orelse}, not 'c'/'t'", K(fi, "letters"))
        return
    test = inl.inline(ie.test, rets[0])
    tc = [n for n in ast.walk(test) if isinstance(n, ast.Call) and astq.callee_name(n) == "torsion_angle"]
    if not tc:
        chk.error("cis-trans", fi.site(rets[0]), "cis/trans test does not depend on torsion_angle(...)")
        return
    lo, hi = c["cis_window_deg"]
    try:
        reg = intervals.region(test, [((lambda n: isinstance(n, ast.Call) and astq.callee_name(n) == "torsion_angle"), "rad")], fold, extra_thresholds=(lo, hi, -180.0, 180.0))
        want_c = body == "'c'"
        bad = {k: v for k, v in reg.items() if -180 <= k[0] <= 180 and v != ((lo < k[0] < hi) == want_c)}
        chk.expect(not bad, "cis-trans", fi.site(rets[0]), f"'c' iff the C1'-N...N-C1' torsion lies in ({lo}, {hi}) degrees", f"cis/trans boundary is not +-90 degrees of the glycosidic-bond torsion (`{norm(ie.test)}` after unit conversion)", K(fi, "boundary"), expected=f"c iff {lo} < torsion_deg < {hi}", found={str(k): v for k, v in list(bad.items())[:5]})
    except intervals.NotThreshold as ex:
        chk.error("cis-trans", fi.site(rets[0]), str(ex))
    # atoms of the torsion: each argument resolved to (residue, atom name as a function of the base letter)
    tc0 = [n for n in ast.walk(ie.test) if isinstance(n, ast.Call) and astq.callee_name(n) == "torsion_angle"]
    if not tc0:
        d0 = [n for n in ast.walk(inl.inline(ie.test, rets[0], depth=1)) if isinstance(n, ast.Call) and astq.callee_name(n) == "torsion_angle"]
        tc0 = d0 or tc
    call = tc0[0]
    if len(call.args) != 4:
        chk.error("cis-trans-atoms", fi.site(tc[0]), "torsion_angle is not called with four atoms")
        return
    letters = ["A", "G", "C", "U", "T", "N"]

    def resolve(e: ast.expr, depth: int = 6) -> ast.expr:
        """Replace local names by their definitions; a name defined in both branches of one `if` becomes a conditional expression."""
        if depth == 0:
            return e

        class _R(ast.NodeTransformer):
            def visit_Name(s2, n):
                if not isinstance(n.ctx, ast.Load) or n.id in ("residue_i", "residue_j"):
                    return n
                defs = [(st, v) for st, v in astq.assignments(fi.node, n.id) if v is not None]
                if len(defs) == 1 and isinstance(defs[0][0], ast.Assign) and isinstance(defs[0][0].targets[0], ast.Name):
                    return resolve(copy.deepcopy(defs[0][1]), depth - 1)
                if len(defs) == 1 and isinstance(defs[0][0], ast.Assign) and isinstance(defs[0][0].targets[0], ast.Tuple) and isinstance(defs[0][1], ast.Tuple) and len(defs[0][1].elts) == len(defs[0][0].targets[0].elts):
                    for t, v in zip(defs[0][0].targets[0].elts, defs[0][1].elts):
                        if isinstance(t, ast.Name) and t.id == n.id:
                            return resolve(copy.deepcopy(v), depth - 1)
                if len(defs) == 2:
                    for iff in [x for x in ast.walk(fi.node) if isinstance(x, ast.If)]:
                        a = [v for st, v in defs if st in iff.body]
                        b = [v for st, v in defs if st in iff.orelse]
                        if len(a) == 1 and len(b) == 1:
                            return ast.IfExp(test=resolve(copy.deepcopy(iff.test), depth - 1), body=resolve(copy.deepcopy(a[0]), depth - 1), orelse=resolve(copy.deepcopy(b[0]), depth - 1))
                return n

        return ast.fix_missing_locations(_R().visit(copy.deepcopy(e)))

    class _Res:
        def __init__(self, letter):
            self.one_letter_name = letter

    got = []
    for a in call.args:
        r = resolve(a)
        sides = {x.id for x in ast.walk(r) if isinstance(x, ast.Name) and x.id in ("residue_i", "residue_j")}
        if len(sides) != 1:
            got.append((None, None, norm(r)))
            continue
        side = next(iter(sides))
        table = {}
        for L in letters:
            # evaluate which find_atom(<name>) the expression denotes for base letter L
            cur = r
            name = None
            for _ in range(6):
                if isinstance(cur, ast.IfExp):
                    tv = Folder(repo, AN, {side: _Res(L)}).try_fold(cur.test, None)
                    if tv is None:
                        break
                    cur = cur.body if tv else cur.orelse
                    continue
                m = astq.match(cur, f"{side}.find_atom(X_)")
                if m:
                    name = Folder(repo, AN, {side: _Res(L)}).try_fold(m["X_"], None)
                break
            table[L] = name
        got.append((side, table, norm(r)))
    c1 = {L: "C1'" for L in letters}
    nn = {L: ("N9" if L in "AG" else "N1") for L in letters}
    want_a = [("residue_i", c1), ("residue_i", nn), ("residue_j", nn), ("residue_j", c1)]
    want_b = [("residue_j", c1), ("residue_j", nn), ("residue_i", nn), ("residue_i", c1)]
    have = [(g[0], g[1]) for g in got]
    if any(g[0] is None or g[1] is None or None in g[1].values() for g in got):
        chk.error("cis-trans-atoms", fi.site(tc[0]), f"torsion atoms {[g[2][:60] for g in got]} not resolved to find_atom(<name>) of one residue")
    else:
        chk.expect(
            have in (want_a, want_b),
            "cis-trans-atoms",
            fi.site(tc[0]),
            "torsion over C1'(i) - N9/N1(i) - N9/N1(j) - C1'(j); N9 for A/G, N1 for C/U/T/other (evaluated per base letter)",
            "the cis/trans torsion is not taken over C1'(i), N9|N1(i), N9|N1(j), C1'(j) with N9 for purines (A, G) and N1 otherwise",
            K(fi, "torsion-atoms"),
            expected=[(w[0], w[1]["A"], w[1]["C"]) for w in want_a],
            found=[(g[0], g[1]["A"], g[1]["C"]) for g in got],
        )


def check_base_normal(chk) -> None:
    from checks import c03e

    repo = chk.repo
    fi = repo.func(T3, "Residue3D.base_normal_vector")
    chk.note_function(fi)
    chk.robust |= {"base-normal"}
    try:
        c03e.check_base_normal(chk, fi)
    except (c03e.NotReadable, c03e.SX.TooManyPaths) as ex:
        chk.ok("reading", fi.where, f"base_normal_vector: fact-level reading not possible ({str(ex)[:120]}); pinned-form rule used")
        _pinned(chk, _base_normal_pinned, chk, fi)
    abv = repo.func(AN, "angle_between_vectors")
    chk.note_function(abv)
    rets = [r for r in abv.node.body if isinstance(r, ast.Return)]
    chk.expect(
        len(rets) == 1 and norm(rets[0].value) in ("math.acos(numpy.dot(v1, v2) / numpy.linalg.norm(v1) / numpy.linalg.norm(v2))", "math.acos(numpy.dot(v1, v2) / (numpy.linalg.norm(v1) * numpy.linalg.norm(v2)))"),
        "angle-function",
        abv.where,
        "angle_between_vectors = acos(v1.v2 / |v1| / |v2|) in radians",
        "angle_between_vectors is not acos of the normalised dot product",
        K(abv, "formula"),
    )


def _base_normal_pinned(chk, fi) -> None:
    repo = chk.repo
    ifs = [s for s in fi.node.body if isinstance(s, ast.If)]
    ok = False
    if len(ifs) == 1 and norm(ifs[0].test) in ("self.one_letter_name in 'AG'",):
        def atoms(block):
            return [astq.match(s.value, "self.find_atom(A_)")["A_"].value for s in block if isinstance(s, ast.Assign) and astq.match(s.value, "self.find_atom(A_)")]
        def vecs(block):
            return [norm(s.value) for s in block if isinstance(s, ast.Assign) and norm(s.targets[0]) in ("v1", "v2")]
        pu, py = atoms(ifs[0].body), atoms(ifs[0].orelse)
        ok = pu == ["N9", "N7", "N3"] and py == ["N1", "C4", "O2"] and vecs(ifs[0].body) == ["n7.coordinates - n9.coordinates", "n3.coordinates - n9.coordinates"] and vecs(ifs[0].orelse) == ["c4.coordinates - n1.coordinates", "o2.coordinates - n1.coordinates"]
    rets = [r for r in fi.node.body if isinstance(r, ast.Return)]
    nrm = astq.first_assign(fi.node, "normal")
    ok = ok and nrm is not None and norm(nrm) == "numpy.cross(v1, v2)" and len(rets) == 1 and norm(rets[0].value) == "normal / numpy.linalg.norm(normal)"
    # every early exit gives up with None (a fallback value for a base without its reference atoms is another normal)
    early = [r for r in ast.walk(fi.node) if isinstance(r, ast.Return) and r not in rets]
    ok = ok and all(r.value is None or (isinstance(r.value, ast.Constant) and r.value.value is None) for r in early)
    chk.expect(ok, "base-normal", fi.where, "base normal = unit cross product of (N7-N9, N3-N9) for purines, (C4-N1, O2-N1) otherwise", "the base normal is not the unit cross product of the two in-plane vectors N9->N7, N9->N3 (purines) / N1->C4, N1->O2 (pyrimidines)", K(fi, "normal"))


# rules whose violations are evaluated facts about the current code (folded constants, accept regions, path enumeration, tables)
ROBUST = {
    "table-pinned", "table-closure", "lw-total", "contact-radius", "contact-source", "angle-window", "cis-trans", "select-min-contacts",
    "edge-exclusive", "select-extra-filter", "select-class", "label-orientation", "cis-trans-atoms", "same-residue-identity",
} | FACT


def run(chk) -> None:
    chk.explanation = (
        "Static rules on annotator.find_pairs, detect_cis_trans, Residue3D.base_normal_vector and the tables of tertiary.py: constant-folded contact radius; "
        "donor/acceptor typing; closed-world classification of every early exit of the three loops (any additional filter is a report - maximality/completeness); "
        "accept region of the angle test evaluated cell by cell against 50-130 degrees on both normals with unit tracking; cis/trans region against +-90 degrees; "
        "integer accept set of the contact-count test; guarded-insert discipline on the occupied-edge set; label orientation; edge/donor/acceptor tables equal to the "
        "pinned Leontis-Westhof tables and closed under each other; LeontisWesthof total over c/t x {W,H,S}^2."
    )
    chk.trusted = ["CPython ast", "scipy KDTree.query_pairs returns every pair within the radius", "pinned tables in spec/lw_edges.json (provenance there)"]
    chk.assumptions = ["contacts within 1e-6 of a threshold are undecided (strictness of comparisons is not compared)", "float geometry itself is not decided"]
    chk.robust |= ROBUST
    check_tables(chk)
    check_find_pairs(chk)
    check_cis_trans(chk)
    check_base_normal(chk)
    for rule, n in (("table-pinned", 6), ("contact-radius", 1), ("angle-window", 1), ("cis-trans", 1), ("select-min-contacts", 1), ("edge-exclusive", 3), ("contact-skips", 4), ("label-orientation", 1)):
        chk.floor(rule, n)


MANIFEST_ENTRY = {
    "text": "Static decision of the structural clauses of the base-pair definition on the current source: radius 4.0 (folded), donor-acceptor only, different residues, both angles in "
    "50-130 degrees (cell-by-cell accept region with unit tracking), cis iff |torsion| < 90 degrees over C1'-N9/N1..N9/N1-C1', at least two contacts, no edge used twice (guarded insert), and "
    "maximality as a closed-world rule: a candidate can only be skipped for too few contacts or an occupied edge. Tables are pinned by value and cross-checked for closure. Since round 3 every clause is decided first by fact-level rules (checks/c03e.py, c03v.py): the contact loop and the selection loop are executed symbolically path by path (sa/symexec.py) and evaluated by value on representative residues and contact lists, whatever the shape of the code; the pinned forms are per-aspect fallbacks.",
    "note": "Trusted: KD-tree completeness, pinned Leontis-Westhof tables. Not decided: floating-point geometry, which atoms define the base normal beyond the stated triple, O2' consumption order between base-ribose and base-base detection.",
    "technique": "static analysis: constant folding, reaching-definition inlining, accept-region evaluation of threshold guards over the cell partition, closed-world guard classification, table agreement + symbolic path execution and fragment evaluation of the ast on finite input-class representatives (nothing of the library is imported or run)",
}
